(* C02 — emitted CBOR conforms to the Conway ledger wire format. Statements only; proofs in PyC.LedgerProofs.
   Ledger.v      : the SPECIFICATION — transaction content and the reference encoder transcribed from the CDDL.
   LedgerModel.v : the MODEL — pycardano's serialization of that content: the generic dataclass walk (Codec.to_prim)
                   over the encode-side class tables regenerated from /repo, plus the hand-modelled overrides.
   Theorems: for EVERY content (all sizes, nestings, subsets of optional fields, both set forms, both output forms,
   both redeemer forms, the three auxiliary-data forms) the model's bytes are the reference bytes. *)
From Coq Require Import NArith ZArith String List Bool.
From PyC Require Import Base Cbor Value Codec Ledger LedgerModel LedgerTables LedgerProofs LedgerOracle.
From PyCGen Require Import SchemaGen.
Import ListNotations.
Open Scope string_scope.

(* ---- for any class tables / enum tables agreeing with the recorded ones on the classes the model walks ---- *)
Theorem C02_transaction : forall S E, agree S -> enums_agree E ->
  forall t, tx_wf t -> m_tx S E t = Ok (ref_tx t).
Proof. exact tx_ok. Qed.
Print Assumptions C02_transaction.

Theorem C02_body : forall S E, agree S -> enums_agree E ->
  forall tagged b, body_wf b -> m_body S E tagged b = Ok (ref_body tagged b).
Proof. exact body_ok. Qed.
Print Assumptions C02_body.

Theorem C02_witness_set : forall S E, agree S -> enums_agree E ->
  forall tagged w, wits_wf w -> m_wits S E tagged w = Ok (ref_witness_set tagged w).
Proof. exact wits_ok. Qed.
Print Assumptions C02_witness_set.

Theorem C02_output : forall S, agree S -> forall o, output_wfP o -> m_output S o = Ok (ref_output o).
Proof. exact output_ok. Qed.
Print Assumptions C02_output.

Theorem C02_certificate : forall S E, agree S -> enums_agree E ->
  forall tagged c, cert_wf c -> m_cert S E tagged c = Ok (ref_cert tagged c).
Proof. exact cert_ok. Qed.
Print Assumptions C02_certificate.

Theorem C02_proposal : forall S, agree S -> forall tagged p, proposal_wf p -> m_proposal S tagged p = Ok (ref_proposal tagged p).
Proof. exact proposal_ok. Qed.
Print Assumptions C02_proposal.

Theorem C02_voting_procedures : forall S E, agree S -> enums_agree E -> forall v, votes_wf v -> m_votes S E v = Ok (ref_voting_procedures v).
Proof. exact votes_ok. Qed.
Print Assumptions C02_voting_procedures.

Theorem C02_native_script : forall S, agree S -> forall s, ns_wf s -> m_nscript S s = Ok (ref_nscript s).
Proof. exact nscript_ok. Qed.
Print Assumptions C02_native_script.

Theorem C02_auxiliary_data : forall S, agree S -> forall a, aux_wf a -> m_aux S a = Ok (ref_aux a).
Proof. exact aux_ok. Qed.
Print Assumptions C02_auxiliary_data.

Theorem C02_redeemers : forall S E, agree S -> enums_agree E ->
  forall as_map l, Forall redeemer_wf l -> m_redeemers S E as_map l = Ok (ref_redeemers as_map l).
Proof. exact redeemers_ok. Qed.
Print Assumptions C02_redeemers.

(* ---- PER RUN: today's regenerated tables are the recorded ones on every class the model walks ---- *)
Theorem C02_tables_today : agree SchemaGen.enc_schema.
Proof. apply agree_intro. unfold names. repeat (apply Forall_cons; [vm_compute; reflexivity|]). apply Forall_nil. Qed.
Print Assumptions C02_tables_today.

Theorem C02_enums_today : enums_agree SchemaGen.enum_values.
Proof. unfold enums_agree, expected_enums. repeat (apply Forall_cons; [cbn [fst snd]; repeat (apply Forall_cons; [vm_compute; reflexivity|]); apply Forall_nil|]). apply Forall_nil. Qed.
Print Assumptions C02_enums_today.

(* the source of every hand-modelled override / constructor has the recorded digest *)
Theorem C02_fingerprints_today : fingerprints_ok SchemaGen.fingerprints = true.
Proof. vm_compute. reflexivity. Qed.
Print Assumptions C02_fingerprints_today.

(* hence, for the tables of TODAY's source: every well-formed transaction content serializes to the reference bytes *)
Theorem C02_conform_today : forall t, tx_wf t ->
  m_tx_bytes SchemaGen.enc_schema SchemaGen.enum_values t = Ok (ref_tx_bytes t).
Proof. exact (tx_bytes_ok _ _ C02_tables_today C02_enums_today). Qed.
Print Assumptions C02_conform_today.

(* ---- non-vacuity: a transaction using every part of the reference model satisfies the premise, and today's tables
        give exactly the reference bytes for it ---- *)
From PyC Require Import LedgerExamples LedgerShape.
Theorem C02_premise_inhabited : tx_wf tx1 /\ m_tx_bytes SchemaGen.enc_schema SchemaGen.enum_values tx1 = Ok (ref_tx_bytes tx1).
Proof. split; [exact tx1_wf | exact (C02_conform_today tx1 tx1_wf)]. Qed.
Print Assumptions C02_premise_inhabited.

(* ---- shape clauses of the property, for every content: definite lengths, tags only 258 / 24 / 30 / 259 ---- *)
Theorem C02_shape_body : forall tagged b, plainb (ref_body tagged b) = true.
Proof. exact plain_body. Qed.
Print Assumptions C02_shape_body.
Theorem C02_shape_auxiliary_data : forall a, plainb (ref_aux a) = true.
Proof. exact plain_aux. Qed.
Print Assumptions C02_shape_auxiliary_data.
Theorem C02_shape_witness_set : forall tagged w, w_data w = None -> w_redeemers w = None -> plainb (ref_witness_set tagged w) = true.
Proof. exact plain_witness_set. Qed.
Print Assumptions C02_shape_witness_set.
Theorem C02_plain_is_definite : forall x, plainb x = true -> definite x.
Proof. exact plain_definite. Qed.
Print Assumptions C02_plain_is_definite.
(* shortest-form heads: the head of an item with argument n occupies width n bytes: 1 below 24, 2 below 2^8, 3 below 2^16, ... *)
Theorem C02_shortest_heads : forall m n, lenN (Cbor.head m n) = Cbor.width n.
Proof. exact Cbor.head_length. Qed.
Print Assumptions C02_shortest_heads.
