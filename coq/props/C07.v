(* C07 — the fee of a built transaction is sufficient and tight; the standalone fee functions equal the
   ledger formula in exact rational arithmetic.   Statements only; proofs are in PyC.FeeProofs, PyC.FeeSweep1/2,
   PyC.FeeGenProofs.

   Vocabulary.  `g_fee`, `g_max_tx_fee`, `g_tiered_reference_script_fee` are coq/gen/FeeGen.v: the three functions of
   pycardano/utils.py re-translated from the CURRENT source on every run, over dynamically typed Python values
   (`VInt` int, `VFrac` Fraction, `VFloat` binary64 float, `VErr` raised exception).  `Ledger.min_fee p size steps
   mem refbytes` = a*size + b + ceil(price_mem*mem + price_step*steps) + floor(tier p refbytes) is the Conway rule in
   exact rationals; `Ledger.tier` the tiered reference-script price.  `twopass`/`tp_*` is the size algebra of
   TransactionBuilder._add_change_and_fee (Fee.v).  `futxo` is a UTxO as the fee rules see it (reference, bytes of the
   script its output carries, locking key); `Touched.resolve_all tbl refs` looks references up in the UTxO set `tbl`;
   `builder_ref_size` / `builder_witness_count` model TransactionBuilder._ref_script_size / _witness_count;
   `Touched.ref_script_bytes` / `Touched.needed_keys` are the ledger's reading of the same transaction. *)
From Coq Require Import ZArith QArith Qround String List Bool.
From Coq Require Import PrimFloat.
From PyC Require Import Base Cbor Fee FeeProofs FeeSweep1 FeeSweep2 FeeGenProofs.
From PyCGen Require Import FeeGen.
Import ListNotations.
Open Scope Z_scope.
Import Ledger.

(* T2: the regenerated functions are the reviewed model (three proof obligations, `reflexivity` each) *)
Theorem C07_fee_gen :
  (forall fuel c n, g_tiered_reference_script_fee fuel c n = tiered_model fuel c n)
  /\ (forall fuel c l s m r, g_fee fuel c l s m r = fee_model fuel c l s m r)
  /\ (forall fuel c r, g_max_tx_fee fuel c r = max_tx_fee_model fuel c r).
Proof. exact gen_all_eq. Qed.
Print Assumptions C07_fee_gen.

(* utils.fee with int coefficients and Fraction prices is a*l + b + ceil(s*ps) + ceil(m*pm) + tier term, where the
   tier term is whatever tiered_reference_script_fee returns (an int, or its exception is passed on) *)
Theorem C07_fee_fn : forall fuel c a b ps pm l s m r,
  min_fee_coefficient (protocol_param c) = VInt a -> min_fee_constant (protocol_param c) = VInt b ->
  price_step (protocol_param c) = VFrac ps -> price_mem (protocol_param c) = VFrac pm ->
  g_fee fuel c (VInt l) (VInt s) (VInt m) (VInt r) =
    match g_tiered_reference_script_fee fuel c (VInt r) with
    | VInt T => VInt (a * l + b + Qceiling (inject_Z s * ps) + Qceiling (inject_Z m * pm) + T)
    | v => v
    end.
Proof. exact gen_fee_fn. Qed.
Print Assumptions C07_fee_fn.

(* the tier function returns an int or raises *)
Theorem C07_tier_shape : forall fuel c n,
  (exists t, g_tiered_reference_script_fee fuel c n = VInt t) \/ (exists e, g_tiered_reference_script_fee fuel c n = VErr e).
Proof. exact gen_tier_shape. Qed.
Print Assumptions C07_tier_shape.

(* against the ledger: the code takes three ceilings where the ledger takes one ceiling and one floor, so the
   value is never below the ledger minimum and at most 2 lovelace above it, provided the tier term is the exact
   tier value rounded down or up ... *)
Theorem C07_fee_bounds : forall (p : lparams) T l s m r,
  Qfloor (tier p r) <= T <= Qfloor (tier p r) + 1 ->
  min_fee p l s m r <= la p * l + lb p + Qceiling (inject_Z s * lps p) + Qceiling (inject_Z m * lpm p) + T
                    <= min_fee p l s m r + 2.
Proof. exact gen_fee_bounds. Qed.
Print Assumptions C07_fee_bounds.

(* ... and both ends are attained (the bound is exact) *)
Theorem C07_fee_bounds_exact :
  (exists p l s m r, la p * l + lb p + Qceiling (inject_Z s * lps p) + Qceiling (inject_Z m * lpm p) + Qceiling (tier p r)
                     = min_fee p l s m r)
  /\ (exists p l s m r, la p * l + lb p + Qceiling (inject_Z s * lps p) + Qceiling (inject_Z m * lpm p) + Qceiling (tier p r)
                     = min_fee p l s m r + 2).
Proof. exact gen_fee_bounds_attained. Qed.
Print Assumptions C07_fee_bounds_exact.

Theorem C07_maxfee_fn : forall fuel c r ms st mm,
  max_tx_size (protocol_param c) = VInt ms -> max_tx_ex_steps (protocol_param c) = VInt st ->
  max_tx_ex_mem (protocol_param c) = VInt mm ->
  g_max_tx_fee fuel c (VInt r) = g_fee fuel c (VInt ms) (VInt st) (VInt mm) (VInt r).
Proof. exact gen_maxfee_fn. Qed.
Print Assumptions C07_maxfee_fn.

(* The tier term as the code computes it — in binary64 floats — equals the CEILING of the exact rational tier value
   for every size 0..200000 (the configured maximum), for the mainnet parameters (15.0, 25600, 1.2 floats against
   15, 25600, 6/5) and for the test fixture (int 44, 25600, float 1.2).  Exhaustive over the finite domain, by
   the kernel's VM; the bound is in the statement.  For other float parameters only correspondence is offered. *)
Theorem C07_tier_float_mainnet : forall c n,
  maximum_reference_scripts_size (protocol_param c) = VDict [("bytes"%string, VInt 200000)] ->
  min_fee_reference_scripts (protocol_param c) =
    VDict [("base"%string, VFloat 0x1.ep+3); ("range"%string, VInt 25600); ("multiplier"%string, VFloat 0x1.3333333333333p+0)] ->
  0 <= n <= 200000 ->
  g_tiered_reference_script_fee 16 c (VInt n) = VInt (Qceiling (tier mainnet_lp n)).
Proof. exact gen_tier_float_mainnet. Qed.
Print Assumptions C07_tier_float_mainnet.

Theorem C07_tier_float_fixture : forall c n,
  maximum_reference_scripts_size (protocol_param c) = VDict [("bytes"%string, VInt 200000)] ->
  min_fee_reference_scripts (protocol_param c) =
    VDict [("base"%string, VInt 44); ("range"%string, VInt 25600); ("multiplier"%string, VFloat 0x1.3333333333333p+0)] ->
  0 <= n <= 200000 ->
  g_tiered_reference_script_fee 16 c (VInt n) = VInt (Qceiling (tier fixture_lp n)).
Proof. exact gen_tier_float_fixture. Qed.
Print Assumptions C07_tier_float_fixture.

(* the specification's two readings of the Haskell tier recursion agree *)
Theorem C07_tier_spec : forall p n, 0 < lrange p -> 0 <= n ->
  tier_go (tier_fuel (lrange p) n) (lrange p) (lmult p) 0%Q (lbase p) n = tier p n.
Proof. exact tier_go_tier. Qed.
Print Assumptions C07_tier_spec.

(* the while loop never runs out of the model's fuel when fuel > size / range (range >= 1) *)
Theorem C07_tier_fuel : forall fuel m r tot n b, 0 < r ->
  tot <> VErr EFuel -> b <> VErr EFuel -> m <> VErr EFuel -> (Z.to_nat (n / r) < fuel)%nat ->
  g_tiered_reference_script_fee_loop1 fuel m (VInt r) (tot, VInt n, b) <> Err EFuel.
Proof. exact gen_tier_loop_fuel. Qed.
Print Assumptions C07_tier_fuel.

(* SUFFICIENCY of the two estimate passes.  est = the fee function at (steps s, mem m, tier term T) plus fee_buffer;
   every fake transaction carries the placeholder max(previous fee, M), M = fee at the maxima + buffer.
   Premises: non-negative coefficient/prices/buffer; the tier term is not below the ledger's; the execution units
   do not exceed the per-transaction maxima; the pass-2 fake transaction fits max_tx_size (the builder raises
   otherwise); the pass-2 content contains the pass-1 content (change outputs are added, or the merged coin does not
   get narrower).  No premise on CBOR widths. *)
Theorem C07_sufficient : forall (p : lparams) (T buffer s m r maxsize maxsteps maxmem : Z) (t : twopass),
  0 <= la p -> (0 <= lps p)%Q -> (0 <= lpm p)%Q -> 0 <= buffer ->
  Qfloor (tier p r) <= T <= Qfloor (tier p r) + 1 ->
  s <= maxsteps -> m <= maxmem ->
  tp_M t = fee_typed (la p) (lb p) (lps p) (lpm p) T maxsize maxsteps maxmem + buffer ->
  tp_size2 (est_fn p T buffer s m) t <= maxsize ->
  0 <= tp_kc t + widthZ (tp_coin1 (est_fn p T buffer s m) t) ->
  min_fee p (tp_final (est_fn p T buffer s m) t) s m r <= tp_fee2 (est_fn p T buffer s m) t.
Proof. exact builder_sufficient. Qed.
Print Assumptions C07_sufficient.

(* TIGHTNESS: at most 16 bytes (8 of the fee field, 8 of the absorbing coin field) + 2 lovelace + the buffer *)
Theorem C07_tight : forall (p : lparams) (T buffer s m r maxsize maxsteps maxmem : Z) (t : twopass),
  0 <= la p -> (0 <= lps p)%Q -> (0 <= lpm p)%Q ->
  Qfloor (tier p r) <= T <= Qfloor (tier p r) + 1 ->
  s <= maxsteps -> m <= maxmem ->
  tp_M t = fee_typed (la p) (lb p) (lps p) (lpm p) T maxsize maxsteps maxmem + buffer ->
  tp_size2 (est_fn p T buffer s m) t <= maxsize ->
  0 <= tp_kc t + widthZ (tp_coin1 (est_fn p T buffer s m) t) ->
  tp_fee2 (est_fn p T buffer s m) t <= min_fee p (tp_final (est_fn p T buffer s m) t) s m r + la p * 16 + 2 + buffer.
Proof. exact builder_tight. Qed.
Print Assumptions C07_tight.

(* Why the placeholder must have maximal width (defect `fee-width-crossing`, fixed in /repo): with the earlier scheme
   — pass 2 sized with the fee of pass 1 — the observed one-input payment under min_fee_constant 55328,
   coefficient 44 gets fee 65536 for a final transaction of 234 bytes whose minimum is 65624. *)
Theorem C07_width_refuted_old_scheme :
  old_fee2 old_est old_witness = 65536 /\ old_final old_est old_witness = 234 /\
  old_fee2 old_est old_witness < old_est (old_final old_est old_witness).
Proof. exact old_scheme_refuted. Qed.
Print Assumptions C07_width_refuted_old_scheme.

(* What the estimate is told about the touched UTxOs.  The reference-script bytes the builder feeds into the fee
   (`r` of C07_sufficient) are the ledger's: every output the body spends or references counts once — also when it is
   listed among the inputs and among the reference inputs — and equal scripts on different outputs count each time. *)
Theorem C07_ref_script_bytes : forall tbl ins refs uins urefs,
  Touched.resolve_all tbl ins = Some uins -> Touched.resolve_all tbl refs = Some urefs ->
  builder_ref_size uins urefs = Touched.ref_script_bytes tbl ins refs.
Proof. exact ref_size_ledger. Qed.
Print Assumptions C07_ref_script_bytes.

(* the ledger's sum ranges over a set: no reference twice, the same members as inputs ++ reference inputs *)
Theorem C07_ref_script_set : forall l, NoDup (Touched.distinct l) /\ forall x, In x (Touched.distinct l) <-> In x l.
Proof. exact distinct_is_set. Qed.
Print Assumptions C07_ref_script_set.

(* One placeholder witness per key the ledger asks for (keys locking spent and collateral inputs, required signers,
   key leaves of the native scripts), PROVIDED the count is taken on the inputs and collateral of the final body; the
   premise of C07_sufficient "same number of witnesses as placeholders" rests on this (checked per run by build_corr:
   placeholders of the last fake transaction = this count = witnesses in the signed bytes). *)
Theorem C07_witness_count : forall tbl ins coll uins ucoll req skeys,
  Touched.resolve_all tbl ins = Some uins -> Touched.resolve_all tbl coll = Some ucoll ->
  builder_witness_count uins ucoll req skeys = Z.of_nat (List.length (Touched.needed_keys tbl ins coll req skeys)).
Proof. exact witness_count_ledger. Qed.
Print Assumptions C07_witness_count.
