(* C20 — chain-context adapters report UTxOs faithfully (Blockfrost, Ogmios v5, Ogmios v6, Kupo, cardano-cli).
   Statements only; models are in PyC.Adapters (render_X = the service's documented JSON shape, parse_X = hand
   model of the adapter), proofs in PyC.AdaptersProofs / PyC.AdaptersOracle.

   Vocabulary (PyC.Adapters):
     utxo_model   tx id, index, lovelace, assets grouped policy -> (name -> quantity : N), the order `u_flat` in which a
                  flat-listing service enumerates the same assets, datum (none | hash [+ preimage known to the indexer]
                  | inline: hash, CBOR bytes, value), reference script (Plutus version + bytes | native script), and how
                  Blockfrost/Kupo file that script (hash, extra CBOR wrapper or not)
     autxo        what the adapter returns: tx id, index, address text, lovelace, MultiAsset as an insertion-ordered dict of
                  dicts, datum_hash, datum, script
     wf_utxo H x u  32-byte tx id; 28-byte pairwise distinct policies, each with >= 1 pairwise distinct names of 0..32
                  bytes; u_flat is a permutation of the grouped listing; 32-byte datum hashes, non-empty datum bytes that
                  differ from their own hash; the reference script kind is one adapter x handles (script_supported) and,
                  for Blockfrost/Kupo, is filed under its blake2b-224 hash H (version byte ++ bytes)
     H            blake2b-224, a parameter: no property of it is used except on the script at hand
   Unbounded: any number of UTxOs, policies, names; any name length 0..32; any quantities (N).

   Repeated queries of ONE adapter instance while the service's answers change (PyC.AdaptersSeq):
     op           what happens next: OTick dt (clock, ticks of 1/1024 s) | OBlock slot w (a block: new tip slot, new ledger
                  state w) | OQuery a (`utxos(a)`) | OTip (`last_block_slot`) | OPoll (`_is_chain_tip_updated()`)
     cfg          how the adapter is built: c_cached (answers go through `_utxo_cache`, a TTL/LRU cache keyed by
                  (last_block_slot, address)), c_memo_ttl (ttl of the `last_block_slot` memo: 1024 ticks for Ogmios v5/v6
                  and cardano-cli, 0 when the tip is read live), c_interval (refetch_chain_tip_interval = ttl of the cache),
                  c_max (utxo_cache_size), c_poll; svc_cfg x interval max = the configuration of adapter x
     run          the state machine (memo, cache with expiry and LRU eviction, `_last_chain_tip_fetch`,
                  `_last_known_block_slot`); one event per operation: clock, tip slot and ledger state of the SERVICE after it,
                  and what the client observed
     fetch w a    what asking the service now gives when its ledger state is w (for the adapters: parse_X (render_X a (w a)))
     increasing   every block carries a larger tip slot than the one before *)
From Coq Require Import NArith ZArith Ascii String List Bool Permutation.
From PyC Require Import Base Cbor Dict Value Json Adapters AdaptersProofs AdaptersOracle.
From PyC Require Import AdaptersSeq AdaptersSeqProofs AdaptersSeqOracle.
Import ListNotations.
Open Scope string_scope.
Open Scope list_scope.

(* what "faithful" says, spelled out *)
Theorem C20_faithful_means : forall x addr u o,
  faithful x addr u o <->
  ( a_txid o = u_txid u /\ a_index o = Z.of_N (u_index u) /\ a_addr o = addr /\
    a_lovelace o = Z.of_N (u_lovelace u) /\
    (* exactly the same quantity for every (policy, name), empty names and several names per policy included *)
    (forall p n, content (a_assets o) p n = Z.of_N (ucontent (u_assets u) p n)) /\
    (* exactly the same (policy, name) keys: nothing dropped, merged, invented or moved to another policy *)
    (forall p n, In n (keys (mget (a_assets o) p)) <-> In (p, n) (map fkey (flatten (u_assets u)))) /\
    (* no duplicated key, no empty policy entry *)
    (NoDup (keys (a_assets o)) /\ forall p a, In (p, a) (a_assets o) -> NoDup (keys a) /\ a <> []) /\
    (* datum hash / inline datum as service x reports them; reference script unchanged *)
    (a_datum_hash o, a_datum o) = datum_report x (u_datum u) /\
    a_script o = u_script u ).
Proof. intros. reflexivity. Qed.
Print Assumptions C20_faithful_means.

(* MAIN: for every service, any response rendered from well-formed UTxO models is parsed into exactly one faithful UTxO per
   model, in order (aux_ok: the script/datum side documents of each UTxO are the ones served under its hash — automatic
   for distinct hashes, see C20_aux_ok_distinct, and for a single UTxO, see C20_one) *)
Theorem C20_adapters : forall (H : bytes -> bytes) x addr us,
  Forall (wf_utxo H x) us -> aux_ok x addr us ->
  exists outs, parse H x addr (render x addr us) = Ok outs /\ Forall2 (faithful x addr) us outs.
Proof. exact adapters_faithful. Qed.
Print Assumptions C20_adapters.

Theorem C20_one : forall (H : bytes -> bytes) x addr u, wf_utxo H x u ->
  exists o, parse H x addr (render x addr [u]) = Ok [o] /\ faithful x addr u o.
Proof. exact adapter_faithful_one. Qed.
Print Assumptions C20_one.

Theorem C20_blockfrost : forall (H : bytes -> bytes) addr us,
  Forall (wf_utxo H Blockfrost) us -> aux_ok Blockfrost addr us ->
  exists outs, parse_blockfrost H addr (render_blockfrost addr us) = Ok outs /\ Forall2 (faithful Blockfrost addr) us outs.
Proof. exact bf_ok. Qed.
Print Assumptions C20_blockfrost.

Theorem C20_ogmios_v5 : forall (H : bytes -> bytes) addr us, Forall (wf_utxo H OgmiosV5) us ->
  exists outs, parse_v5 (render_v5 addr us) = Ok outs /\ Forall2 (faithful OgmiosV5 addr) us outs.
Proof. exact v5_ok. Qed.
Print Assumptions C20_ogmios_v5.

Theorem C20_ogmios_v6 : forall (H : bytes -> bytes) addr us, Forall (wf_utxo H OgmiosV6) us ->
  exists outs, parse_v6 (render_v6 addr us) = Ok outs /\ Forall2 (faithful OgmiosV6 addr) us outs.
Proof. exact v6_ok. Qed.
Print Assumptions C20_ogmios_v6.

Theorem C20_kupo : forall (H : bytes -> bytes) addr us,
  Forall (wf_utxo H Kupo) us -> aux_ok Kupo addr us ->
  exists outs, parse_kupo H addr (render_kupo addr us) = Ok outs /\ Forall2 (faithful Kupo addr) us outs.
Proof. exact kupo_ok. Qed.
Print Assumptions C20_kupo.

Theorem C20_cardano_cli : forall (H : bytes -> bytes) addr us, Forall (wf_utxo H Cli) us ->
  exists outs, parse_cli (render_cli addr us) = Ok outs /\ Forall2 (faithful Cli addr) us outs.
Proof. exact cli_ok. Qed.
Print Assumptions C20_cardano_cli.

(* side documents: distinct hashes suffice *)
Theorem C20_aux_ok_distinct : forall x addr us,
  match x with
  | Blockfrost => NoDup (map fst (flat_map bf_script_docs us)) /\ NoDup (map fst (flat_map bf_cbor_docs us)) /\
                  NoDup (map fst (flat_map bf_json_docs us))
  | Kupo => NoDup (map fst (flat_map kupo_script_docs us)) /\ NoDup (map fst (flat_map kupo_datum_docs us))
  | _ => True
  end -> aux_ok x addr us.
Proof. exact aux_ok_nodup. Qed.
Print Assumptions C20_aux_ok_distinct.

(* the asset core, for ANY listing order: inserting the listed (policy, name, quantity) triples one by one with
   `m.setdefault(policy, Asset())[name] = q` gives exactly the modelled quantities and keys *)
Theorem C20_assets_any_order : forall a flat, wf_assets a -> Permutation (flatten a) flat ->
  let m := assets_of_flat flat in
  (forall p n, content m p n = Z.of_N (ucontent a p n)) /\
  (forall p n, present m p n <-> upresent a p n) /\
  minv m.
Proof. exact assets_faithful. Qed.
Print Assumptions C20_assets_any_order.

(* helper lemmas named in the design *)
Theorem C20_hex_roundtrip : forall b, unhex (hexs b) = Some b.
Proof. exact unhex_hexs. Qed.
Print Assumptions C20_hex_roundtrip.

(* Blockfrost unit = 56 hex characters of policy ++ hex of the name *)
Theorem C20_split56 : forall p n, length p = 28%nat ->
  String.length (hexs p) = 56%nat /\
  from_hex (hexs p ++ hexs n)%string = Ok (p ++ n) /\ firstn 28 (p ++ n) = p /\ skipn 28 (p ++ n) = n.
Proof. exact split56. Qed.
Print Assumptions C20_split56.

(* Kupo / Ogmios v5 asset id "policy.name", or "policy" for the empty name *)
Theorem C20_kupo_split : forall p n, length p = 28%nat -> (length n <= 32)%nat ->
  extract_asset_info (dotted p n) = Ok (p, n).
Proof. exact kupo_split. Qed.
Print Assumptions C20_kupo_split.

(* Blockfrost native scripts / cardano-cli inline datums: the recursive readers invert the documented JSON *)
Theorem C20_native_script_json : forall ns, wf_nscript ns -> native_from_dict (ns_json ns) = Ok ns.
Proof. exact native_from_dict_rt. Qed.
Print Assumptions C20_native_script_json.

Theorem C20_plutus_data_json : forall pd, wf_pdata pd ->
  plutus_from_dict (pd_json pd) = Ok (pyd_of_pdata pd) /\ pdata_of_pyd (pyd_of_pdata pd) = Some pd.
Proof. intros pd W. split; [now apply plutus_from_dict_rt | apply pdata_of_pyd_rt]. Qed.
Print Assumptions C20_plutus_data_json.

(* per-service datum conventions are instances of one service-independent reading (only the UTxO's own datum
   information is reported, in one of the two fields or both) *)
Theorem C20_datum_reading : forall x addr u o, faithful x addr u o -> faithful_any addr u o.
Proof. exact faithful_is_faithful_any. Qed.
Print Assumptions C20_datum_reading.

(* the decision procedure run on the real adapters' outputs decides that reading *)
Theorem C20_oracle_sound : forall x addr us ds impl,
  Forall (fun u => wf_assets (u_assets u)) us -> c20_oracle (x, addr, us, ds) impl = true ->
  exists outs, impl = Ok outs /\ Forall2 (faithful_any addr) us outs.
Proof. exact c20_oracle_sound. Qed.
Print Assumptions C20_oracle_sound.

(* KNOWN FINDING C20-refscript-unsupported (region script_unsupported): outside script_supported the adapter raises for
   the whole address query, i.e. the UTxO is not reported: native reference scripts on Ogmios v5/v6, Kupo and
   cardano-cli ("SimpleScript"), PlutusScriptV3 on cardano-cli *)
Theorem C20_unsupported_script_refuted :
  let H := fun _ : bytes => repeat Byte.xee 28 in
  (wf_assets (u_assets u_native) /\ length (u_txid u_native) = 32%nat /\ wf_datum Cli (u_datum u_native)) /\
  script_supported OgmiosV5 (u_script u_native) = false /\
  parse H OgmiosV5 "addr" (render OgmiosV5 "addr" [u_native]) = Err "ValueError" /\
  parse H OgmiosV6 "addr" (render OgmiosV6 "addr" [u_native]) = Err "ValueError" /\
  parse H Kupo "addr" (render Kupo "addr" [u_native]) = Err "ValueError" /\
  parse H Cli "addr" (render Cli "addr" [u_native]) = Err "KeyError" /\
  script_supported Cli (u_script u_plutus_v3) = false /\
  parse H Cli "addr" (render Cli "addr" [u_plutus_v3]) = Err "KeyError".
Proof. exact script_unsupported_refuted. Qed.
Print Assumptions C20_unsupported_script_refuted.

(* KNOWN FINDING C20-cli-inline-datum-map-key (region cli_datum_map_key): outside wf_pdata — a Plutus map whose key is a
   constructor/list/map, or with a repeated key — the cardano-cli adapter (RawPlutusData.from_dict builds a Python dict)
   raises for the whole address query, or silently reports a different datum value (last duplicate wins) *)
Theorem C20_cli_datum_map_key_refuted :
  let H := fun _ : bytes => repeat Byte.xee 28 in
  parse H Cli "addr" (render Cli "addr" [u_map_constr_key]) = Err "TypeError" /\
  (exists o, parse H Cli "addr" (render Cli "addr" [u_map_dup_key]) = Ok [o] /\
             a_datum o = Some (AData (YDict [(YInt 1, YInt 2)])) /\
             pdata_of_pyd (YDict [(YInt 1, YInt 2)]) = Some (PMap [(PInt 1, PInt 2)]) /\
             PMap [(PInt 1, PInt 2)] <> PMap [(PInt 1, PInt 1); (PInt 1, PInt 2)]).
Proof. exact cli_datum_map_key_refuted. Qed.
Print Assumptions C20_cli_datum_map_key_refuted.

(* ================= state carried across calls of one adapter instance =================
   MAIN (any configuration, any run with increasing tip slots): an answer of utxos(a) is the service's answer for its
   CURRENT ledger state, or for a ledger state that was current at an earlier event of the run less than c_memo_ttl
   (the ttl of the `last_block_slot` memo: 1 s) before the query.  The refetch interval and the cache size do not occur:
   however long entries live in the cache, they are never served after the tip has been seen to move. *)
Theorem C20_seq_fresh : forall (W A : Type) (fetch : W -> string -> A) (cacheable : A -> bool) (c : cfg)
    (ops : list (op W)) (now sl : N) (w : W),
  increasing sl ops ->
  forall pre e post a r,
    run W A fetch cacheable c ops (init now sl w) = pre ++ e :: post -> ev_obs e = OAnswer a r ->
    r = fetch (ev_w e) a \/
    exists e', In e' pre /\ (ev_time e < ev_time e' + c_memo_ttl c)%N /\ r = fetch (ev_w e') a.
Proof. exact run_fresh. Qed.
Print Assumptions C20_seq_fresh.

(* tip read live (Kupo over such a backend) or nothing cached (Blockfrost): always the CURRENT answer *)
Theorem C20_seq_current : forall (W A : Type) (fetch : W -> string -> A) (cacheable : A -> bool) (c : cfg)
    (ops : list (op W)) (now sl : N) (w : W),
  increasing sl ops -> (c_memo_ttl c = 0%N \/ c_cached c = false) ->
  forall pre e post a r,
    run W A fetch cacheable c ops (init now sl w) = pre ++ e :: post -> ev_obs e = OAnswer a r ->
    r = fetch (ev_w e) a.
Proof. exact run_current. Qed.
Print Assumptions C20_seq_current.

Theorem C20_seq_current_kupo_blockfrost : forall interval max,
  c_memo_ttl (svc_cfg Kupo interval max) = 0%N /\ c_cached (svc_cfg Blockfrost interval max) = false /\
  c_memo_ttl (svc_cfg OgmiosV5 interval max) = 1024%N /\ c_memo_ttl (svc_cfg OgmiosV6 interval max) = 1024%N /\
  c_memo_ttl (svc_cfg Cli interval max) = 1024%N.
Proof. intros. repeat split. Qed.
Print Assumptions C20_seq_current_kupo_blockfrost.

(* composed with C20_adapters: every answer in a run is Ok and faithful, UTxO by UTxO, to the ledger state (address ->
   UTxO models) of the query's own event or of an event less than the memo's ttl earlier *)
Theorem C20_seq_adapters : forall (H : bytes -> bytes) x (c : cfg) (ops : list (op (string -> list utxo_model))) now sl w,
  increasing sl ops ->
  (forall w', In w' (w :: blocks ops) -> forall a, Forall (wf_utxo H x) (w' a) /\ aux_ok x a (w' a)) ->
  forall pre e post a r,
    run _ _ (ufetch H x) is_ok c ops (init now sl w) = pre ++ e :: post -> ev_obs e = OAnswer a r ->
    exists e', (e' = e \/ In e' pre /\ (ev_time e < ev_time e' + c_memo_ttl c)%N) /\
               exists outs, r = Ok outs /\ Forall2 (faithful x a) (ev_w e' a) outs.
Proof. exact seq_adapters_faithful. Qed.
Print Assumptions C20_seq_adapters.

(* the bound is tight: 0.5 s after a block an Ogmios/cardano-cli adapter may still give the previous ledger state's
   answer (5), and gives the new one (7) after another 0.5 s; Kupo over a live tip gives 7 at once *)
Theorem C20_seq_stale_within_memo :
  let ops := [OQuery "a"; OBlock 2%N 7%N; OTick 512%N; OQuery "a"; OTick 512%N; OQuery "a"] in
  map (@ev_obs N N) (run N N (fun w _ => w) (fun _ => true) (svc_cfg OgmiosV6 1024000 10) ops (init 0%N 1%N 5%N)) =
    [OAnswer "a" 5%N; ONone; ONone; OAnswer "a" 5%N; ONone; OAnswer "a" 7%N] /\
  map (@ev_obs N N) (run N N (fun w _ => w) (fun _ => true) (svc_cfg Kupo 1024000 10) ops (init 0%N 1%N 5%N)) =
    [OAnswer "a" 5%N; ONone; ONone; OAnswer "a" 7%N; ONone; OAnswer "a" 7%N].
Proof. exact stale_within_memo. Qed.
Print Assumptions C20_seq_stale_within_memo.

(* the decision procedure run on the real adapters' answers along a run: trace = (operation, clock / tip / ledger of the
   service after it, what the adapter returned); a ledger maps an address to the response case served for it *)
Theorem C20_seq_oracle_sound : forall x iv mx sl w ops impl, seq_oracleb (x, iv, mx, sl, w, ops) impl = true ->
  forall l1 a p io l2, trace sl w ops impl = l1 ++ (OQuery a, p, io) :: l2 ->
  exists r, io = Some r /\
    (faithful_report (p_w _ p) a r \/
     exists p', In p' (map (fun t => snd (fst t)) l1) /\
                (p_time _ p < p_time _ p' + c_memo_ttl (svc_cfg x iv mx))%N /\ faithful_report (p_w _ p') a r).
Proof. exact seq_oracle_sound. Qed.
Print Assumptions C20_seq_oracle_sound.

Theorem C20_seq_faithful_report_means : forall w a r,
  faithful_report w a r <->
  exists x addr us ds outs, ledger_get a w = Some (x, addr, us, ds) /\ r = Ok outs /\
    (Forall (fun u => wf_assets (u_assets u)) us -> Forall2 (faithful_any addr) us outs).
Proof. intros. reflexivity. Qed.
Print Assumptions C20_seq_faithful_report_means.
