(* C01 — placeholder until CodecProofs is in place: CBOR layer round trip (proved) *)
From Coq Require Import NArith List.
From PyC Require Import Base Cbor CborProofs.

Theorem C01_cbor_layer : forall x, wf x -> forall f rest, (sz x <= f)%nat -> dec f (enc x ++ rest) = Some (x, rest).
Proof. exact dec_enc. Qed.
Print Assumptions C01_cbor_layer.
