(* C01 — decoding an encoded ledger object returns an equal object, and re-encodes to the same bytes.
   Statements only; proofs in PyC.CborProofs / PyC.CodecProofs. *)
From Coq Require Import NArith ZArith String List Bool.
From PyC Require Import Base Cbor CborProofs Value Codec CodecProofs CodecSites CodecKnown.
From PyCGen Require Import SchemaGen.
Import ListNotations.
Open Scope string_scope.
Open Scope list_scope.

(* wire layer: decoding the bytes of any well-formed data item returns the item (any nesting, any size) *)
Theorem C01_cbor_layer : forall x, wf x -> forall f rest, (sz x <= f)%nat -> dec f (enc x ++ rest) = Some (x, rest).
Proof. exact dec_enc. Qed.
Print Assumptions C01_cbor_layer.

Theorem C01_cbor_injective : forall x y, wf x -> wf y -> enc x = enc y -> x = y.
Proof. exact enc_inj. Qed.
Print Assumptions C01_cbor_injective.

(* object layer: for EVERY class table S, every type t, every value v that is well typed at some fuel k
   (any nesting depth, any list length, any subset of optional fields, any union alternative whose
   earlier alternatives reject it), restoring the primitive of v with type t returns exactly v — so no
   field is dropped, defaulted, re-typed or re-ordered — and re-encoding gives the same primitive. *)
Theorem C01_roundtrip : forall S k t v n p,
  ht S k t v -> to_prim S n v = Ok p -> forall m, (k <= m)%nat -> from_prim S m t p = Ok v.
Proof. exact roundtrip. Qed.
Print Assumptions C01_roundtrip.

Theorem C01_reencode : forall S k t v n p m,
  ht S k t v -> to_prim S n v = Ok p -> (k <= m)%nat ->
  exists v', from_prim S m t p = Ok v' /\ v' = v /\ to_prim S n v' = Ok p.
Proof. exact roundtrip_reencode. Qed.
Print Assumptions C01_reencode.

(* union discrimination: coded classes with different type codes reject each other's encodings *)
Theorem C01_coded_rejects : forall S cu ku fu cw kw fw,
  lookup S cu = Some (KCoded ku fu) -> lookup S cw = Some (KCoded kw fw) -> ku <> kw -> in64 kw ->
  forall vs, rejects S (TCls cu) (VObj cw vs).
Proof. exact coded_rejects. Qed.
Print Assumptions C01_coded_rejects.

(* PER RUN: the decidable list of places where TODAY's regenerated class tables fall outside the premises
   (unrestorable annotations, optional array fields that are not trailing, duplicate map keys, union
   alternatives that shadow a later one) is exactly the recorded list *)
Theorem C01_sites_known : unsound_sites SchemaGen.schema = known_sites.
Proof. vm_compute. reflexivity. Qed.
Print Assumptions C01_sites_known.

(* PER RUN: the hand-modelled framework functions and custom codecs are textually (normalised AST) the
   ones the model was validated against *)
Theorem C01_fingerprints_known : SchemaGen.fingerprints = known_fingerprints.
Proof. vm_compute. reflexivity. Qed.
Print Assumptions C01_fingerprints_known.

(* the certificate union of today's tables lists every coded certificate class, with pairwise distinct codes *)
Definition cert_codes (S : Codec.schema) (names : list string) : list Z :=
  flat_map (fun c => match lookup S c with Some (KCoded k _) => [k] | Some (KOpaque _ (Some k)) => [k] | _ => [] end) names.
Theorem C01_certificate_union_today :
  match lookup_union "Certificate" SchemaGen.union_tables with
  | Some names => cert_codes SchemaGen.schema names = [0; 1; 2; 3; 4; 7; 8; 9; 10; 11; 12; 13; 14; 15; 16; 17; 18]%Z
  | None => False
  end.
Proof. vm_compute. reflexivity. Qed.
Print Assumptions C01_certificate_union_today.
