(* C15 — addresses encode and decode bijectively per CIP-19 and CIP-5; corrupted strings are rejected.
   Statements only; proofs are in PyC.Bech32Proofs / PyC.AddressProofs / PyC.AddressGenCheck.
   Model: PyC.Bech32 (crypto/bech32.py), PyC.Address (address.py, network.py).
   str = list of code points (N); "1" = 49; bytes = list byte. *)
From Coq Require Import NArith String List Bool PeanoNat.
From PyC Require Import Base Bech32 Bech32Proofs Address AddressProofs AddressOracle AddressGenCheck.
From PyCGen Require AddressGen.
Import ListNotations.
Open Scope N_scope.

(* the constants in the current source (regenerated per run) are the ones all theorems below are about *)
Theorem C15_gen_constants :
  AddressGen.CHARSET = CHARSET_string
  /\ AddressGen.BECH32M_CONST = BECH32M_CONST
  /\ N.to_nat AddressGen.VERIFICATION_KEY_HASH_SIZE = HASH_SIZE
  /\ N.to_nat AddressGen.SCRIPT_HASH_SIZE = HASH_SIZE
  /\ AddressGen.address_types = expected_address_types
  /\ AddressGen.networks = expected_networks
  /\ AddressGen.literals = expected_literals.
Proof. exact gen_constants. Qed.
Print Assumptions C15_gen_constants.

(* pointer numbers, EVERY natural n: _encode_int n is a base-128 string (all bytes but the last have bit 7),
   its value is n, it has no leading 0x80 group (minimal), and the decoder loop reads it back as exactly n *)
Theorem C15_varint : forall n,
  exists bs, encode_int n = Some bs
    /\ varint_shape bs /\ varint_value bs = n /\ varint_minimal bs
    /\ forall rest ints, ptr_loop (bs ++ rest) ints 0 = ptr_loop rest (ints ++ [n]) 0.
Proof. exact varint_full. Qed.
Print Assumptions C15_varint.

Theorem C15_pointer_rt : forall slot tx cert,
  exists pb, pointer_encode slot tx cert = Some pb /\ pointer_decode pb = Ok (SPtr slot tx cert).
Proof. exact pointer_roundtrip. Qed.
Print Assumptions C15_pointer_rt.

(* header byte: kind nibble * 16 + network nibble, for all 11 enum members x 2 networks; the kind nibble of an
   address is the CIP-19 one (cip19_nibble: base 0b00xy, pointer 0b010y, enterprise 0b011y, reward 0b111x) *)
Theorem C15_header : forall t n, header_of t n = 16 * type_value t + net_value n /\ header_of t n < 256.
Proof. exact header_of_spec. Qed.
Print Assumptions C15_header.

Theorem C15_kind : forall p s t, infer_type p s = Ok t ->
  cip19_nibble p s = Some (type_value t) /\ (forall n, hrp_of t n = cip5_hrp p n) /\ t <> BYRON.
Proof. exact infer_type_cip19. Qed.
Print Assumptions C15_kind.

(* binary form = header byte ++ payment credential ++ staking part (hash, or three minimal base-128 numbers) *)
Theorem C15_bytes : forall a, wf_addr a ->
  exists nib sb, cip19_nibble (pay a) (stk a) = Some nib
    /\ addr_bytes a = Ok (n2b (16 * nib + net_value (net a))
                          :: match pay a with Some c => cred_bytes c | None => [] end ++ sb)
    /\ stake_bytes_spec (stk a) sb.
Proof. exact addr_bytes_spec. Qed.
Print Assumptions C15_bytes.

(* decoding the binary form returns the same address; VKH / SH / SPtr are distinct constructors, so the
   credential kinds are restored; hashes have 28 bytes, pointer numbers are arbitrary naturals *)
Theorem C15_bytes_rt : forall a, wf_addr a -> exists b, addr_bytes a = Ok b /\ from_bytes b = Ok a.
Proof. exact from_bytes_addr_bytes. Qed.
Print Assumptions C15_bytes_rt.

(* text form = Bech32 (constant 1) of the 5-bit regrouping of the binary form under addr/stake(+_test);
   if it has at most 108 characters it decodes back to a, otherwise Address.encode() returns None *)
Theorem C15_text : forall a, wf_addr a ->
  exists b d5, addr_bytes a = Ok b /\ convertbits (map b2n b) 8 5 true = Some d5
    /\ length d5 = ((8 * length b + 4) / 5)%nat
    /\ let hrp := cip5_hrp (pay a) (net a) in
       if (length hrp + 7 + length d5 <=? MAXLEN)%nat
       then exists s, bech32_encode hrp d5 None = Some s /\ addr_text a = Ok (Some s) /\ from_text s = Ok a
       else addr_text a = Ok None.
Proof. exact addr_text_spec. Qed.
Print Assumptions C15_text.

Theorem C15_text_rt : forall a s, wf_addr a -> addr_text a = Ok (Some s) ->
  from_text s = Ok a /\ (length s <= MAXLEN)%nat.
Proof. exact from_text_addr_text. Qed.
Print Assumptions C15_text_rt.

(* with pointer numbers below 2^63 (and for every non-pointer address) the text form exists and round-trips *)
Theorem C15_text_total : forall a, wf_addr a -> ptr_small a ->
  exists s, addr_text a = Ok (Some s) /\ from_text s = Ok a /\ (length s <= MAXLEN)%nat.
Proof. exact addr_text_total. Qed.
Print Assumptions C15_text_total.

(* faithful model of a defect region: a well-formed testnet pointer address with numbers <= 2^63 (inside the
   property's stated range) for which Address.encode() returns None; excluded above by the length premise *)
Theorem C15_text_over_limit_refuted :
  exists a, wf_addr a /\ net a = TESTNET
    /\ match stk a with Some (SPtr s x c) => s <= 2 ^ 63 /\ x <= 2 ^ 63 /\ c <= 2 ^ 63 | _ => False end
    /\ addr_text a = Ok None.
Proof. exact addr_text_over_limit_refuted. Qed.
Print Assumptions C15_text_over_limit_refuted.

(* convertbits: bytes -> 5-bit groups (padded) -> bytes (unpadded) is the identity, every byte string *)
Theorem C15_convertbits_rt : forall bs, bounded 8 bs ->
  exists d, convertbits bs 8 5 true = Some d /\ bounded 5 d /\ convertbits d 5 8 false = Some bs.
Proof. exact convertbits_roundtrip. Qed.
Print Assumptions C15_convertbits_rt.

(* BIP-173 reference: bech32_polymod is the (packed) remainder of x^n + v_0 x^(n-1) + ... + v_(n-1) modulo
   g(x) = x^6 + 29x^5 + 22x^4 + 20x^3 + 21x^2 + 29x + 18 over GF(32) = GF(2)[a]/(a^5+a^3+1) *)
Theorem C15_bech32_ref : forall values, Forall (fun v => v < 32) values ->
  bech32_polymod values = pack (gf_polymod values) /\ gf_state (gf_polymod values).
Proof. exact polymod_is_gf32_remainder. Qed.
Print Assumptions C15_bech32_ref.

(* a created checksum verifies, with the constant that was asked for (Bech32: 1, Bech32m: 0x2bc830a3) *)
Theorem C15_checksum_consistent : forall hrp data spec, hrp_ok hrp -> data_ok data ->
  verify_checksum hrp (data ++ create_checksum hrp data spec) = Some (spec_result spec).
Proof. exact create_verify. Qed.
Print Assumptions C15_checksum_consistent.

Theorem C15_bech32_decode_encode : forall hrp data spec, hrp_valid hrp -> data_ok data ->
  (length hrp + 7 + length data <= MAXLEN)%nat ->
  exists s, bech32_encode hrp data spec = Some s /\ bech32_decode s = Some (hrp, data, spec_result spec).
Proof. exact decode_encode. Qed.
Print Assumptions C15_bech32_decode_encode.

(* XOR-linearity: replacing one polymod input d by d' changes the residue by L^(number of later inputs) (d xor d') *)
Theorem C15_polymod_affine : forall pre d d' post, small pre -> d < 2 ^ 30 -> d' < 2 ^ 30 -> small post ->
  bech32_polymod (pre ++ d' :: post)
  = N.lxor (bech32_polymod (pre ++ d :: post)) (Lpow (length post) (N.lxor d d')).
Proof. exact polymod_subst. Qed.
Print Assumptions C15_polymod_affine.

(* the finite single-error table (vm_compute over 120 x 31 entries): a non-zero 5-bit error at distance k < 120
   from the end never maps the residue to itself nor to the other accepted constant (1 <-> 0x2bc830a3) *)
Theorem C15_single_error_table : forall k e, (k < 120)%nat -> 0 < e < 32 ->
  Lpow k e <> 0 /\ Lpow k e <> N.lxor BECH32_CONST BECH32M_CONST.
Proof. exact single_error_table_stmt. Qed.
Print Assumptions C15_single_error_table.

(* THE rejection guarantee, for EVERY string s the decoder accepts (hence length s <= 108): substituting the
   character at any data-part position i (after the separator at p) by any other code point c except "1" gives
   a string that bech32_decode rejects — or c is the other-case form of the same letter and the result is
   unchanged.  Not covered: c = "1" (moves the separator), positions <= p (prefix / separator). *)
Theorem C15_single_subst : forall s r p i c,
  bech32_decode s = Some r -> rfind 49 s = Some p -> (p < i < length s)%nat ->
  c <> 49 -> c <> nth i s 0 ->
  (length s <= MAXLEN)%nat
  /\ (bech32_decode (subst i c s) = None
      \/ (lowerc c = lowerc (nth i s 0) /\ bech32_decode (subst i c s) = Some r)).
Proof. exact single_subst_with_length. Qed.
Print Assumptions C15_single_subst.

(* the same at the Address level: a corrupted address string raises (TypeError), it never yields another address *)
Theorem C15_single_subst_address : forall s a p i c,
  from_text s = Ok a -> rfind 49 s = Some p -> (p < i < length s)%nat -> c <> 49 -> c <> nth i s 0 ->
  from_text (subst i c s) = Err EType
  \/ (lowerc c = lowerc (nth i s 0) /\ from_text (subst i c s) = Ok a).
Proof. exact from_text_single_subst. Qed.
Print Assumptions C15_single_subst_address.

(* harness soundness: the correspondence run skips re-decoding substituted strings whose model result is fixed by
   C15_single_subst_address; that accelerated comparison equals the plain one (every string decoded by the model) *)
Theorem C15_corr_accelerated_sound : forall same k, corr_with same k = corr_plain same k.
Proof. exact corr_with_plain. Qed.
Print Assumptions C15_corr_accelerated_sound.

(* ---- beyond the data part: substitutions in the prefix and of the separator ---- *)
(* a prefix character x enters polymod twice (x >> 5, and x & 31 at distance d = |prefix| + 1 later); the finite
   pair table (vm_compute, 102 x 4 x 32 x 108 entries): no such double difference is invisible *)
Theorem C15_pair_error_table : forall d e1 e2 k,
  (2 <= d < 104)%nat -> e1 < 4 -> e2 < 32 -> (k < 108)%nat -> (e1 <> 0 \/ e2 <> 0) ->
  let delta := Lpow k (N.lxor (Lpow d e1) e2) in delta <> 0 /\ delta <> N.lxor BECH32_CONST BECH32M_CONST.
Proof. exact pair_error_table_stmt. Qed.
Print Assumptions C15_pair_error_table.

(* EVERY position of EVERY accepted string: a substituted character is rejected (or is a case-only change with the
   same result) unless it moves the separator: "1" written into the data part, or the separator overwritten while
   the prefix itself contains a "1" (never the case for addr / stake / _test prefixes) *)
Theorem C15_single_subst_any : forall s r p i c,
  bech32_decode s = Some r -> rfind 49 s = Some p -> (i < length s)%nat -> c <> nth i s 0 ->
  ((p < i)%nat -> c <> 49) -> (i = p -> ~ In 49 (firstn p s)) ->
  bech32_decode (subst i c s) = None
  \/ (lowerc c = lowerc (nth i s 0) /\ bech32_decode (subst i c s) = Some r).
Proof. exact single_subst_any. Qed.
Print Assumptions C15_single_subst_any.

Theorem C15_single_subst_any_address : forall s a p i c,
  from_text s = Ok a -> rfind 49 s = Some p -> (i < length s)%nat -> c <> nth i s 0 ->
  ((p < i)%nat -> c <> 49) -> (i = p -> ~ In 49 (firstn p s)) ->
  from_text (subst i c s) = Err EType
  \/ (lowerc c = lowerc (nth i s 0) /\ from_text (subst i c s) = Ok a).
Proof. exact from_text_single_subst_any. Qed.
Print Assumptions C15_single_subst_any_address.
