(* C17 — identifiers are the specified BLAKE2b digests of the exact bytes.
   Statements only; proofs are in PyC.IdsProofs, definitions in PyC.Ids.

   H : nat -> bytes -> bytes  is BLAKE2b (first argument: digest size in bytes).  It is universally
   quantified in every statement; nothing is assumed about it except, where written, collision-freeness
   `H_inj H n` (no two messages with one n-byte digest) — a hypothesis of C17_separation and
   C17_tx_id_binds only, satisfiable (IdsProofs.H_inj_satisfiable); C17_separation_collision is the
   hypothesis-free form.

   The specification (Ids.v, Part 1):
     tx_id H body_bytes          = H 32 body_bytes
     datum_hash H d              = H 32 (enc d)                 aux_hash H a = H 32 (enc a)
     key_hash H vk               = H 28 (firstn 32 vk)
     native_script_hash H s      = H 28 (x00 :: enc_native s)   (enc_native = CBOR of the CDDL native_script)
     plutus_script_hash H v s    = H 28 (byte v :: s)           v in {1,2,3}
     policy_id                   = script_hash
     script_address net h st     = header byte :: h ++ staking part
     fingerprint H bech32 p n    = bech32 "asset" (H 20 (p ++ n))
   The model (Ids.v, Part 2) is what pycardano computes, over the record of constants `gen_cfg`
   that tools/props/c17.py re-extracts from the current source into PyCGen.IdsGen. *)
From Coq Require Import NArith ZArith String List Bool.
From Coq Require Import Init.Byte.
From PyC Require Import Base Cbor Ids IdsProofs IdsSeq IdsSeqProofs.
From PyCGen Require Import IdsGen.
Import ListNotations.
Open Scope N_scope.

(* The constants in the source are the specified ones: digest sizes (hash.py *_SIZE as used at each
   hashing site), language prefix bytes 00/01/02/03 (and 01 for plain bytes), the 32-byte cut of an
   extended key, native-script type tags, CIP-14 hrp / size / operand order, script address header
   nibbles and network ids; AuxiliaryData objects are always true in a boolean context; TransactionBody.id and
   Transaction.id are plain properties (recomputed at every read, c_memo_* = false); the keyed fields of
   TransactionBody and AlonzoMetadata are declared (hence emitted) in ascending key order. *)
Theorem C17_source_constants :
  gen_cfg = spec_cfg
  /\ gen_class_sizes = [("VerificationKeyHash", 28%nat); ("ScriptHash", 28%nat); ("TransactionId", 32%nat);
                        ("DatumHash", 32%nat); ("AuxiliaryDataHash", 32%nat)]%string
  /\ ascending gen_body_keys = true /\ ascending gen_alonzo_keys = true.
Proof. repeat split; reflexivity. Qed.
Print Assumptions C17_source_constants.

(* For every identifier-carrying object the code hashes the specified message with the specified
   digest size, hence (for every H) returns the specified identifier.  obj_ok: an ordinary
   verification-key object holds at most 32 bytes (nothing is required of the other objects). *)
Theorem C17_preimages : forall (H : nat -> bytes -> bytes) (o : obj), obj_ok o ->
  m_pre gen_cfg o = spec_pre o /\ m_id gen_cfg H o = spec_id H o.
Proof. exact (preimages gen_cfg (proj1 C17_source_constants)). Qed.
Print Assumptions C17_preimages.

(* obj_ok cannot be dropped: VerificationKey.hash hashes the whole payload, so a plain key object that holds 64 bytes
   (an extended key restored through a non-extended class) does not get the specified key hash *)
Theorem C17_preimages_key_premise_needed :
  exists (H : nat -> bytes -> bytes) (p : bytes), length p = 64%nat /\ m_id spec_cfg H (OKey p) <> spec_id H (OKey p).
Proof. exact preimages_key_premise_needed. Qed.
Print Assumptions C17_preimages_key_premise_needed.

(* the generic array serializer applied to a nested native script yields the CDDL item (all scripts) *)
Theorem C17_native_encoding : forall s : nscript, m_native_bytes gen_cfg s = enc_native s.
Proof. rewrite (proj1 C17_source_constants). exact native_bytes_spec. Qed.
Print Assumptions C17_native_encoding.

(* Equal script hashes imply the same script: same language byte and same bytes — no cross-language and
   no native/Plutus confusion.  script_wf: integers and lengths inside a native script are < 2^64. *)
Theorem C17_separation : forall H : nat -> bytes -> bytes, H_inj H 28 ->
  forall s1 s2 : script, script_wf s1 -> script_wf s2 ->
  script_hash H s1 = script_hash H s2 -> s1 = s2.
Proof. exact separation. Qed.
Print Assumptions C17_separation.

(* the same without any hypothesis on H: a coincidence of hashes of two different scripts exhibits a collision *)
Theorem C17_separation_collision : forall (H : nat -> bytes -> bytes) (s1 s2 : script), script_wf s1 -> script_wf s2 ->
  script_hash H s1 = script_hash H s2 ->
  s1 = s2 \/ (script_pre s1 <> script_pre s2 /\ H 28%nat (script_pre s1) = H 28%nat (script_pre s2)).
Proof. exact separation_collision. Qed.
Print Assumptions C17_separation_collision.

(* what the separation rests on *)
Theorem C17_language_bytes_distinct :
  native_byte <> pver_byte V1 /\ native_byte <> pver_byte V2 /\ native_byte <> pver_byte V3
  /\ pver_byte V1 <> pver_byte V2 /\ pver_byte V1 <> pver_byte V3 /\ pver_byte V2 <> pver_byte V3.
Proof. exact lang_bytes_distinct. Qed.
Print Assumptions C17_language_bytes_distinct.

Theorem C17_enc_native_injective : forall s1 s2 : nscript, nwf s1 -> nwf s2 -> enc_native s1 = enc_native s2 -> s1 = s2.
Proof. exact enc_native_inj. Qed.
Print Assumptions C17_enc_native_injective.

(* equal transaction ids imply equal body bytes, and equal bodies as (well-formed) CBOR items *)
Theorem C17_tx_id_binds : forall H : nat -> bytes -> bytes, H_inj H 32 ->
  (forall b1 b2 : bytes, tx_id H b1 = tx_id H b2 -> b1 = b2)
  /\ (forall x y : cbor, wf x -> wf y -> tx_id H (enc x) = tx_id H (enc y) -> x = y).
Proof. exact tx_id_binds. Qed.
Print Assumptions C17_tx_id_binds.

(* the hash of an extended verification key: the code hashes its non-extended key, which is the
   specified hash of the first 32 bytes and the specified hash of the extended key itself *)
Theorem C17_key_hash_ext : forall (H : nat -> bytes -> bytes) (vk : bytes),
  m_key_hash_ext gen_cfg H vk = m_key_hash gen_cfg H (m_to_non_extended gen_cfg vk)
  /\ m_key_hash_ext gen_cfg H vk = key_hash H (firstn 32 vk)
  /\ m_key_hash_ext gen_cfg H vk = key_hash H vk.
Proof. exact (key_hash_ext gen_cfg (proj1 C17_source_constants)). Qed.
Print Assumptions C17_key_hash_ext.

(* The gate of TransactionBuilder.add_script_input (model `gate`): if a script m is recorded for the
   script-locked input u then its specified hash is u's payment credential; m is the script on the UTxO
   itself, the script passed by the caller, the script of the reference UTxO passed by the caller, or of a
   UTxO the chain context lists at the address (and a reference input is added exactly for the UTxO it
   came from, unless that is u); a datum passed for an input carrying a datum hash has that hash. *)
Theorem C17_script_gate : forall (H : nat -> bytes -> bytes) u off dat ctx m ref,
  gate gen_cfg H u off dat ctx = GAccept m ref ->
  script_hash H (as_script m) = i_pay u
  /\ i_script_addr u = true
  /\ (exists r, provenance u off ctx m r
                /\ ref = match r with Some id => if id =? i_id u then None else Some id | None => None end)
  /\ (forall d dh, dat = Some d -> i_datum_hash u = Some dh -> datum_hash H d = dh).
Proof. exact (script_gate gen_cfg (proj1 C17_source_constants)). Qed.
Print Assumptions C17_script_gate.

(* _build_tx_body / build_and_sign (model `m_build`): the body's auxiliary_data_hash is H 32 of the bytes of
   exactly the auxiliary data put into the transaction, and absent when there is none *)
Theorem C17_aux_shipped : forall (H : nat -> bytes -> bytes) (aux : option cbor),
  let t := m_build gen_cfg H aux in
  match b_aux_shipped t with
  | Some a => b_aux_field t = Some (aux_hash H a)
  | None => b_aux_field t = None
  end.
Proof. exact (aux_shipped gen_cfg (proj1 C17_source_constants)). Qed.
Print Assumptions C17_aux_shipped.

(* a fingerprint binds (policy id, asset name) for 28-byte policy ids; bech32 abstract and injective *)
Theorem C17_fingerprint_binds : forall (H : nat -> bytes -> bytes) (bech32 : string -> bytes -> string),
  H_inj H 20 -> (forall a b, bech32 "asset"%string a = bech32 "asset"%string b -> a = b) ->
  forall p n p' n', length p = 28%nat -> length p' = 28%nat ->
  fingerprint H bech32 p n = fingerprint H bech32 p' n' -> p = p' /\ n = n'.
Proof. exact fingerprint_binds. Qed.
Print Assumptions C17_fingerprint_binds.

(* The byte walker with which the oracle cuts the body (and the auxiliary data) out of the library's
   transaction bytes returns, for every well-formed transaction item, exactly the encodings of its four
   elements — so "H 32 (slice)" in the oracle is "tx_id H (enc body)" of the theorems above. *)
Theorem C17_walker_sound : forall body ws valid aux : cbor, wf body -> wf ws -> wf valid -> wf aux ->
  array_items (enc (CA [body; ws; valid; aux]))
  = Some [(body, enc body); (ws, enc ws); (valid, enc valid); (aux, enc aux)].
Proof. exact tx_body_slice. Qed.
Print Assumptions C17_walker_sound.

(* ------------------------------------------------------------------------------------------------------------ *)
(* STATE.  The objects are mutable; the property holds at every moment of their life (model: IdsSeq.v).         *)
(*   okind  = QBody (accessors 0 body.hash(), 1 body.id, 2 tx.id) | QAux (0 aux.hash())                         *)
(*            | QDatum (0 datum_hash(d), 1 d.hash()) | QNative (0 s.hash(), 1 script_hash(s))                   *)
(*   op     = OpRead accessor | OpEdit path (ESet k v | EDel k | EAppend v | EPut v) | OpReenc x' | OpCopy x'   *)
(*            | OpRewrap | OpNeutral                                                                            *)
(*   run c H k st ops : the state machine (item + what memoised accessors remember); read c H k lvl st : the    *)
(*   identifier answered in state st;  item_after x ops : the item the edits alone produce (no accessor, no     *)
(*   memo, no constant of the source);  q_spec_id H k y : the SPECIFIED identifier of an object of kind k that  *)
(*   serializes as y  (= tx_id / aux_hash / datum_hash / native_script_hash, C17_sequence_spec_ids).            *)
(* ------------------------------------------------------------------------------------------------------------ *)

(* For every object kind, every initial object x and EVERY sequence of operations (earlier reads through any
   accessor, in-place edits, deep copies, re-encodings, re-wraps in any order and number): an identifier read
   afterwards through any accessor is the specified digest of what the object serializes to NOW. *)
Theorem C17_sequence_ids : forall (H : nat -> bytes -> bytes) (k : okind) (x : cbor) (ops : list op) (st : ostate),
  run gen_cfg H k (init x) ops = Some st ->
  exists y, item_after x ops = Some y /\ s_item st = y
            /\ forall lvl, fst (read gen_cfg H k lvl st) = q_spec_id H k y.
Proof. exact (seq_ids gen_cfg (proj1 C17_source_constants)). Qed.
Print Assumptions C17_sequence_ids.

Theorem C17_sequence_spec_ids : forall (H : nat -> bytes -> bytes) (x : cbor) (s : nscript),
  q_spec_id H QBody x = tx_id H (enc x) /\ q_spec_id H QAux x = aux_hash H x /\ q_spec_id H QDatum x = datum_hash H x
  /\ q_spec_id H QNative (native_cbor s) = native_script_hash H s.
Proof. intros H x s. repeat split. Qed.
Print Assumptions C17_sequence_spec_ids.

(* `gen_cfg = spec_cfg` is needed for it: were TransactionBody.id a cached_property, then after
   read - extend the ttl - read  the id (also through Transaction.id) names the OLD body, while body.hash() is right;
   a deep copy carries the stale value along, a re-encoded object is right again. *)
Theorem C17_sequence_memo_body_id_refuted :
  let c := cfg_with_memo spec_cfg true false in
  let H := fun (_ : nat) (m : bytes) => m in
  let x := CM [(CU 0, CA []); (CU 1, CA []); (CU 2, CU 170000)] in
  let y := CM [(CU 0, CA []); (CU 1, CA []); (CU 2, CU 180000)] in
  (exists st, run c H QBody (init x) [OpRead 1; OpEdit [] (ESet 3 (CU 4000))] = Some st
              /\ fst (read c H QBody 2 st) <> q_spec_id H QBody (s_item st)
              /\ fst (read c H QBody 0 st) = q_spec_id H QBody (s_item st))
  /\ (exists st, run c H QBody (init x) [OpRead 1; OpEdit [] (ESet 2 (CU 180000)); OpCopy y; OpRewrap] = Some st
                 /\ fst (read c H QBody 1 st) <> q_spec_id H QBody (s_item st))
  /\ (exists st, run c H QBody (init x) [OpRead 1; OpEdit [] (ESet 2 (CU 180000)); OpReenc y] = Some st
                 /\ fst (read c H QBody 1 st) = q_spec_id H QBody (s_item st)).
Proof. split; [exact seq_memo_body_id_stale|exact seq_memo_copy_stale_reenc_fresh]. Qed.
Print Assumptions C17_sequence_memo_body_id_refuted.

(* the same for Transaction.id; a new Transaction around the same body is right again *)
Theorem C17_sequence_memo_tx_id_refuted :
  let c := cfg_with_memo spec_cfg false true in
  let H := fun (_ : nat) (m : bytes) => m in
  let x := CM [(CU 0, CA []); (CU 1, CA []); (CU 2, CU 170000)] in
  (exists st, run c H QBody (init x) [OpRead 2; OpEdit [PKey 1] (EAppend (CA [CB []; CU 1]))] = Some st
              /\ fst (read c H QBody 2 st) <> q_spec_id H QBody (s_item st)
              /\ fst (read c H QBody 1 st) = q_spec_id H QBody (s_item st))
  /\ (exists st, run c H QBody (init x) [OpRead 2; OpEdit [PKey 1] (EAppend (CA [CB []; CU 1])); OpRewrap] = Some st
                 /\ fst (read c H QBody 2 st) = q_spec_id H QBody (s_item st)).
Proof. exact seq_memo_tx_id_stale. Qed.
Print Assumptions C17_sequence_memo_tx_id_refuted.

(* The identifier follows the object: under collision-freeness, an in-place edit that changes the (well-formed)
   item makes every later read differ from every earlier one. *)
Theorem C17_sequence_reread_differs : forall H : nat -> bytes -> bytes, H_inj H 32 -> H_inj H 28 ->
  forall k x ops st p e st' l l', run gen_cfg H k (init x) ops = Some st -> exec gen_cfg H k st (OpEdit p e) = Some st' ->
  wf (s_item st) -> wf (s_item st') -> s_item st <> s_item st' ->
  fst (read gen_cfg H k l st) <> fst (read gen_cfg H k l' st').
Proof. exact (seq_reread_differs gen_cfg (proj1 C17_source_constants)). Qed.
Print Assumptions C17_sequence_reread_differs.

(* what setting / deleting a keyed field does to the serialized map *)
Theorem C17_field_edits : forall (k k' : N) (v : cbor) (kvs : list (cbor * cbor)),
  map_get k (map_put k v kvs) = Some v /\ map_get k (map_del k kvs) = None
  /\ (k <> k' -> map_get k' (map_put k v kvs) = map_get k' kvs /\ map_get k' (map_del k kvs) = map_get k' kvs).
Proof.
  intros k k' v kvs. split; [apply map_get_put_same|]. split; [apply map_get_del_same|].
  intros N. split; [now apply map_get_put_other|now apply map_get_del_other].
Qed.
Print Assumptions C17_field_edits.
