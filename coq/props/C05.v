(* C05 — Value arithmetic is exact component-wise integer arithmetic.
   Statements only; proofs are in PyC.ValueProofs / PyC.ValueHeap. *)
From Coq Require Import ZArith List Bool.
From PyC Require Import Base Dict Value ValueProofs ValueHeap.
Import ListNotations.
Open Scope Z_scope.

(* + : exact per-asset sum, result normalised (no zero entry, no empty policy), for ALL integers *)
Theorem C05_add : forall a b, wfv a -> wfv b ->
  coin (v_add a b) = coin a + coin b
  /\ (forall p n, content (massets (v_add a b)) p n = content (massets a) p n + content (massets b) p n)
  /\ normalized_m (massets (v_add a b)) /\ wfv (v_add a b).
Proof. exact v_add_spec. Qed.
Print Assumptions C05_add.

Theorem C05_sub : forall a b, wfv a -> wfv b ->
  coin (v_sub a b) = coin a - coin b
  /\ (forall p n, content (massets (v_sub a b)) p n = content (massets a) p n - content (massets b) p n)
  /\ normalized_m (massets (v_sub a b)) /\ wfv (v_sub a b).
Proof. exact v_sub_spec. Qed.
Print Assumptions C05_sub.

(* == and <= are the component-wise relations, on raw (possibly un-normalised) operands *)
Theorem C05_eq : forall a b,
  v_eq a b = true <-> coin a = coin b /\ forall p n, content (massets a) p n = content (massets b) p n.
Proof. exact v_eq_spec. Qed.
Print Assumptions C05_eq.

Theorem C05_le : forall a b,
  v_le a b = true <-> coin a <= coin b /\ forall p n, content (massets a) p n <= content (massets b) p n.
Proof. exact v_le_spec. Qed.
Print Assumptions C05_le.

Theorem C05_lt : forall a b,
  v_lt a b = true <->
  (coin a <= coin b /\ forall p n, content (massets a) p n <= content (massets b) p n)
  /\ ~ (coin a = coin b /\ forall p n, content (massets a) p n = content (massets b) p n).
Proof. exact v_lt_spec. Qed.
Print Assumptions C05_lt.

Theorem C05_filter : forall c m p n, wfm m ->
  content (m_filter c m) p n = if c p n (content m p n) then content m p n else
                               match dget (mget m p) n with Some _ => 0 | None => content m p n end.
Proof. exact m_filter_content. Qed.
Print Assumptions C05_filter.

Theorem C05_add_sub_cancel : forall a b p n, wfv a -> wfv b ->
  content (massets (v_sub (v_add a b) b)) p n = content (massets a) p n /\ coin (v_sub (v_add a b) b) = coin a.
Proof. exact v_add_sub_cancel. Qed.
Print Assumptions C05_add_sub_cancel.

(* operands are not altered: pure operators leave every existing object untouched *)
Theorem C05_pure_frame : forall s o, in_place o = false ->
  let s' := fst (exec s o) in
  (forall l, (l < length (vobjs s))%nat -> nth l (vobjs s') (0, 0%nat) = nth l (vobjs s) (0, 0%nat))
  /\ (forall l, (l < length (mobjs s))%nat -> nth l (mobjs s') [] = nth l (mobjs s) [])
  /\ (forall a, (a < length (vars s))%nat -> nth a (vars s') 0%nat = nth a (vars s) 0%nat).
Proof. exact pure_ops_preserve_objects. Qed.
Print Assumptions C05_pure_frame.

(* += changes only the left operand, to the pure sum — also under aliasing *)
Theorem C05_iadd_frame : forall s a b, (vloc s a < length (vobjs s))%nat ->
  let s' := fst (exec s (HIAdd a b)) in
  (forall l, l <> vloc s a -> nth l (vobjs s') (0, 0%nat) = nth l (vobjs s) (0, 0%nat))
  /\ (forall l, (l < length (mobjs s))%nat -> nth l (mobjs s') [] = nth l (mobjs s) [])
  /\ vars s' = vars s
  /\ val_of s' a = v_add (val_of s a) (val_of s b).
Proof. exact iadd_frame. Qed.
Print Assumptions C05_iadd_frame.

(* Asset-level += (bundle[p] += other[p]) changes one entry of one bundle, to the pure normalised sum; all else is untouched *)
Theorem C05_asset_iadd_frame : forall s a p b x y,
  (snd (vobj s a) < length (mobjs s))%nat ->
  dget (massets (val_of s a)) p = Some x -> dget (massets (val_of s b)) p = Some y ->
  let s' := fst (exec s (HAIAdd a p b)) in
  vobjs s' = vobjs s /\ vars s' = vars s
  /\ (forall l, l <> snd (vobj s a) -> nth l (mobjs s') [] = nth l (mobjs s) [])
  /\ dget (massets (val_of s' a)) p = Some (a_add x y)
  /\ (forall p', p <> p' -> dget (massets (val_of s' a)) p' = dget (massets (val_of s a)) p').
Proof. exact asset_iadd_frame. Qed.
Print Assumptions C05_asset_iadd_frame.

(* the sum it stores is exact per name and normalised *)
Theorem C05_asset_add : forall x y n, wfd x -> wfd y ->
  aget (a_add x y) n = aget x n + aget y n.
Proof. intros. now apply a_add_get. Qed.
Print Assumptions C05_asset_add.

(* >= and > (evaluated by Python as the reflected <= and < of the right operand) are the component-wise relations too:
   in particular two incomparable amounts satisfy neither a >= b nor b >= a *)
Theorem C05_ge_gt : forall s a b,
  (snd (exec s (HGe a b)) = OBool true <->
     coin (val_of s b) <= coin (val_of s a)
     /\ forall p n, content (massets (val_of s b)) p n <= content (massets (val_of s a)) p n)
  /\ (snd (exec s (HGt a b)) = OBool true <->
     (coin (val_of s b) <= coin (val_of s a)
      /\ forall p n, content (massets (val_of s b)) p n <= content (massets (val_of s a)) p n)
     /\ ~ (coin (val_of s b) = coin (val_of s a)
           /\ forall p n, content (massets (val_of s b)) p n = content (massets (val_of s a)) p n)).
Proof.
  intros s a b. cbn [exec snd]. split.
  - rewrite <- v_le_spec. split; [intros H; now inversion H | intros ->; reflexivity].
  - rewrite <- v_lt_spec. split; [intros H; now inversion H | intros ->; reflexivity].
Qed.
Print Assumptions C05_ge_gt.
