(* C14 — coin selection returns a covering subset or fails explicitly.
   Statements only; proofs are in PyC.CoinSelProofs, the model in PyC.CoinSel (clause by clause after
   pycardano/coinselection.py), the oracle in PyC.CoinSelOracle.

   Vocabulary (PyC.CoinSel):
     pool, outs : list value       amounts of the pool UTxOs (UTxO i = position i) / of the requested outputs
     fee : Z                       max_tx_fee(context) when include_max_fee, else 0
     minchg : option (value -> Z)  None when respect_min_utxo is off, else change |-> min_lovelace_post_alonzo(change)
     lim : option Z                max_input_count
     lf_select_idx / ri_select_idx : Ok (selected positions in returned order, change) | Err kind
     ri_select_idx builtin rs      rs = the stream of random choices; builtin = false: indices yielded by an injected
                                   random_generator (any integers, any length); builtin = true: outcomes of
                                   random.randint(0, len-1), modelled as r mod len for arbitrary integers r
     coin_sum l = sum of coins, content_sum l p n = sum of the quantities of asset (p, n), sel_values pool sel = pool[i] for i in sel
     covers fee outs vs    :=  fee + coin_sum outs <= coin_sum vs /\ forall p n, content_sum outs p n <= content_sum vs p n
     change_is fee outs vs chg := coin chg = coin_sum vs - (fee + coin_sum outs)
                                  /\ forall p n, content (massets chg) p n = content_sum vs p n - content_sum outs p n
     wfv v = dictionary keys of v are unique (a Python dict); v_nonneg v = coin and every quantity >= 0.
   The pool is an immutable value in the model; "never modifies the pool" is checked on the implementation side on every
   run (snapshot + object identities, oracle c14_oracle). *)
From Coq Require Import ZArith List Bool.
From PyC Require Import Base Dict Value ValueProofs CoinSel CoinSelOracle CoinSelProofs.
Import ListNotations.
Open Scope Z_scope.

(* largest first: whatever is returned is a list of DISTINCT pool positions whose amounts cover request + fee in ADA and
   in every asset, the change is exactly selected - requested - fee, and at most `limit` inputs are returned *)
Theorem C14_lf : forall pool outs lim fee minchg sel chg,
  Forall wfv pool -> Forall v_nonneg pool -> Forall wfv outs ->
  lf_select_idx pool outs lim fee minchg = Ok (sel, chg) ->
  NoDup sel /\ (forall i, In i sel -> (i < length pool)%nat)
  /\ (fee + coin_sum outs <= coin_sum (sel_values pool sel)
      /\ forall p n, content_sum outs p n <= content_sum (sel_values pool sel) p n)
  /\ (coin chg = coin_sum (sel_values pool sel) - (fee + coin_sum outs)
      /\ forall p n, content (massets chg) p n = content_sum (sel_values pool sel) p n - content_sum outs p n)
  /\ (forall n, lim = Some n -> 0 < n -> Z.of_nat (length sel) <= n).
Proof. exact lf_idx_sound. Qed.
Print Assumptions C14_lf.

(* completeness: InsufficientUTxOBalance means the WHOLE pool does not cover request + fee, or (raised by the min-change
   top-up) the whole pool holds less ADA than request + fee + the minimum change demanded for the first-phase change *)
Theorem C14_lf_complete : forall pool outs lim fee minchg,
  Forall wfv pool -> Forall v_nonneg pool -> Forall wfv outs ->
  lf_select_idx pool outs lim fee minchg = Err EInsufficient ->
  ~ covers fee outs pool
  \/ exists mc chg, minchg = Some mc /\ coin_sum pool < fee + coin_sum outs + mc chg.
Proof. exact lf_idx_complete. Qed.
Print Assumptions C14_lf_complete.

(* largest first fails only explicitly: InsufficientUTxOBalance, or MaxInputCountExceeded when a limit was given *)
Theorem C14_lf_errors : forall pool outs lim fee minchg e,
  Forall wfv pool -> Forall wfv outs ->
  lf_select_idx pool outs lim fee minchg = Err e ->
  e = EInsufficient \/ (e = EMaxInput /\ exists n, lim = Some n /\ n <> 0).
Proof. exact lf_idx_errors. Qed.
Print Assumptions C14_lf_errors.

(* random improve: the same five conclusions for EVERY stream of random choices, with the injected generator
   (builtin = false: arbitrary integers, arbitrary length) and with the built-in random source (builtin = true) *)
Theorem C14_ri : forall builtin rs pool outs lim fee minchg sel chg,
  Forall wfv pool -> Forall v_nonneg pool -> Forall wfv outs ->
  ri_select_idx builtin rs pool outs lim fee minchg = Ok (sel, chg) ->
  NoDup sel /\ (forall i, In i sel -> (i < length pool)%nat)
  /\ covers fee outs (sel_values pool sel)
  /\ change_is fee outs (sel_values pool sel) chg
  /\ (forall n, lim = Some n -> 0 < n -> Z.of_nat (length sel) <= n).
Proof. exact ri_idx_sound. Qed.
Print Assumptions C14_ri.

(* totality with the built-in random source: all loops are structural in the model (each iteration consumes one random
   outcome), and |pool| * (number of requested assets + 3) outcomes always suffice; the run then ends with a result or with
   MaxInputCountExceeded / InputUTxODepleted — never with a non-selection exception — whatever the outcomes are *)
Theorem C14_total : forall rs pool outs lim fee minchg,
  Forall wfv pool -> Forall v_nonneg pool -> Forall wfv outs -> Forall v_nonneg outs -> 0 <= fee ->
  (length pool * (length (split_by_asset (req_total fee outs)) + 3) <= length rs)%nat ->
  (exists sel chg, ri_select_idx true rs pool outs lim fee minchg = Ok (sel, chg))
  \/ ri_select_idx true rs pool outs lim fee minchg = Err EMaxInput
  \/ ri_select_idx true rs pool outs lim fee minchg = Err EDepleted.
Proof.
  intros rs pool outs lim fee minchg WP NP WO NO Pf Len. apply ri_idx_total; auto.
  unfold ri_draw_bound. rewrite index_pool_length. exact Len.
Qed.
Print Assumptions C14_total.

(* with an injected generator, EVERY stream (out-of-range, negative, too short, ...) ends with a result or with a
   UTxOSelectionException kind *)
Theorem C14_ri_errors : forall rs pool outs lim fee minchg e,
  Forall wfv pool -> Forall v_nonneg pool -> Forall wfv outs -> Forall v_nonneg outs -> 0 <= fee ->
  ri_select_idx false rs pool outs lim fee minchg = Err e ->
  e = EMaxInput \/ e = EDepleted \/ e = ESelection.
Proof. exact ri_idx_errors_injected. Qed.
Print Assumptions C14_ri_errors.

(* the decision procedure evaluated on the IMPLEMENTATION's outputs decides the statement of C14_lf / C14_ri
   (with the limit clause at full strength, for any limit) *)
Theorem C14_oracle_sound : forall pool outs lim fee sel chg,
  Forall wfv pool -> Forall wfv outs ->
  c14_ok pool outs lim fee sel chg = true ->
  NoDup sel /\ (forall i, In i sel -> (i < length pool)%nat)
  /\ covers fee outs (sel_values pool sel) /\ change_is fee outs (sel_values pool sel) chg
  /\ (forall n, lim = Some n -> Z.of_nat (length sel) <= n).
Proof. exact c14_ok_sound. Qed.
Print Assumptions C14_oracle_sound.

Theorem C14_oracle_insufficient_sound : forall c, Forall wfv (i_pool c) -> Forall wfv (i_outs c) ->
  lf_insufficient_ok c = true ->
  ~ covers (i_fee c) (i_outs c) (i_pool c)
  \/ exists m, i_mc c = Some m /\ coin_sum (i_pool c) < i_fee c + coin_sum (i_outs c) + m.
Proof. exact lf_insufficient_ok_sound. Qed.
Print Assumptions C14_oracle_insufficient_sound.
