(* C06 — built transactions conserve value.
   Statements only; the ledger rule (cert, deposits, refunds, Balanced, balanced) and the model of the builder
   slice are in PyC.Balance, proofs in PyC.BalanceProofs.  Notation: content m p n = quantity of asset (p, n)
   in bundle m (0 when absent); sum_coin / sum_tok / sum_content = sums over a list; wfv / wfm = dict keys unique. *)
From Coq Require Import ZArith NArith List Bool Permutation.
From PyC Require Import Base Dict Value ValueProofs Balance BalanceProofs BalanceSel BalanceSelProofs.
Import ListNotations.
Open Scope Z_scope.

(* the boolean oracle evaluated on the implementation's bodies decides the ledger's balance equation:
   inputs + withdrawals + refunds = outputs + fee + deposits + proposal deposits + donation in ADA, and
   inputs + positive mint = outputs + burn for EVERY asset *)
Theorem C06_oracle_decides_ledger_balance : forall pp ins mint wdrl certs props don outs fee,
  balanced pp ins mint wdrl certs props don outs fee = true
  <-> (sum_coin ins + Zsum wdrl + refunds pp certs = sum_coin outs + fee + deposits pp certs + Zsum props + don
       /\ forall p n, sum_tok ins p n + Z.max 0 (content mint p n) = sum_tok outs p n + Z.max 0 (- content mint p n)).
Proof. exact balanced_iff. Qed.
Print Assumptions C06_oracle_decides_ledger_balance.

(* _get_total_key_deposit = deposits - refunds of the ledger for EVERY certificate list (every kind, repeated
   registrations with equal coin, repeated pool registrations, deregistrations, DRep reg/unreg), when the builder's
   flag agrees with the chain (initial = the registered pools are new) *)
Theorem C06_key_deposit : forall kd pd initial certs,
  total_key_deposit kd pd initial certs
  = deposits (mkParams kd pd (fun _ => negb initial)) certs - refunds (mkParams kd pd (fun _ => negb initial)) certs.
Proof. exact key_deposit_spec. Qed.
Print Assumptions C06_key_deposit.

(* calc_change_sum: whenever _calc_change returns change outputs (any min-ADA function, any packing function that
   does not return the empty list), their ADA adds up to provided - requested exactly, and their tokens add up to
   provided - requested for every asset IF AND ONLY IF the packing covers the change bundle *)
Theorem C06_calc_change_sum : forall minada pack st respect fee ins outs chs,
  Forall wfv ins -> Forall wfv outs -> wfm (b_mint st) ->
  pack (change_of st fee ins outs) <> Some [] ->
  calc_change minada pack st respect fee ins outs = inr chs ->
  sum_coin chs = coin (provided st ins) - coin (requested fee outs)
  /\ ((forall p n, sum_tok chs p n = content (massets (provided st ins)) p n - content (massets (requested fee outs)) p n)
      <-> (forall arr, is_nil (massets (change_of st fee ins outs)) = false ->
                       pack (change_of st fee ins outs) = Some arr ->
                       covers arr (massets (change_of st fee ins outs)))).
Proof. exact calc_change_sum. Qed.
Print Assumptions C06_calc_change_sum.

(* _pack_tokens_for_change, for an ARBITRARY size test ovf: whenever it returns, the bundles it returns are a
   partition of the change bundle (nothing lost, nothing duplicated), and there is at least one *)
Theorem C06_pack_partition : forall ovf change arr, wfv change ->
  pack_model ovf change = Some arr ->
  arr <> [] /\ Forall wfm arr /\ (forall p n, sum_content arr p n = content (massets change) p n).
Proof. exact pack_model_partition. Qed.
Print Assumptions C06_pack_partition.

(* C06_balanced: the body that build () returns after selection — inputs = ordered set of the transaction inputs
   of self.inputs, outputs and fee left by the two-pass _add_change_and_fee — satisfies the ledger balance with
   its inputs resolved through the chain's UTxO map.  For every builder state (mint, withdrawals, certificates,
   proposals, donation, parameters), merge_change on/off, every fee estimator, every min-ADA function, every size
   test; sound region: the selected UTxOs have pairwise distinct transaction inputs and the chain knows them with
   the amounts the builder saw. *)
Theorem C06_balanced : forall ovf minada est st merge ins outs fee0 umap bins outs' fee',
  Forall wfv (map u_val ins) -> Forall wfv (map snd outs) -> wfm (b_mint st) ->
  NoDup (map u_in ins) ->
  (forall u, In u ins -> resolve umap (u_in u) = Some (u_val u)) ->
  build_tail minada (pack_model ovf) est st merge ins outs fee0 = inr (bins, outs', fee') ->
  exists vals, resolve_all umap bins = Some vals
    /\ balanced (ledger_params st) vals (b_mint st) (b_wdrl st) (b_certs st) (b_props st) (b_donation st)
                (map snd outs') fee' = true.
Proof. exact build_tail_balanced_pack. Qed.
Print Assumptions C06_balanced.

(* the same for ANY packing function (e.g. the lists the implementation returned, taken as data) that is a
   partition at the change values it is applied to *)
Theorem C06_balanced_any_packing : forall minada pack est st merge ins outs fee0 umap bins outs' fee',
  Forall wfv (map u_val ins) -> Forall wfv (map snd outs) -> wfm (b_mint st) ->
  NoDup (map u_in ins) ->
  (forall u, In u ins -> resolve umap (u_in u) = Some (u_val u)) ->
  (forall fee arr, pack (change_of st fee (map u_val ins) (map snd outs)) = Some arr ->
     arr <> [] /\ Forall wfm arr /\ covers arr (massets (change_of st fee (map u_val ins) (map snd outs)))) ->
  build_tail minada pack est st merge ins outs fee0 = inr (bins, outs', fee') ->
  exists vals, resolve_all umap bins = Some vals
    /\ balanced (ledger_params st) vals (b_mint st) (b_wdrl st) (b_certs st) (b_props st) (b_donation st)
                (map snd outs') fee' = true.
Proof. exact build_tail_balanced. Qed.
Print Assumptions C06_balanced_any_packing.

(* explicit inputs: the same UTxO registered several times is kept once, so the distinctness premise of
   C06_balanced holds for the explicit part of self.inputs whenever the UTxOs are consistent *)
Theorem C06_explicit_inputs_once : forall l, consistent l -> NoDup (map u_in (dedup_utxos l)).
Proof. exact dedup_utxos_nodup. Qed.
Print Assumptions C06_explicit_inputs_once.

(* the UTxO selection step of build () (model BalanceSel.v): offered_pool = the candidates (potential inputs, then the
   chain's UTxOs at the input addresses, in that order) that are neither explicit inputs, nor seen before, nor excluded;
   selection_ok pool sel = every transaction input the selector returned names a member of that pool and none is
   returned twice; inputs_after_selection = the explicit inputs (each once) followed by the selector's answer.
   For EVERY answer within that contract self.inputs has pairwise distinct transaction inputs, all of them explicit
   inputs or candidates — the premise of C06_balanced.  (That the modelled selectors keep the contract for every
   stream of random choices is C14_lf / C14_ri; that the real ones do is checked on every run.) *)
Theorem C06_selected_inputs_distinct : forall explicit excluded cands sel,
  consistent (explicit ++ cands) ->
  selection_ok (offered_pool explicit excluded cands) sel = true ->
  NoDup (map u_in (inputs_after_selection explicit (offered_pool explicit excluded cands) sel))
  /\ (forall u, In u (inputs_after_selection explicit (offered_pool explicit excluded cands) sel) -> In u (explicit ++ cands)).
Proof. exact selected_inputs_nodup. Qed.
Print Assumptions C06_selected_inputs_distinct.

(* C06_balanced_selected: build () with explicit inputs, potential inputs, input addresses and excluded inputs, the chain's
   UTxO map a function of the transaction input: for EVERY answer of the selectors within the contract (and every order
   in which build () then sorts self.inputs) the returned body satisfies the ledger balance with its inputs resolved
   through the UTxO map.  No distinctness premise is left: it follows from the contract. *)
Theorem C06_balanced_selected : forall ovf minada est st merge umap explicit excluded potential addrs sel ins outs fee0 bins outs' fee',
  NoDup (map u_in umap) -> Forall wfv (map u_val umap) -> incl explicit umap -> incl potential umap ->
  Forall wfv (map snd outs) -> wfm (b_mint st) ->
  selection_ok (offered_pool explicit excluded (candidates umap potential addrs)) sel = true ->
  Permutation ins (inputs_after_selection explicit (offered_pool explicit excluded (candidates umap potential addrs)) sel) ->
  build_tail minada (pack_model ovf) est st merge ins outs fee0 = inr (bins, outs', fee') ->
  exists vals, resolve_all umap bins = Some vals
    /\ balanced (ledger_params st) vals (b_mint st) (b_wdrl st) (b_certs st) (b_props st) (b_donation st)
                (map snd outs') fee' = true.
Proof. exact build_selected_balanced_chain. Qed.
Print Assumptions C06_balanced_selected.

(* the contract is needed: a selector that names one member of the pool twice makes build () return a body whose outputs
   + fee exceed its inputs by exactly that UTxO (concrete scenario with mint, burn, withdrawal, certificates, proposal,
   donation; the UTxO carries 5 ADA) *)
Theorem C06_selection_contract_needed :
  exists minada pack est st merge umap explicit pool sel outs bins outs' fee' vals,
    pool = offered_pool explicit [] (candidates umap [] [wit_addr]) /\ NoDup (map u_in umap) /\ incl explicit umap
    /\ forallb (has_in pool) sel = true /\ selection_ok pool sel = false
    /\ build_tail minada pack est st merge (inputs_after_selection explicit pool sel) outs 0 = inr (bins, outs', fee')
    /\ resolve_all umap bins = Some vals
    /\ balanced (ledger_params st) vals (b_mint st) (b_wdrl st) (b_certs st) (b_props st) (b_donation st)
                (map snd outs') fee' = false.
Proof. exact selection_contract_needed_ex. Qed.
Print Assumptions C06_selection_contract_needed.

(* partial liveness: ADA-only inputs and outputs, nothing minted; if the provided ADA (inputs + withdrawals -
   deposits - donation) exceeds the outputs by the largest fee the estimator can return plus the largest min-ADA of
   an ADA-only change output, _add_change_and_fee does not refuse.
   PARTIAL: the UTxO selection phase of build () is not covered here (covering subsets are C14's subject);
   stated for given self.inputs. *)
Theorem C06_live_partial : forall minada pack est st merge ins (outs : list output) fee0 maxfee minc,
  ada_only ins -> ada_only (map snd outs) -> b_mint st = [] ->
  (forall o f, est o f <= maxfee) ->
  (forall c, minada (mkValue c []) <= minc) -> 0 < minc ->
  coin (provided st ins) >= sum_coin (map snd outs) + maxfee + minc ->
  exists outs' fee', add_change_and_fee minada pack est st merge ins outs fee0 = inr (outs', fee').
Proof. exact acf_live. Qed.
Print Assumptions C06_live_partial.

(* the packing does not raise either when max_val_size is at least 100: an asset id has at most 28 + 32 bytes and a
   quantity is below 2^64, so one asset alone in a fresh output needs at most 85 bytes (real size test ovf_c) *)
Theorem C06_pack_no_raise : forall cpb addr mvs change,
  100 <= mvs -> 0 <= cpb <= 2 ^ 50 -> (lenN addr < 256)%N -> wfv change -> 0 <= coin change < two64z ->
  Forall (fun kv => snd kv <> [] /\
                    Forall (fun nq => (lenN (fst kv) <= 28)%N /\ (lenN (fst nq) <= 32)%N /\ 0 < snd nq < two64z) (snd kv))
         (massets change) ->
  exists arr, pack_c cpb addr mvs change = Some arr.
Proof. exact pack_c_no_raise. Qed.
Print Assumptions C06_pack_no_raise.

(* the code before fix d736adf ("token change is never silently dropped when packing change outputs"):
   for max_val_size below the size of one asset the packing was not a partition — tokens vanished *)
Theorem C06_pack_break_refuted :
  exists cpb addr mvs change, wfv change /\ ~ covers (pack_model_old (ovf_c cpb addr mvs 0) change) (massets change).
Proof. exact pack_break_refuted. Qed.
Print Assumptions C06_pack_break_refuted.

(* liveness across the selection step, as far as it holds: if what the selectors hand over (explicit inputs + their answer)
   exceeds the outputs by the largest fee of the transaction WITH those inputs plus the largest minimum ADA of an ADA-only
   change, build () returns a body — for every selector answer, merge mode and fee estimator within the bounds *)
Theorem C06_live_after_selection : forall minada pack est st merge explicit pool sel (outs : list output) fee0 maxfee minc,
  ada_only (map u_val (inputs_after_selection explicit pool sel)) -> ada_only (map snd outs) -> b_mint st = [] ->
  (forall o f, est o f <= maxfee) -> (forall c, minada (mkValue c []) <= minc) -> 0 < minc ->
  coin (provided st (map u_val (inputs_after_selection explicit pool sel))) >= sum_coin (map snd outs) + maxfee + minc ->
  exists r, build_tail minada pack est st merge (inputs_after_selection explicit pool sel) outs fee0 = inr r.
Proof. exact live_after_selection. Qed.
Print Assumptions C06_live_after_selection.

(* REFUTED (known finding C06-liveness-fee-of-selected-inputs): the liveness clause at full strength — "registered funds exceed
   the request by a clear margin => a transaction is returned" — does not follow from the selectors' contract, because the
   request they are given carries the fee estimated BEFORE the selected inputs were added.  Concrete ADA-only wallet
   (11.234567 + 10 + 9.999 ADA at one base address, one output of 10.089136 ADA, 20 ADA to spare): the largest-first answer
   covers outputs + that fee and leaves its change the minimum ADA, and build () refuses (the real run: corpus/C06.json
   live-lf-base, InsufficientUTxOBalanceException "Not enough ADA left for change: 977290 but needs 978370") *)
Theorem C06_live_selection_request_refuted :
  ada_only (map u_val lv_pool) /\ ada_only (map snd lv_outs) /\ b_mint lv_st = []
  /\ selection_ok lv_pool lv_sel = true
  /\ (let got := sum_coin (map u_val (pick_by_in lv_pool lv_sel)) in
      let chg := got - sum_coin (map snd lv_outs) - lv_fee0 in
      0 <= chg /\ minada_c 4310 lv_addr (mkValue chg []) <= chg)
  /\ sum_coin (map u_val lv_pool) >= sum_coin (map snd lv_outs) + 20 * 1000000
  /\ build_tail (minada_c 4310 lv_addr) (pack_c 4310 lv_addr 5000) lv_est lv_st false
                (inputs_after_selection [] lv_pool lv_sel) lv_outs lv_fee0 = inl ErrInsufficient.
Proof. exact live_selection_request_refuted. Qed.
Print Assumptions C06_live_selection_request_refuted.
