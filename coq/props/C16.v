(* C16 — HD wallet derivation follows CIP-3 Icarus and BIP32-Ed25519.
   Statements only; proofs are in PyC.Bip32Proofs.

   Reading guide.
   * [P : prims] bundles the EXTERNAL primitives (PBKDF2-HMAC-SHA512/4096/96, HMAC-SHA512, SHA-512, the
     Ed25519 group with base-point multiplication [smulB], point (de)compression, libsodium's point addition
     on encodings).  Every theorem is universally quantified over P; what a proof needs to know about the
     primitives appears as explicit premises (the former Section hypotheses).  No axioms.
   * Specification side (Bip32Spec.v, integers): [spec_root], [spec_ckd_priv], [spec_ckd_pub],
     [spec_path_priv], [ed_verify].   Implementation side (Bip32Impl.v, bytes; mirrors crypto/bip32.py and
     key.py): [from_entropy], [derive], [derive_from_path], [esk_from_hdwallet], [esk_sign].
   * [wf_priv P w x]: wallet w stores the integer-level key x: xprivate_key = LE32(kL)||LE32(kR),
     public_key = enc(kL·B), chain_code = c, kR < 2^256, root keys present.
     [wf_pub P w p]: public_key = enc(A), chain_code = c.
     [kL_bound d x]: 2^254 <= kL < 2^254 + 2^253 + d·2^227   (d derivation steps below an Icarus root).
     [priv_child]/[pub_child]/[root_wallet]: the wallet record the code must return for a given
     specification key (all seven fields, including the path label "…/<index>").
     [eff_index index hardened] = index + 2^31 if hardened else index.  [max_depth] = 2^26. *)
From Coq Require Import NArith ZArith List Bool.
From PyC Require Import Base Bip32Spec Bip32Impl Bip32Proofs Bip32Toy.
Import ListNotations.
Open Scope N_scope.

(* ---- root: Icarus master key, for every entropy of 16/20/24/28/32 bytes and every passphrase ---- *)
Theorem C16_root : forall P : prims,
  (forall p s : bytes, length (pbkdf2 P p s) = 96%nat) ->
  forall entropy pass : bytes, is_entropy_len entropy = true ->
  let x := spec_root P pass entropy in
  from_entropy P entropy pass =
    (if is_identity P (smulB P (x_kL x)) then Err ERuntime else Ok (root_wallet P x))
  /\ wf_priv P (root_wallet P x) x /\ kL_bound 0 x /\ x_kL x mod 8 = 0.
Proof. exact from_entropy_spec. Qed.
Print Assumptions C16_root.

Theorem C16_root_bad_length : forall (P : prims) (entropy pass : bytes),
  is_entropy_len entropy = false -> from_entropy P entropy pass = Err EValue.
Proof. exact from_entropy_refuses. Qed.
Print Assumptions C16_root_bad_length.

(* ---- private child, every index (also negative / >= 2^32: AssertionError), hardened flag or raw index:
        byte level = integer level.  Side condition: kL + 2^227 <= 2^255 (see C16_all_depths: it holds for
        2^26 levels below any Icarus root).  No premise on the primitives is needed. ---- *)
Theorem C16_child : forall (P : prims) (w : wallet) (x : xprv) (index : Z) (hardened : bool),
  wf_priv P w x -> 0 < x_kL x -> x_kL x + 2^227 <= 2^255 ->
  derive P w index true hardened =
    (if in_index_range (eff_index index hardened) then
       match spec_ckd_priv P x (Z.to_N (eff_index index hardened)) with
       | Some x' => Ok (priv_child P w x' (eff_index index hardened))
       | None => Err ERuntime
       end
     else Err EAssert).
Proof. exact derive_private_spec. Qed.
Print Assumptions C16_child.

(* ---- what the code does OUTSIDE that side condition (any 256-bit kL): kL' >= 2^256 raises OverflowError;
        for 2^255 <= kL' < 2^256 the stored key is kL' but the public key is (kL' mod 2^255)·B, because
        libsodium's noclamp multiplication drops bit 255 (unfold [noclamp]). ---- *)
Theorem C16_child_any_kL : forall (P : prims) (w : wallet) (x : xprv) (xb : bytes) (index : Z),
  wf_priv P w x -> w_xprv w = Some xb -> x_kL x < 2^256 -> in_index_range index = true ->
  derive_private P w xb index =
    (let ZC := spec_Z_priv P x (Z.to_N index) in
     let kL' := 8 * zL_of (fst ZC) + x_kL x in
     let kR' := (zR_of (fst ZC) + x_kR x) mod 2^256 in
     if 2^256 <=? kL' then Err EOverflow
     else bind (noclamp P (le 32 kL')) (fun A : bytes =>
            Ok {| w_root_xprv := w_root_xprv w; w_root_pub := w_root_pub w; w_root_cc := w_root_cc w;
                  w_xprv := Some (le 32 kL' ++ le 32 kR'); w_pub := A; w_cc := skipn 32 (snd ZC);
                  w_path := child_path (w_path w) index |})).
Proof. exact derive_private_general. Qed.
Print Assumptions C16_child_any_kL.

(* ---- every depth: along any list of (raw) indices, d + length <= 2^26 ---- *)
Theorem C16_all_depths : forall (P : prims) (l : list N) (w : wallet) (x : xprv) (d : N),
  wf_priv P w x -> kL_bound d x -> d + lenN l <= max_depth ->
  match spec_path_priv P x l with
  | Some x' => exists w' : wallet,
      impl_path_priv P w l = Ok w' /\ wf_priv P w' x' /\ kL_bound (d + lenN l) x'
      /\ w_root_xprv w' = w_root_xprv w /\ w_root_pub w' = w_root_pub w /\ w_root_cc w' = w_root_cc w
  | None => exists e : err, impl_path_priv P w l = Err e
  end.
Proof. exact derive_all_depths. Qed.
Print Assumptions C16_all_depths.

(* ---- from any entropy and passphrase along any path: the wallet carries exactly the specified keys ---- *)
Theorem C16_entropy_to_keys : forall P : prims,
  (forall p s : bytes, length (pbkdf2 P p s) = 96%nat) ->
  forall (entropy pass : bytes) (l : list N),
  is_entropy_len entropy = true -> lenN l <= max_depth ->
  let r := spec_root P pass entropy in
  is_identity P (smulB P (x_kL r)) = false ->
  match spec_path_priv P r l with
  | Some x => exists w : wallet,
      bind (from_entropy P entropy pass) (fun w0 : wallet => impl_path_priv P w0 l) = Ok w
      /\ w_xprv w = Some (ser256 (x_kL x) ++ ser256 (x_kR x))
      /\ w_pub w = enc_pt P (smulB P (x_kL x)) /\ w_cc w = x_c x
      /\ w_root_xprv w = ser256 (x_kL r) ++ ser256 (x_kR r)
      /\ w_root_pub w = enc_pt P (smulB P (x_kL r)) /\ w_root_cc w = x_c r
      /\ x_kL x < 2^255
  | None => exists e : err,
      bind (from_entropy P entropy pass) (fun w0 : wallet => impl_path_priv P w0 l) = Err e
  end.
Proof. exact wallet_follows_spec. Qed.
Print Assumptions C16_entropy_to_keys.

(* ---- public child: everything derive(private=False) can do, for every wallet, index and flag ---- *)
Theorem C16_pub_child : forall P : prims,
  (forall g : G P, length (enc_pt P g) = 32%nat) ->
  (forall a b : G P, pt_add P (enc_pt P a) (enc_pt P b) = Some (enc_pt P (gadd P a b))) ->
  forall (w : wallet) (p : xpub P) (index : Z) (hardened : bool),
  wf_pub P w p ->
  derive P w index false hardened =
    (let iz := eff_index index hardened in
     let i := Z.to_N iz in
     if in_index_range iz then
       if i <? 2^31 then
         let zL := zL_of (pub_Z P p i) in
         if (zL =? 0) || is_identity P (smulB P (8 * zL)) then Err ERuntime
         else Ok (pub_child P w {| p_A := gadd P (p_A p) (smulB P (8 * zL)); p_c := skipn 32 (pub_C P p i) |} iz)
       else Err EValue
     else Err EAssert).
Proof. exact derive_public_spec. Qed.
Print Assumptions C16_pub_child.

(* whatever wallet a public step returns (other than the identity point) is the specification's child *)
Theorem C16_pub_sound : forall P : prims,
  (forall g : G P, length (enc_pt P g) = 32%nat) ->
  (forall a b : G P, pt_add P (enc_pt P a) (enc_pt P b) = Some (enc_pt P (gadd P a b))) ->
  forall (w : wallet) (p : xpub P) (index : Z) (hardened : bool) (w' : wallet),
  wf_pub P w p -> derive P w index false hardened = Ok w' -> w_pub w' <> enc_pt P (gzero P) ->
  exists p' : xpub P,
    spec_ckd_pub P p (Z.to_N (eff_index index hardened)) = Some p'
    /\ w' = pub_child P w p' (eff_index index hardened) /\ wf_pub P w' p' /\ w_xprv w' = None.
Proof. exact derive_public_sound. Qed.
Print Assumptions C16_pub_sound.

(* and every child the specification defines is returned, unless ZL = 0 or (8 ZL)·B is the identity,
   where libsodium refuses the scalar multiplication *)
Theorem C16_pub_complete : forall P : prims,
  (forall g : G P, length (enc_pt P g) = 32%nat) ->
  (forall a b : G P, pt_add P (enc_pt P a) (enc_pt P b) = Some (enc_pt P (gadd P a b))) ->
  forall (w : wallet) (p : xpub P) (i : N) (p' : xpub P),
  wf_pub P w p -> spec_ckd_pub P p i = Some p' ->
  zL_of (pub_Z P p i) <> 0 -> is_identity P (smulB P (8 * zL_of (pub_Z P p i))) = false ->
  derive P w (Z.of_N i) false false = Ok (pub_child P w p' (Z.of_N i)).
Proof. exact derive_public_complete. Qed.
Print Assumptions C16_pub_complete.

(* ---- public-only derivation of a non-hardened child agrees with private derivation
        ((kL + 8 zL)·B = kL·B + (8 zL)·B), and the public-only child carries no private key ---- *)
Theorem C16_pub_priv : forall P : prims,
  (forall g : G P, length (enc_pt P g) = 32%nat) ->
  (forall a b : N, smulB P (a + b) = gadd P (smulB P a) (smulB P b)) ->
  (forall a b : G P, pt_add P (enc_pt P a) (enc_pt P b) = Some (enc_pt P (gadd P a b))) ->
  forall (w : wallet) (x : xprv) (index : Z) (hardened : bool) (wp ws : wallet),
  wf_priv P w x -> 0 < x_kL x -> x_kL x + 2^227 <= 2^255 ->
  derive P w index false hardened = Ok wp ->
  derive P w index true hardened = Ok ws ->
  w_pub wp = w_pub ws /\ w_cc wp = w_cc ws /\ w_xprv wp = None /\ (eff_index index hardened < 2^31)%Z.
Proof. exact pub_priv_agree. Qed.
Print Assumptions C16_pub_priv.

Theorem C16_pub_exists : forall P : prims,
  (forall g : G P, length (enc_pt P g) = 32%nat) ->
  (forall a b : G P, pt_add P (enc_pt P a) (enc_pt P b) = Some (enc_pt P (gadd P a b))) ->
  forall (w : wallet) (x : xprv) (index : Z) (hardened : bool),
  wf_priv P w x -> (0 <= eff_index index hardened < 2^31)%Z ->
  let i := Z.to_N (eff_index index hardened) in
  zL_of (pub_Z P (neuter P x) i) <> 0 ->
  is_identity P (smulB P (8 * zL_of (pub_Z P (neuter P x) i))) = false ->
  exists wp : wallet, derive P w index false hardened = Ok wp.
Proof. exact pub_succeeds_when_priv. Qed.
Print Assumptions C16_pub_exists.

(* ---- hardened public derivation is refused: every wallet, every index >= 2^31 (raw or via the flag) ---- *)
Theorem C16_hardened_pub : forall (P : prims) (w : wallet) (index : Z) (hardened : bool),
  (2^31 <= eff_index index hardened)%Z ->
  derive P w index false hardened =
    Err (if is_empty (w_root_xprv w) && is_empty (w_root_pub w) then EValue
         else if (eff_index index hardened <? 2^32)%Z then EValue else EAssert).
Proof. exact derive_public_hardened. Qed.
Print Assumptions C16_hardened_pub.

(* ---- a public-only wallet has no signing key and refuses private derivation ---- *)
Theorem C16_public_only : forall (P : prims) (w : wallet), w_xprv w = None ->
  esk_from_hdwallet w = Err EInvalidKeyType /\ (forall (i : Z) (h : bool), derive P w i true h = Err EValue).
Proof. exact public_only_wallet_has_no_signing_key. Qed.
Print Assumptions C16_public_only.

(* ---- path-string derivation = step-by-step derivation: every non-empty list of (index, hardened) steps,
        every index : N (0, 2^31-1, 2^31, 2^32-1, beyond), private and public mode, every wallet.
        render_path [(1852,true);(1815,true);(0,true);(0,false);(0,false)] = "m/1852'/1815'/0'/0/0". ---- *)
Theorem C16_path : forall (P : prims) (w : wallet) (steps : list (N * bool)) (private : bool),
  steps <> [] ->
  derive_from_path P w (render_path steps) private = fold_left (step_fun P private) steps (Ok w).
Proof. exact derive_from_path_render. Qed.
Print Assumptions C16_path.

(* ---- signatures of derived keys verify under the derived public key:
        ExtendedSigningKey.from_hdwallet(w).sign(msg) satisfies the Ed25519 verification equation under
        from_hdwallet(w).to_verification_key().to_non_extended() = w.public_key, every message ---- *)
Theorem C16_sign : forall P : prims,
  (forall g : G P, length (enc_pt P g) = 32%nat) ->
  (forall g : G P, dec_pt P (enc_pt P g) = Some g) ->
  (forall a b : N, smulB P (a + b) = gadd P (smulB P a) (smulB P b)) ->
  smulB P 0 = gzero P ->
  smulB P ell = gzero P ->
  (forall g : G P, gadd P (gzero P) g = g) ->
  (forall a b : G P, gadd P a b = gadd P b a) ->
  (forall g : G P, smul P 0 g = gzero P) ->
  (forall (n : N) (g : G P), smul P (N.succ n) g = gadd P g (smul P n g)) ->
  forall (w : wallet) (x : xprv) (payload msg sig : bytes),
  wf_priv P w x -> x_kL x < 2^255 ->
  esk_from_hdwallet w = Ok payload -> esk_sign P payload msg = Ok sig ->
  payload = ser256 (x_kL x) ++ ser256 (x_kR x) ++ enc_pt P (smulB P (x_kL x)) ++ x_c x
  /\ evk_to_non_extended (esk_to_vk payload) = w_pub w
  /\ ed_verify P (w_pub w) msg sig = true.
Proof. exact derived_key_signature. Qed.
Print Assumptions C16_sign.

(* ---- the side condition of C16_child is needed: a faithful-model witness (found by vm_compute on the
        concrete instance Bip32Toy.toy = (Z/ell, +)) where 2^255 <= kL' < 2^256: the code stores the
        specified key but publishes (kL' mod 2^255)·B.  Unreachable below 2^26 levels under an Icarus root
        (C16_all_depths); reachable only through a hand-built HDWallet. ---- *)
Theorem C16_child_beyond_2_255_refuted :
  exists (P : prims) (w : wallet) (x x' : xprv) (w' : wallet),
    wf_priv P w x /\ x_kL x < 2^256
    /\ spec_ckd_priv P x 0 = Some x' /\ derive P w 0 true false = Ok w'
    /\ w_xprv w' = Some (ser256 (x_kL x') ++ ser256 (x_kR x'))
    /\ w_pub w' <> enc_pt P (smulB P (x_kL x')).
Proof. exact child_beyond_2_255_refuted. Qed.
Print Assumptions C16_child_beyond_2_255_refuted.

(* ---- non-vacuity: every premise about the primitives used above holds, jointly, for a concrete instance
        (further Examples in Bip32Toy.v run the model on it: root, CIP-1852 path, both derivation routes,
        signature) ---- *)
Theorem C16_premises_satisfiable : exists P : prims,
  (forall p s : bytes, length (pbkdf2 P p s) = 96%nat)
  /\ (forall g : G P, length (enc_pt P g) = 32%nat)
  /\ (forall g : G P, dec_pt P (enc_pt P g) = Some g)
  /\ (forall a b : N, smulB P (a + b) = gadd P (smulB P a) (smulB P b))
  /\ smulB P 0 = gzero P
  /\ smulB P ell = gzero P
  /\ (forall g : G P, gadd P (gzero P) g = g)
  /\ (forall a b : G P, gadd P a b = gadd P b a)
  /\ (forall g : G P, smul P 0 g = gzero P)
  /\ (forall (n : N) (g : G P), smul P (N.succ n) g = gadd P g (smul P n g))
  /\ (forall a b : G P, pt_add P (enc_pt P a) (enc_pt P b) = Some (enc_pt P (gadd P a b)))
  /\ (exists w, from_entropy P (repeat Byte.x00 16) [] = Ok w).
Proof.
  exists toy.
  exact (conj toy_pbkdf2_len (conj toy_enc_len (conj toy_dec_enc (conj toy_smulB_add (conj toy_smulB_0
        (conj toy_smulB_ell (conj toy_gadd_zero_l (conj toy_gadd_comm (conj toy_smul_0 (conj toy_smul_succ
        (conj toy_pt_add_enc toy_root_exists))))))))))).
Qed.
Print Assumptions C16_premises_satisfiable.
