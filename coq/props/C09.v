(* C09 — inputs are selected only from permitted UTxOs, each at most once, in canonical order.
   Statements only; the model is PyC.Inputs (build = the input-related slice of TransactionBuilder.build),
   proofs are in PyC.InputsProofs.

   Reading guide.  utxo = (transaction id bytes, index, payload id) with Leibniz equality = Python's ==
   on UTxO objects.  build c sels need st: c = the chain context's UTxO lists per address, sels = the
   builder's utxo_selectors as functions "pool -> returned list | selection exception | other exception",
   need = whether more value is required, st = the explicit / potential / excluded / address lists.
   BOk sel: sel is what build() leaves in builder.inputs; body_inputs sel is the body's input set.
   The selectors (and with them every random seed of the randomized strategy) are universally
   quantified; the only hypothesis on them is sel_sound: what a selector returns is a sub-multiset of
   the pool it was given (proved for pycardano's two selectors under C14, checked at run time here). *)
From Coq Require Import NArith PeanoNat String List Bool Permutation Sorted.
From PyC Require Import Base Inputs InputsProofs KeyedSet InputsKeyed InputsOracle.
Import ListNotations.
Open Scope N_scope.

(* ordering lower-case hex strings (what the code sorts by) = ordering the bytes, for all byte strings *)
Theorem C09_hex_order : forall a b : bytes, str_ltb (tohex a) (tohex b) = bytes_ltb a b.
Proof. exact hex_order. Qed.
Print Assumptions C09_hex_order.

(* distinct: no UTxO is selected twice; the body's inputs are pairwise different; and when a reference
   stands for one UTxO (as on chain) the body lists exactly the selected UTxOs, nothing collapsed *)
Theorem C09_distinct : forall c sels need st sel,
  Forall sel_sound sels -> build c sels need st = BOk sel ->
  NoDup sel /\ NoDup (body_inputs sel)
  /\ (ref_coherent (explicit st ++ potential st ++ flat_map (ctx_utxos c) (addrs st)) ->
      body_inputs sel = map ref_of sel).
Proof.
  intros c sels need st sel Hs Hb. split; [eapply build_NoDup; eauto|]. split; [apply body_inputs_NoDup|].
  intros C. eapply build_body_exact; eauto.
Qed.
Print Assumptions C09_distinct.

(* provenance: explicit inputs, potential inputs, or what the context reports at a registered address *)
Theorem C09_provenance : forall c sels need st sel,
  Forall sel_sound sels -> build c sels need st = BOk sel ->
  incl sel (explicit st ++ potential st ++ flat_map (ctx_utxos c) (addrs st))
  /\ forall r, In r (body_inputs sel) ->
       exists u, In u (explicit st ++ potential st ++ flat_map (ctx_utxos c) (addrs st)) /\ ref_of u = r.
Proof.
  intros c sels need st sel Hs Hb.
  assert (I : incl sel (permitted c st)) by (eapply build_incl_permitted; eauto).
  split; [exact I|]. intros r Hr. apply body_inputs_In in Hr. destruct Hr as [u [Hu E]]. exists u. auto.
Qed.
Print Assumptions C09_provenance.

(* every explicitly added input is present — whatever the selectors do *)
Theorem C09_explicit_present : forall c sels need st sel, build c sels need st = BOk sel ->
  forall u, In u (explicit st) -> In u sel /\ In (ref_of u) (body_inputs sel).
Proof.
  intros c sels need st sel Hb u Hu. assert (In u sel) by (eapply build_explicit_present; eauto).
  split; [assumption|]. apply body_inputs_In. eauto.
Qed.
Print Assumptions C09_explicit_present.

(* no excluded UTxO is used; at the level of references when a reference stands for one UTxO *)
Theorem C09_no_excluded : forall c sels need st sel,
  Forall sel_sound sels -> build c sels need st = BOk sel ->
  forall u, In u (excluded st) ->
    ~ In u sel
    /\ (ref_coherent ((explicit st ++ potential st ++ flat_map (ctx_utxos c) (addrs st)) ++ excluded st) ->
        ~ In (ref_of u) (body_inputs sel)).
Proof.
  intros c sels need st sel Hs Hb u Hu. split; [eapply build_no_excluded; eauto|].
  intros C. eapply build_no_excluded_ref; eauto.
Qed.
Print Assumptions C09_no_excluded.

(* an explicit input that is also excluded: build refuses with the builder exception, and only then *)
Theorem C09_conflict : forall c sels need st,
  (exists u, In u (explicit st) /\ In u (excluded st)) <-> build c sels need st = BErr EConflict.
Proof. exact build_conflict. Qed.
Print Assumptions C09_conflict.

(* canonical order: strictly ascending in (transaction id bytes, index) — whatever the selectors do *)
Theorem C09_order : forall c sels need st sel, build c sels need st = BOk sel ->
  StronglySorted (fun a b : ref => bytes_ltb (fst a) (fst b) = true \/ (fst a = fst b /\ snd a < snd b))
                 (body_inputs sel).
Proof. exact build_sorted. Qed.
Print Assumptions C09_order.

(* all clauses for every seed / stream of a randomized strategy: mk seed = the selector list obtained
   with that seed *)
Theorem C09_every_seed : forall (seed : Type) (mk : seed -> list selector),
  (forall s, Forall sel_sound (mk s)) ->
  forall s c need st sel, build c (mk s) need st = BOk sel ->
    NoDup sel /\ NoDup (body_inputs sel)
    /\ incl sel (explicit st ++ potential st ++ flat_map (ctx_utxos c) (addrs st))
    /\ (forall u, In u (explicit st) -> In u sel /\ In (ref_of u) (body_inputs sel))
    /\ (forall u, In u (excluded st) -> ~ In u sel)
    /\ StronglySorted (fun a b : ref => bytes_ltb (fst a) (fst b) = true \/ (fst a = fst b /\ snd a < snd b))
                      (body_inputs sel).
Proof. exact build_all. Qed.
Print Assumptions C09_every_seed.

(* histories on a static chain: whatever sequence of registration calls and builds (a later build starts from
   the inputs the earlier one wrote back), a built transaction only spends UTxOs registered so far *)
Theorem C09_history : forall c its, Forall item_sound its -> Forall static its ->
  forall sel, In (BOk sel) (snd (run c empty_state its)) ->
    incl sel (flat_map (fun it => match it with
                                  | Op (AddInput u) | Op (AddScriptInput u) | Op (AddPotential u) => [u]
                                  | Op (AddAddress a) => ctx_utxos c a
                                  | _ => []
                                  end) its).
Proof.
  intros c its Hs Hst sel Hin.
  apply (run_provenance c its empty_state [] (fun x H => match H with end) Hs Hst sel Hin).
Qed.
Print Assumptions C09_history.

(* histories on a chain that MOVES (SetCtx c' : from now on the context answers c'): in a build after any
   history `pre` of registrations, builds and chain updates, every selected UTxO was handed over by the caller
   (add_input / add_script_input / potential_inputs), or was selected by an earlier build of this builder, or is
   reported at an address registered so far by the context in force AT THIS BUILD (last_ctx: the answer of the
   latest update) — never by an answer remembered from an earlier query *)
Theorem C09_history_live : forall c0 pre need sels sel, Forall sel_sound sels ->
  build (last_ctx c0 pre) sels need (snd (reach c0 empty_state pre)) = BOk sel ->
  incl sel (caller_utxos pre ++ earlier_selected c0 empty_state pre
            ++ flat_map (ctx_utxos (last_ctx c0 pre)) (addr_ops pre)).
Proof. exact history_live. Qed.
Print Assumptions C09_history_live.

(* the build of C09_history_live is the one a history performs: the context in force and the builder state
   reached after `pre` are what `run` hands to the next Build item *)
Theorem C09_history_live_is_run : forall pre c0 st need sels post,
  snd (run c0 st (pre ++ Build need sels :: post))
  = snd (run c0 st pre)
    ++ build (fst (reach c0 st pre)) sels need (snd (reach c0 st pre))
       :: snd (run (fst (reach c0 st pre)) (state_after (snd (reach c0 st pre))
                     (build (fst (reach c0 st pre)) sels need (snd (reach c0 st pre)))) post)
  /\ fst (reach c0 st pre) = last_ctx c0 pre.
Proof. intros. split; [apply run_app_build | apply reach_ctx]. Qed.
Print Assumptions C09_history_live_is_run.

(* PARTIAL: "the caller's UTxO objects and pools are left unmodified".  What the functional model can say:
   a build changes nothing but the builder's own input list (potential / excluded / address lists are
   carried over, the context is not an output).  Missing: that the Python objects reachable from these
   lists (UTxO, TransactionOutput, Value, the lists themselves) are not mutated in place — aliasing is
   outside the model; it is monitored on every correspondence case by a byte/field snapshot of every
   pool UTxO, of potential_inputs, excluded_inputs and of the context's lists before and after build(). *)
Theorem C09_unmodified_partial : forall c sels need st,
  let st' := state_after st (build c sels need st) in
  potential st' = potential st /\ excluded st' = excluded st /\ addrs st' = addrs st.
Proof. exact build_frame. Qed.
Print Assumptions C09_unmodified_partial.

(* The body's input set is pycardano's OrderedSet: membership is decided on a KEY of the member (str(item)), not on the
   member.  body_inputs_k key = that set with an arbitrary key function; body_inputs (all theorems above) = the set by
   equality of the references.  They are the same function whenever the key is injective on the references in play -- and
   that hypothesis is decided, case by case, on the keys the implementation itself computes (keys_ok, part of the oracle). *)
Theorem C09_ordered_set_key : forall kt sel,
  keys_injectiveb kt = true -> incl (map ref_of sel) (map fst kt) ->
  body_inputs_k (key_of kt) sel = body_inputs sel.
Proof. exact body_inputs_keyed_table. Qed.
Print Assumptions C09_ordered_set_key.

Theorem C09_explicit_present_keyed : forall kt sel u,
  keys_injectiveb kt = true -> incl (map ref_of sel) (map fst kt) ->
  In u sel -> In (ref_of u) (body_inputs_k (key_of kt) sel).
Proof. exact explicit_present_keyed. Qed.
Print Assumptions C09_explicit_present_keyed.

(* what the oracle's keys_ok establishes: the hypothesis above for every selection drawn from the case's table *)
Theorem C09_keys_ok_meaning : forall k sel,
  keys_ok k = true -> incl sel (rc_utxos k) ->
  body_inputs_k (key_of (key_table k)) sel = body_inputs sel.
Proof.
  intros k sel H I. unfold keys_ok in H. apply andb_true_iff in H as [L H].
  apply body_inputs_keyed_table; [exact H|].
  apply Nat.eqb_eq in L.
  unfold key_table. rewrite combine_fst_map_ok by (now rewrite map_length).
  intros r Hr. apply in_map_iff in Hr. destruct Hr as [u [<- Hu]]. apply in_map. now apply I.
Qed.
Print Assumptions C09_keys_ok_meaning.

(* without injectivity the property fails: an explicitly added input is not in the body *)
Theorem C09_non_injective_key_refuted :
  exists key a b, In b [a; b] /\ In (ref_of b) (body_inputs [a; b]) /\ ~ In (ref_of b) (body_inputs_k key [a; b]).
Proof.
  exists abbrev_key, (mkU (hx "a1220b") 0 1), (mkU (hx "a1330b") 0 2).
  split; [right; now left|]. exact keyed_set_drops_an_explicit_input.
Qed.
Print Assumptions C09_non_injective_key_refuted.

(* whatever the key function: no two references of the body's input set are filed under the same key -- and with the
   implementation's keys (injective on the case's table, keys_ok) that is: no reference twice *)
Theorem C09_keyed_set_distinct_keys : forall key sel, NoDup (map key (body_inputs_k key sel)).
Proof. intros key sel. unfold body_inputs_k. apply kbuild_nodup_keys. exact N_eqb_eq. Qed.
Print Assumptions C09_keyed_set_distinct_keys.
