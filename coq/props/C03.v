(* C03 — transaction identity survives decode and re-encode. Statements only; proofs in PyC.CodecBytes. *)
From Coq Require Import NArith ZArith String List Bool.
From PyC Require Import Base Cbor CborProofs Value Codec CodecProofs CodecBytes CodecSites CodecKnown.
From PyCGen Require Import SchemaGen.
Import ListNotations.
Open Scope string_scope.
Open Scope list_scope.

(* wire layer: the decoder used by from_cbor returns the item of which the bytes are the encoding *)
Theorem C03_decode_enc : forall p, wf p -> decode3 (enc p) = Some p.
Proof. exact decode3_enc. Qed.
Print Assumptions C03_decode_enc.

(* For every class table, every object v of class c (any wire variant: tagged or untagged sets are the
   VSet flag, legacy/map outputs and datum options live in the output's own primitive, optional fields in
   any subset): the bytes decode to v and EVERY object decoded from these bytes re-encodes to exactly these
   bytes. *)
Theorem C03_reencode_py : forall S k c v bs p,
  ht S k (TCls c) v -> (k <= fuel)%nat ->
  to_prim S fuel v = Ok p -> wf p -> flatten p = p -> bs = enc p ->
  to_cbor S v = Ok bs /\ from_cbor S c bs = Ok v
  /\ (forall v', from_cbor S c bs = Ok v' -> to_cbor S v' = Ok bs).
Proof. exact from_cbor_to_cbor. Qed.
Print Assumptions C03_reencode_py.

(* the body is a contiguous slice of the transaction bytes *)
Theorem C03_body_slice : forall x r, enc (CA (x :: r)) = Cbor.head 4%N (lenN (x :: r)) ++ enc x ++ concat (map enc r).
Proof. exact enc_array_first. Qed.
Print Assumptions C03_body_slice.

(* the id reported for the decoded body is the hash (abstract H = BLAKE2b) of the body bytes as received *)
Theorem C03_tx_id : forall (H : nat -> bytes -> bytes) S k body pbody rest,
  ht S k (TCls "TransactionBody") body -> (k <= fuel)%nat ->
  to_prim S fuel body = Ok pbody -> wf pbody -> flatten pbody = pbody ->
  forall tx_bytes, body_slice tx_bytes pbody rest ->
  forall body', from_cbor S "TransactionBody" (enc pbody) = Ok body' ->
  tx_id_of H S body' = Ok (H 32%nat (enc pbody)).
Proof. exact tx_id_survives. Qed.
Print Assumptions C03_tx_id.

(* PER RUN: the premises are about TODAY's tables *)
Theorem C03_sites_known : unsound_sites SchemaGen.schema = known_sites.
Proof. vm_compute. reflexivity. Qed.
Print Assumptions C03_sites_known.
Theorem C03_fingerprints_known : SchemaGen.fingerprints = known_fingerprints.
Proof. vm_compute. reflexivity. Qed.
Print Assumptions C03_fingerprints_known.
