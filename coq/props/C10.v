(* C10 — witnesses authorise exactly this transaction.
   Statements only; model and specification: PyC.Witness, proofs: PyC.WitnessProofs.
   Reading guide: [Ledger.required_key_hashes] is the UTXOW requirement over a transaction description (incl. the key
   leaves of native scripts that the transaction needs and finds in a reference / spent output instead of the
   witness set); SH is the script-hash function (arbitrary: nothing is assumed about it);
   [builder_required], [witness_count], [fake_vkey_witnesses], [build_and_sign_witnesses], [ext_sign_model]
   model pycardano (txbuilder.py, key.py, witness.py, crypto/bip32.py).  External primitives are the
   universally quantified functions at the head of each statement (closed Sections): nothing is assumed about
   BLAKE2b (H28, H32) or SHA-512 (H512); the curve is an arbitrary commutative group with n |-> n·B additive and
   L·B = 0; NaCl's ordinary-key signing is assumed to verify (C10_witnesses_valid only). *)
From Coq Require Import NArith List Bool.
From PyC Require Import Base Witness WitnessProofs.
Import ListNotations.
Open Scope N_scope.

(* Every key hash the ledger requires for the transaction a builder emits is in the builder's required set
   (inputs, collateral, required signers, native-script key leaves through all/any/n-of-k — of the field and of
   scripts attached through add_script_input / add_*_script, whether the script travels in the witness set, in a
   separate reference UTxO, or in the spent UTxO itself —, the credentials of the 16 witness-needing certificate
   kinds incl. pool operator AND owners, key reward accounts, key voters); conversely the builder asks for nothing
   else except the key of a legacy StakeRegistration (documented over-inclusion).
   Changed with the reference-script extension (statement otherwise as before, now for every script-hash function SH):
   [tx_of] ships only the scripts build_witness_set keeps (all_scripts minus reference scripts minus scripts the spent
   inputs carry) and lists the scripts of reference / spent outputs; two decidable side conditions appear, one per
   direction: [refs_registered] (a needed native script found in a reference / spent output was handed to the builder
   by add_script_input / add_*_script) and [refs_used] (a script kept out of the witness set is really carried by a
   reference / spent output and serves a purpose of the transaction).  Both hold trivially without reference scripts
   (C10_refs_conditions_trivial) and are evaluated (refs_registeredb / refs_usedb) on every generated scenario. *)
Theorem C10_required_complete : forall (SH : nscript -> bytes) (b : bdesc) (kh : bytes),
  (refs_registered SH b ->
     In kh (Ledger.required_key_hashes SH (tx_of SH b)) -> In kh (builder_required b))
  /\ (refs_used SH b -> In kh (builder_required b) ->
        In kh (Ledger.required_key_hashes SH (tx_of SH b)) \/ In kh (legacy_registration_keys b)).
Proof. exact required_complete_all. Qed.
Print Assumptions C10_required_complete.

(* without scripts in reference / spent outputs the side conditions hold and the statement is the former one *)
Theorem C10_refs_conditions_trivial : forall (SH : nscript -> bytes) (b : bdesc),
  b_reference_scripts b = [] -> b_input_scripts b = [] -> b_refin_scripts b = [] ->
  refs_registered SH b /\ refs_used SH b.
Proof. exact refs_conditions_trivial. Qed.
Print Assumptions C10_refs_conditions_trivial.

(* the boolean forms used on the generated scenarios decide the side conditions *)
Theorem C10_refs_conditions_decidable : forall (SH : nscript -> bytes) (b : bdesc),
  (refs_registeredb SH b = true -> refs_registered SH b) /\ (refs_usedb SH b = true -> refs_used SH b).
Proof. intros SH b. split; [apply refs_registeredb_sound | apply refs_usedb_sound]. Qed.
Print Assumptions C10_refs_conditions_decidable.

(* a native script that reaches the transaction only through a reference UTxO: its key is required by the ledger
   although the witness set ships no script (the region in which a collector over self.scripts would be wrong) *)
Theorem C10_reference_script_keys_required :
  exists SH b kh, refs_registered SH b /\ refs_used SH b /\ witness_scripts SH b = [] /\
    In kh (Ledger.required_key_hashes SH (tx_of SH b)) /\ In kh (builder_required b)
    /\ ~ In kh (flat_map ns_dfs (scripts SH b)).
Proof. exact reference_script_keys_required. Qed.
Print Assumptions C10_reference_script_keys_required.

(* the over-inclusion is real: some builder asks for a key the ledger does not need *)
Theorem C10_legacy_registration_overincluded :
  exists b kh, forall SH, refs_registered SH b /\ refs_used SH b /\
    In kh (builder_required b) /\ ~ In kh (Ledger.required_key_hashes SH (tx_of SH b)).
Proof. exact legacy_registration_overincluded. Qed.
Print Assumptions C10_legacy_registration_overincluded.

(* The vkey witnesses build_and_sign puts into the transaction (b = builder fields as prepared, sel = what build()
   itself adds: the UTxOs taken by coin selection and the collateral picked by _set_collateral_return, b' = the
   builder when build() returns: selected inputs, then the auto_required_signers step, then the picked collateral;
   body = serialized body, keys = the given signing keys, ordinary or extended):
   1. each is (32-byte key of a given signing key k, signature by k of H32(body)), k required or forced;
   2. every ledger-required hash for which a key was given gets a witness (incl. the keys of native scripts
      supplied through reference UTxOs, of coin-selected inputs and of builder-picked collateral; side condition
      refs_registered);
   3. when forced, every given key gets one — wherever it stands in the list;
   4. when not forced, a witness's key hash is ledger-required (or the legacy-registration over-inclusion;
      side condition refs_used);
   5. no two witnesses share a key hash, hence no duplicate [vkey, signature] entries.
   Changed with the selection extension: the statement is now for every [sel] (with sel = no_selection it is the
   former one: C10_after_build_no_selection); the side conditions are stated on b' (the builder the transaction is
   emitted from) instead of b — they carry over from b by C10_selection_side_conditions; Plutus scripts take part in
   the auto_required_signers step (is_smart / has_scripts). *)
Theorem C10_witnesses :
  forall (SH : nscript -> bytes) (H28 H32 ord_pub : bytes -> bytes) (ord_sign : bytes -> bytes -> bytes)
         (ext_sign : bytes -> bytes -> bytes -> bytes)
         (b : bdesc) (auto : option bool) (force : bool) (keys : list skey) (sel : selection) (body : bytes),
  Forall wf_key keys ->
  let b' := after_build SH H28 ord_pub auto keys sel b in
  let txid := H32 body in
  let ws := build_and_sign_witnesses SH H28 H32 ord_pub ord_sign ext_sign b auto force keys sel body in
  (forall w, In w ws -> exists k, In k keys /\ w_vk w = vk32 ord_pub k /\ w_sig w = sign_with ord_sign ext_sign k txid
                                  /\ (force = true \/ In (key_hash H28 ord_pub k) (builder_required b')))
  /\ (refs_registered SH b' ->
      forall kh, In kh (Ledger.required_key_hashes SH (tx_of SH b')) -> (exists k, In k keys /\ key_hash H28 ord_pub k = kh) ->
        exists w, In w ws /\ H28 (w_vk w) = kh)
  /\ (force = true -> forall k, In k keys -> exists w, In w ws /\ H28 (w_vk w) = key_hash H28 ord_pub k)
  /\ (refs_used SH b' -> force = false -> forall w, In w ws ->
        In (H28 (w_vk w)) (Ledger.required_key_hashes SH (tx_of SH b')) \/ In (H28 (w_vk w)) (legacy_registration_keys b'))
  /\ NoDup (map (fun w => H28 (w_vk w)) ws)
  /\ NoDup (map wit_bytes ws).
Proof. exact build_and_sign_spec. Qed.
Print Assumptions C10_witnesses.

(* without selection the builder after build() is the builder after the auto_required_signers step *)
Theorem C10_after_build_no_selection :
  forall (SH : nscript -> bytes) (H28 ord_pub : bytes -> bytes) (auto : option bool) (keys : list skey) (b : bdesc),
  after_build SH H28 ord_pub auto keys no_selection b = after_auto SH H28 ord_pub auto keys b.
Proof. exact after_build_no_selection. Qed.
Print Assumptions C10_after_build_no_selection.

(* the side conditions on reference scripts carry over from the prepared builder to the builder after build():
   refs_used always; refs_registered when coin selection added key-locked UTxOs only *)
Theorem C10_selection_side_conditions :
  forall (SH : nscript -> bytes) (H28 ord_pub : bytes -> bytes) (auto : option bool) (keys : list skey)
         (sel : selection) (b : bdesc),
  (refs_used SH b -> refs_used SH (after_build SH H28 ord_pub auto keys sel b))
  /\ (forallb is_key (sel_inputs sel) = true -> refs_registered SH b ->
        refs_registered SH (after_build SH H28 ord_pub auto keys sel b)).
Proof. intros SH H28 ord_pub auto keys sel b. split; [apply refs_used_after_build | apply refs_registered_after_build]. Qed.
Print Assumptions C10_selection_side_conditions.

(* The placeholder witnesses of the LAST fee estimate of build() (fee_witness_count: _witness_count() on the builder
   with the selected inputs and the picked collateral in place; no witness_override): as many as the builder then has
   distinct required key hashes, 32 + 64 bytes, pairwise distinct; the key of every key-locked UTxO that build() added
   as input or as collateral is among them; and — side conditions, no legacy registration — that number IS the number
   of distinct key hashes the ledger requires for the emitted transaction. *)
Theorem C10_fee_placeholders :
  forall (SH : nscript -> bytes) (H28 ord_pub : bytes -> bytes)
         (b : bdesc) (auto : option bool) (keys : list skey) (sel : selection),
  let b' := after_build SH H28 ord_pub auto keys sel b in
  b_witness_override b = None ->
  let n := lenN (dedup (builder_required b')) in
  n <= 256 ->
  let fw := fake_vkey_witnesses (fee_witness_count SH H28 ord_pub b auto keys sel) in
  lenN fw = n /\ Forall (fun w => length (fst w) = 32%nat /\ length (snd w) = 64%nat) fw /\ NoDup fw
  /\ (forall kh, In (KeyH kh) (sel_inputs sel ++ sel_collateral sel) -> In kh (builder_required b'))
  /\ (refs_registered SH b' -> refs_used SH b' -> legacy_registration_keys b' = [] ->
        n = lenN (dedup (Ledger.required_key_hashes SH (tx_of SH b')))).
Proof. exact fee_placeholders. Qed.
Print Assumptions C10_fee_placeholders.

(* why the count must be taken on the builder as build() leaves it: a Plutus spend whose collateral the builder picks
   from another key's wallet — counting before _set_collateral_return gives 0, the transaction needs 1 *)
Theorem C10_count_before_collateral_refuted :
  let SH := fun _ : nscript => kC in let H28 := fun b : bytes => firstn 1 b in let ord_pub := fun s : bytes => s in
  picks_collateral b_plutus_example = true
  /\ witness_count (after_auto SH H28 ord_pub None [] (add_inputs (sel_inputs sel_example) b_plutus_example)) = 0
  /\ fee_witness_count SH H28 ord_pub b_plutus_example None [] sel_example = 1
  /\ Ledger.required_key_hashes SH (tx_of SH (after_build SH H28 ord_pub None [] sel_example b_plutus_example)) = [kB].
Proof. exact stale_count_refuted. Qed.
Print Assumptions C10_count_before_collateral_refuted.

(* Placeholder witnesses of any builder state: as many as there are distinct required key hashes (no witness_override),
   each a 32-byte key and a 64-byte signature, pairwise distinct as [vkey, signature] entries (so the ordered set
   keeps them all).  The bound 256 is where the construction (index AND constant) starts to repeat: C10_fake_257. *)
Theorem C10_fake_count : forall b : bdesc,
  b_witness_override b = None ->
  let n := lenN (dedup (builder_required b)) in
  n <= 256 ->
  let fw := fake_vkey_witnesses (witness_count b) in
  lenN fw = n /\ Forall (fun w => length (fst w) = 32%nat /\ length (snd w) = 64%nat) fw /\ NoDup fw.
Proof. exact fake_count. Qed.
Print Assumptions C10_fake_count.

(* limits of the placeholder construction (not needed by the fee): keys alone repeat, and 257 placeholders collapse *)
Theorem C10_fake_vkeys_distinct_refuted : fst (fake_wit 0) = fst (fake_wit 2).
Proof. exact fake_vkeys_not_distinct. Qed.
Print Assumptions C10_fake_vkeys_distinct_refuted.
Theorem C10_fake_257_refuted : lenN (fake_vkey_witnesses 257) = 256.
Proof. exact fake_count_257_refuted. Qed.
Print Assumptions C10_fake_257_refuted.

(* BIP32ED25519PrivateKey.sign (pycardano's own EdDSA over libsodium scalar/point primitives), byte level:
   for every kL below 2^255, kR and message, the public key is A = kL·B and the signature R||S satisfies the
   RFC 8032 verification S·B = R + h·A with S < L, h = SHA-512(R||A||m) mod L — from the group laws alone. *)
Theorem C10_ext_sign_verifies :
  forall (G : Type) (zero : G) (add : G -> G -> G) (neg : G -> G) (smulB : N -> G)
         (enc_pt : G -> bytes) (dec_pt : bytes -> option G) (H512 : bytes -> N),
  (forall a b c, add a (add b c) = add (add a b) c) ->
  (forall a b, add a b = add b a) ->
  (forall a, add zero a = a) ->
  (forall a, add (neg a) a = zero) ->
  (forall a b, smulB (a + b) = add (smulB a) (smulB b)) ->
  smulB L = zero ->
  (forall P, length (enc_pt P) = 32%nat) ->
  (forall P, dec_pt (enc_pt P) = Some P) ->
  forall kL kR m : bytes, unle kL < two255 ->
  base_noclamp G smulB enc_pt kL = enc_pt (smulB (unle kL))
  /\ ed_verify G zero add smulB dec_pt H512 (base_noclamp G smulB enc_pt kL) m (ext_sign_model G smulB enc_pt H512 kL kR m).
Proof. exact ext_sign_verifies. Qed.
Print Assumptions C10_ext_sign_verifies.

(* Together: every witness of the modelled build_and_sign is a 32-byte key with a signature of H32(body) that
   verifies — ordinary keys by the assumption on NaCl, extended keys (laid out kL kR A cc with A = kL·B,
   kL < 2^255) by the theorem above. *)
Theorem C10_witnesses_valid :
  forall (G : Type) (zero : G) (add : G -> G -> G) (neg : G -> G) (smulB : N -> G)
         (enc_pt : G -> bytes) (dec_pt : bytes -> option G) (H512 : bytes -> N),
  (forall a b c, add a (add b c) = add (add a b) c) ->
  (forall a b, add a b = add b a) ->
  (forall a, add zero a = a) ->
  (forall a, add (neg a) a = zero) ->
  (forall a b, smulB (a + b) = add (smulB a) (smulB b)) ->
  smulB L = zero ->
  (forall P, length (enc_pt P) = 32%nat) ->
  (forall P, dec_pt (enc_pt P) = Some P) ->
  forall (SH : nscript -> bytes) (H28 H32 ord_pub : bytes -> bytes) (ord_sign : bytes -> bytes -> bytes),
  (forall seed, length (ord_pub seed) = 32%nat) ->
  (forall seed m, length seed = 32%nat -> ed_verify G zero add smulB dec_pt H512 (ord_pub seed) m (ord_sign seed m)) ->
  forall (b : bdesc) (auto : option bool) (force : bool) (keys : list skey) (sel : selection) (body : bytes),
  Forall (wf_skey G smulB enc_pt) keys ->
  forall w, In w (build_and_sign_witnesses SH H28 H32 ord_pub ord_sign (ext_sign_model G smulB enc_pt H512) b auto force keys sel body) ->
    length (w_vk w) = 32%nat /\ ed_verify G zero add smulB dec_pt H512 (w_vk w) (H32 body) (w_sig w).
Proof. exact witnesses_valid. Qed.
Print Assumptions C10_witnesses_valid.
