(* C12 — the script integrity hash in the body matches the witnesses actually shipped.
   Statements only; specification and model in PyC.ScriptHash (on top of PyC.Redeemers), proofs in
   PyC.ScriptHashProofs.

   Reading guide.  `run_build native ops a = Ok t`: the add_* calls `ops` on a fresh builder whose
   native_scripts field is `native`, followed by build()/build_and_sign() with arguments `a` (among
   them a_units: the evaluator's answers after buffering), succeed; `t_state t` is the builder afterwards
   (redeemer indices assigned, execution units replaced), `t_rdms t` / `t_datums t` the redeemer objects
   and datums of the witness set.  `ship H dflt cm usemap st` is the MODEL of what the transaction
   carries: w_rdm / w_dat = the bytes of witness entries 5 / 4 as serialized (None = entry absent),
   b_hash = body field 11 (TransactionBuilder.script_data_hash -> utils.script_data_hash with
   CostModels.to_shallow_primitive; `dflt` is that function's fallback cbor2.dumps(COST_MODELS)).
   usemap = use_redeemer_map.  H = BLAKE2b-256 and dflt are universally quantified, not axioms.
   `cm : costmodels` = protocol_param.cost_models: per language either `ByName l` (dict keyed by parameter names:
   Blockfrost, Ogmios, the built-in models) or `ByPos l` (dict keyed by integer positions: what the cardano-cli
   backend makes of a cost model reported as a list), entries in dict order.
   SPECIFICATION side: `language_views cm langs` (canonical map: key 1 / 2 with the parameter list in the
   given order, key h'00' with the byte string of the indefinite list of parameters in ascending order of their
   keys — names by code points, positions NUMERICALLY: `vals_by_key`),
   `langs_used native ops` (ledger language ids of the scripts the calls hand over or find),
   `integrity_preimage r d v = r ++ d ++ enc v`, field5 / field4 = the shipped bytes, the empty map a0 for an
   absent entry 5, nothing for an absent entry 4.
   Premise `sound12 native ops` (decidable: sound12b): each call hands over a redeemer with a Plutus script and
   vice versa, native_scripts are native, equal script hashes mean equal scripts.  Transactions outside it
   are rejected by the ledger for other reasons (missing / extraneous redeemer); C12_premise_needed shows the
   statement is false without it. *)
From Coq Require Import NArith ZArith String List Bool Sorted Permutation.
From Coq Require Import Init.Byte.
From PyC Require Import Base Cbor Value ValueCanon Redeemers RedeemersProofs ScriptHash ScriptHashOracle ScriptHashProofs.
Import ListNotations.
Open Scope N_scope.

(* Main statement: for map-form and list-form redeemers alike, on the builder state after the execution units
   were replaced, the body's script data hash is H over exactly the shipped redeemer bytes, the shipped datum
   bytes, and the encoded canonical language views of the Plutus versions used; it is absent when there are
   neither redeemers nor datums. *)
Theorem C12_hash : forall (H : bytes -> bytes) (dflt : bytes) cm usemap native ops a t,
  sound12 native ops -> run_build native ops a = Ok t ->
  let s := ship H dflt cm usemap (t_state t) in
  b_hash s =
    if isnil (t_rdms t) && isnil (t_datums t) then None
    else Some (H (integrity_preimage (field5 s) (field4 s) (language_views cm (langs_used native ops)))).
Proof. exact hash_matches_shipped. Qed.
Print Assumptions C12_hash.

(* The hash is absent precisely when neither a redeemer entry nor a datum entry is shipped (any builder state). *)
Theorem C12_absent_iff : forall (H : bytes -> bytes) (dflt : bytes) cm usemap st,
  let s := ship H dflt cm usemap st in
  b_hash s = None <-> (w_rdm s = None /\ w_dat s = None).
Proof. exact hash_absent_iff. Qed.
Print Assumptions C12_absent_iff.

(* What is shipped: the final redeemer objects in the requested form (entry 5 absent when there are none), the
   datums in the builder's order (entry 4 absent when there are none) ... *)
Theorem C12_shipped : forall (H : bytes -> bytes) (dflt : bytes) cm usemap native ops a t,
  run_build native ops a = Ok t ->
  let s := ship H dflt cm usemap (t_state t) in
  w_rdm s = (if isnil (t_rdms t) then None else Some (redeemers_bytes usemap (t_rdms t)))
  /\ w_dat s = (if isnil (t_datums t) then None else Some (datums_bytes (t_datums t))).
Proof. exact shipped_entries. Qed.
Print Assumptions C12_shipped.

(* ... where the list form is an array of (tag, index, data, units) 4-arrays in _redeemer_list order and the
   map form a canonical map from (tag, index) to (data, units). *)
Theorem C12_forms : forall rl,
  (rl <> [] -> redeemers_bytes false rl = head 4 (lenN rl) ++ concat (map rfull rl))
  /\ redeemers_bytes true rl
     = head 5 (lenN (rmap rl)) ++ concat (map (fun kv => enc (fst kv) ++ snd kv) (rmap rl)).
Proof. exact (fun rl => conj (redeemers_bytes_list rl) (redeemers_bytes_map rl)). Qed.
Print Assumptions C12_forms.

(* When the builder estimates execution units, every shipped (hence hashed) redeemer carries the evaluated,
   buffered units it was given for that redeemer object, not the placeholder. *)
Theorem C12_units_replaced : forall native ops a t st0,
  run native ops = Ok st0 -> build st0 a = Ok t -> b_est st0 = Some true ->
  forall r, In r (t_rdms t) -> exists u, r_units r = Some u /\ lookupN (r_id r) (a_units a) = Some u.
Proof. exact units_replaced. Qed.
Print Assumptions C12_units_replaced.

(* Canonical language views.  `keys`: the ledger language ids (0, 1, 2) the builder collected, each once, in ANY
   order; `langs`: the Plutus versions used, any order, any repetition.  The map the code emits (keys sorted by
   (k == 0, k)) IS the specification's language-view map, and its entries are strictly ascending in the canonical
   order (length of the encoded key, then bytes). *)
Theorem C12_language_views : forall cm keys langs,
  Forall (fun l => l < 3) langs -> NoDup keys -> (forall x, In x keys <-> In x langs) ->
  cm_cbor cm keys = language_views cm langs
  /\ StronglySorted (fun x y : cbor * cbor => key_ltb (fst x) (fst y) = true) (map (cm_entry cm) (isort lk_ltb keys)).
Proof. exact views_canonical. Qed.
Print Assumptions C12_language_views.

(* ... hence a function of the SET of languages: the order in which the builder met the scripts and how often it
   met a language do not matter. *)
Theorem C12_views_order_irrelevant : forall cm l1 l2,
  Forall (fun x => x < 3) l1 -> (forall x, In x l1 <-> In x l2) ->
  cm_cbor cm (dedup N.eqb l1) = cm_cbor cm (dedup N.eqb l2)
  /\ cm_cbor cm (dedup N.eqb l1) = language_views cm l1.
Proof. exact (fun cm l1 l2 F Hs => conj (views_order_irrelevant cm l1 l2 F Hs) (views_of_set cm l1 F)). Qed.
Print Assumptions C12_views_order_irrelevant.

(* The sort key (k == 0, k) of the code agrees with the canonical order of the encoded keys on the three languages. *)
Theorem C12_sort_key : forall a b, a < 3 -> b < 3 ->
  key_ltb (if a =? 0 then CB [x00] else CU a) (if b =? 0 then CB [x00] else CU b) = lk_ltb a b.
Proof. exact vkey_order. Qed.
Print Assumptions C12_sort_key.

(* The PlutusV1 parameter list (the one the code sorts).  `keys_distinct p`: the keys of the dict are pairwise distinct
   (a dict); `same_dict p p'`: the same entries in another dict order.  (a) The list does not depend on the dict
   order; (b) it is the values in strictly ascending key order — integer positions compared as numbers, so position
   2 precedes position 10 — resp. names compared by code points; (c) a cost model that the backend built from a list
   ({i: v for i, v in enumerate(vs)}) enters the PlutusV1 language view in list order, whatever its length. *)
Theorem C12_v1_params_dict_order : forall p p', keys_distinct p -> same_dict p p' -> vals_by_key p = vals_by_key p'.
Proof. exact vals_by_key_dict_order. Qed.
Print Assumptions C12_v1_params_dict_order.

Theorem C12_v1_params_by_position : forall l : list (Z * Z), NoDup (map fst l) ->
  exists s, vals_by_key (ByPos l) = map snd s /\ Permutation s l /\ StronglySorted (fun a b => fst a < fst b)%Z s.
Proof. intros l N. eexists. exact (vals_by_key_pos l N). Qed.
Print Assumptions C12_v1_params_by_position.

Theorem C12_v1_params_by_name : forall l : list (string * Z), NoDup (map fst l) ->
  exists s, vals_by_key (ByName l) = map snd s /\ Permutation s l
            /\ StronglySorted (fun a b => str_ltb (fst a) (fst b) = true) s.
Proof. intros l N. eexists. exact (vals_by_key_name l N). Qed.
Print Assumptions C12_v1_params_by_name.

Theorem C12_v1_view_of_list : forall cm vs, cm_get cm 1 = ByPos (enumerate vs) ->
  view cm 0 = (CB [x00], CB (enc (CAi (map cint vs)))).
Proof. exact view_v1_positional. Qed.
Print Assumptions C12_v1_view_of_list.

(* Non-vacuity: twelve positions in scrambled dict order (10 and 11 stay behind 2..9); names by code points. *)
Theorem C12_example_positional :
  vals_by_key (ByPos [(10, 110); (2, 102); (0, 100); (11, 111); (1, 101); (3, 103); (9, 109); (4, 104); (8, 108); (5, 105);
                      (7, 107); (6, 106)]%Z)
  = [100; 101; 102; 103; 104; 105; 106; 107; 108; 109; 110; 111]%Z
  /\ vals_by_key (ByName [("b", 1); ("Zeta", 2); ("a", 3); ("10", 4); ("2", 5)]%Z%string) = [4; 5; 2; 3; 1]%Z.
Proof. exact positional_twelve. Qed.
Print Assumptions C12_example_positional.

(* The decidable premise used by the harness implies the premise of C12_hash. *)
Theorem C12_premise_decidable : forall native ops, sound12b native ops = true -> sound12 native ops.
Proof. exact sound12b_sound. Qed.
Print Assumptions C12_premise_decidable.

(* Non-vacuity: a PlutusV1 spending script (datum by hash) + a PlutusV2 minting policy + a native script, units
   estimated; premise and build hold; map and list form give different shipped bytes and preimages. *)
Theorem C12_example_v1_v2 : forall (H : bytes -> bytes) (dflt : bytes),
  sound12 [Ex12.sN] Ex12.ops12 /\
  exists t, run_build [Ex12.sN] Ex12.ops12 Ex12.args12 = Ok t
    /\ map r_units (t_rdms t) = [Some (10, 20); Some (11, 21)]
    /\ langs_used [Ex12.sN] Ex12.ops12 = [0; 1]
    /\ enc (language_views Ex12.cm12 (langs_used [Ex12.sN] Ex12.ops12)) = hx "a2018201024100449f0507ff"
    /\ w_rdm (ship H dflt Ex12.cm12 true (t_state t)) = Some (hx "a28200018201820a148201008202820b15")
    /\ w_rdm (ship H dflt Ex12.cm12 false (t_state t)) = Some (hx "82" ++ hx "84000101820a14" ++ hx "84010002820b15")
    /\ w_dat (ship H dflt Ex12.cm12 true (t_state t)) = Some (hx "81d87980")
    /\ b_hash (ship H dflt Ex12.cm12 true (t_state t))
       = Some (H (hx "a28200018201820a148201008202820b15" ++ hx "81d87980" ++ hx "a2018201024100449f0507ff"))
    /\ b_hash (ship H dflt Ex12.cm12 false (t_state t))
       = Some (H (hx "8284000101820a1484010002820b15" ++ hx "81d87980" ++ hx "a2018201024100449f0507ff")).
Proof. exact example_v1_v2. Qed.
Print Assumptions C12_example_v1_v2.

(* Datums only: the empty map stands for the redeemers and for the language views. *)
Theorem C12_example_datums_only : forall (H : bytes -> bytes) (dflt : bytes),
  sound12 [Ex12.sN] Ex12.opsD /\
  exists t, run_build [Ex12.sN] Ex12.opsD Ex12.args12 = Ok t
    /\ w_rdm (ship H dflt Ex12.cm12 false (t_state t)) = None
    /\ b_hash (ship H dflt Ex12.cm12 false (t_state t)) = Some (H (hx "a0" ++ hx "81d87980" ++ hx "a0")).
Proof. exact example_datums_only. Qed.
Print Assumptions C12_example_datums_only.

(* Outside the premise (a Plutus policy handed over WITHOUT a redeemer, next to a datum) the builder hashes the
   empty language views although PlutusV2 is in use: the premise of C12_hash cannot be dropped.  (The ledger
   rejects such a transaction for the missing redeemer.) *)
Theorem C12_premise_needed : forall (H : bytes -> bytes) (dflt : bytes),
  let ops := [AddMintingScript (SrcScript Ex12.sB) None; AddOutputDatum Ex12.dA] in
  sound12b [] ops = false /\
  exists t, run_build [] ops Ex12.args12 = Ok t
    /\ b_hash (ship H dflt Ex12.cm12 true (t_state t)) = Some (H (hx "a0" ++ hx "81d87980" ++ hx "a0"))
    /\ enc (language_views Ex12.cm12 (langs_used [] ops)) = hx "a101820102".
Proof. exact premise_needed. Qed.
Print Assumptions C12_premise_needed.

(* the script integrity hash of a history is that of the history without the calls that only NAME a UTxO (collateral,
   read-only reference input) or give an output a datum hash: the cost models of a Plutus version that merely sits on such
   a UTxO do not enter the language views *)
Theorem C12_inert_calls : forall native ops a,
  run_build native ops a = run_build native (filter (fun o => negb (inert o)) ops) a.
Proof. exact inert_calls. Qed.
Print Assumptions C12_inert_calls.
