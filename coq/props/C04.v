(* C04 — map-like values encode canonically, independent of construction history.
   Statements only; proofs are in PyC.ValueCanon. *)
From Coq Require Import ZArith List Bool Permutation Sorted.
From PyC Require Import Base Cbor Dict Value ValueProofs ValueCanon.
Import ListNotations.

(* DictCBORSerializable.to_shallow_primitive: for ANY two insertion orders of the same entries the
   emitted map is the same list, strictly ascending in (length of encoded key, encoded key) *)
Theorem C04_dict_canonical : forall (V : Type) (l1 l2 : list (cbor * V)),
  NoDup (ekeys l1) -> Permutation l1 l2 ->
  ksort l1 = ksort l2 /\ StronglySorted klt (ksort l1).
Proof. intros V. exact (@ksort_canonical V). Qed.
Print Assumptions C04_dict_canonical.

Theorem C04_bundle_canonical : forall m1 m2, wfm m1 -> wfm m2 ->
  (forall p n, content m1 p n = content m2 p n) -> masset_prim m1 = masset_prim m2.
Proof. exact masset_prim_canonical. Qed.
Print Assumptions C04_bundle_canonical.

Theorem C04_value_canonical : forall v1 v2, wfv v1 -> wfv v2 ->
  coin v1 = coin v2 -> (forall p n, content (massets v1) p n = content (massets v2) p n) ->
  value_cbor v1 = value_cbor v2.
Proof. exact value_cbor_canonical. Qed.
Print Assumptions C04_value_canonical.

Theorem C04_history : forall h1 h2 v1 v2,
  wfv v1 -> wfv v2 -> Forall wf_op h1 -> Forall wf_op h2 ->
  let r1 := fold_left vstep h1 v1 in let r2 := fold_left vstep h2 v2 in
  coin r1 = coin r2 -> (forall p n, content (massets r1) p n = content (massets r2) p n) ->
  value_cbor r1 = value_cbor r2.
Proof. exact history_canonical. Qed.
Print Assumptions C04_history.

Theorem C04_no_zero : forall m,
  Forall (fun kv => snd kv <> [] /\ Forall (fun nq => snd nq <> 0%Z) (snd kv)) (m_norm m).
Proof. exact emitted_no_zero. Qed.
Print Assumptions C04_no_zero.

Theorem C04_bare_int : forall v, wfv v -> (forall p n, content (massets v) p n = 0%Z) ->
  value_prim v = cint (coin v).
Proof. exact bare_int. Qed.
Print Assumptions C04_bare_int.
