(* C13 — collateral is adequate, key-locked and balanced.
   Statements only; proofs are in PyC.CollateralProofs.  Specification (ledger rule) and model of
   TransactionBuilder._set_collateral_return are in PyC.Collateral.
   Reading aid:  cand = a resolved UTxO (tx id, index, address header type, amount, serialized length);
   cid = its transaction input; coins / contents = sum of lovelace / of one asset over a list of candidates;
   wfc = amounts are dicts with unique keys; nonneg = no negative quantity;
   set_collateral_return minl P plutus_or_ref has_addr explicit inputs potentials at_addr = (collaterals afterwards, outcome)
   with outcome in { ONoop, OSet return total, OErrCount, OErrScript, OErrAmount, OErrMinLovelace } (the four errors
   are the ValueErrors the method raises: no transaction body is produced). *)
From Coq Require Import NArith ZArith List Bool.
From PyC Require Import Base Cbor Dict Value ValueProofs Collateral CollateralProofs CollateralHistory.
Import ListNotations.
Open Scope Z_scope.

(* The boolean ledger rule means what the property says (per-asset, over all integers). *)
Theorem C13_spec_reading : forall L fee colls ret total, wfc colls ->
  collateral_ok L fee colls ret total = true <->
  (1 <= Z.of_nat (length colls) <= l_max_inputs L
   /\ NoDup (map cid colls)
   /\ Forall (fun c => key_locked (c_type c) = true) colls
   /\ l_percent L * fee <= 100 * (coins colls - ret_coin ret)
   /\ (forall t, total = Some t -> coins colls - ret_coin ret = t)
   /\ (forall p n, contents colls p n = content (ret_assets ret) p n)
   /\ (forall v out, ret = Some (v, out) -> l_cpb L * (160 + Z.of_N (lenN out)) <= coin v)).
Proof. exact collateral_ok_spec. Qed.
Print Assumptions C13_spec_reading.

(* MAIN: on a transaction that needs collateral (Plutus script witnessed or reference script used) and with a return
   address, whenever the method completes (does not raise), the collateral inputs, collateral return and total
   collateral it leaves in the builder satisfy the ledger rule for EVERY fee up to max_tx_fee + fee_buffer — whether the
   collateral was chosen automatically or supplied by the user, for all candidate lists, amounts and parameters.
   min_lovelace_ret is utils.min_lovelace_post_alonzo of the return output. *)
Theorem C13_collateral_ok : forall P cpb addr explicit inputs pot at_addr colls o fee,
  set_collateral_return (min_lovelace_ret cpb addr) P true true explicit inputs pot at_addr = (colls, o) ->
  completed o ->
  wfc (explicit ++ inputs ++ pot ++ at_addr) ->
  nonneg (explicit ++ inputs ++ pot ++ at_addr) ->
  Forall (fun c => (c_type c <= 8)%N) (explicit ++ inputs ++ pot ++ at_addr) ->
  0 < collateral_amount P -> 0 <= p_percent P -> 0 <= cpb ->
  fee <= p_max_fee P + p_fee_buffer P ->
  collateral_ok (mkLP (p_percent P) (p_max_inputs P) cpb) fee colls (ret_of addr o) (total_of o) = true.
Proof. exact set_collateral_return_ok_concrete. Qed.
Print Assumptions C13_collateral_ok.

(* THE GATE (added when the check was strengthened).  sstate = the builder's script tables at the time of the call:
   native_scripts, _inputs_to_scripts values, minting / withdrawal / certificate scripts, _reference_scripts; each
   script = (hash, class).  purposes ss = the scripts of the spend/mint/withdrawal/certificate tables;
   needs_collateral ss = the method does NOT take its first early return (model of all_scripts / scripts /
   build_witness_set's classification / the four-way `not ... and not self._reference_scripts` test);
   hash_fun = equal hashes have equal classes.
   Completeness: a Plutus script executed for ANY purpose, however it was supplied (object, separate reference UTxO,
   the spent UTxO's own script, a UTxO found at the script address), opens the gate. *)
Theorem C13_gate_complete : forall ss s,
  hash_fun (ss_native ss ++ purposes ss) -> In s (purposes ss) -> is_plutus s = true ->
  needs_collateral ss = true.
Proof. exact gate_complete. Qed.
Print Assumptions C13_gate_complete.

(* Soundness: the gate opens only for a reference script in use or a Plutus script in one of the tables *)
Theorem C13_gate_sound : forall ss, needs_collateral ss = true ->
  ss_refs ss <> [] \/ exists s, In s (ss_native ss ++ purposes ss) /\ is_plutus s = true.
Proof. exact gate_sound. Qed.
Print Assumptions C13_gate_sound.

(* MAIN over the script tables (C13_collateral_ok with its `true` replaced by what the builder computes): *)
Theorem C13_collateral_ok_scripts : forall P cpb addr ss s explicit inputs pot at_addr colls o fee,
  hash_fun (ss_native ss ++ purposes ss) -> In s (purposes ss) -> is_plutus s = true ->
  set_collateral_return_ss (min_lovelace_ret cpb addr) P ss true explicit inputs pot at_addr = (colls, o) ->
  completed o ->
  wfc (explicit ++ inputs ++ pot ++ at_addr) ->
  nonneg (explicit ++ inputs ++ pot ++ at_addr) ->
  Forall (fun c => (c_type c <= 8)%N) (explicit ++ inputs ++ pot ++ at_addr) ->
  0 < collateral_amount P -> 0 <= p_percent P -> 0 <= cpb ->
  fee <= p_max_fee P + p_fee_buffer P ->
  collateral_ok (mkLP (p_percent P) (p_max_inputs P) cpb) fee colls (ret_of addr o) (total_of o) = true.
Proof. exact set_collateral_return_ss_ok. Qed.
Print Assumptions C13_collateral_ok_scripts.

(* the same for an arbitrary min-lovelace function that dominates the ledger's min ADA of the emitted output *)
Theorem C13_collateral_ok_any_minl : forall minl P cpb addr explicit inputs pot at_addr colls o fee,
  set_collateral_return minl P true true explicit inputs pot at_addr = (colls, o) ->
  completed o ->
  wfc (explicit ++ inputs ++ pot ++ at_addr) ->
  nonneg (explicit ++ inputs ++ pot ++ at_addr) ->
  Forall (fun c => (c_type c <= 8)%N) (explicit ++ inputs ++ pot ++ at_addr) ->
  0 < collateral_amount P -> 0 <= p_percent P ->
  fee <= p_max_fee P + p_fee_buffer P ->
  (forall v, 0 <= coin v -> ledger_min_ada cpb (enc (out_legacy addr v)) <= minl v) ->
  collateral_ok (mkLP (p_percent P) (p_max_inputs P) cpb) fee colls (ret_of addr o) (total_of o) = true.
Proof. exact set_collateral_return_ok. Qed.
Print Assumptions C13_collateral_ok_any_minl.

(* collateral_amount is the ceiling of percent * (max_tx_fee + fee_buffer) / 100: it covers every fee up to
   max_tx_fee + fee_buffer and is not a lovelace larger than necessary for that bound *)
Theorem C13_amount_covers_fee : forall P fee, 0 <= p_percent P -> fee <= p_max_fee P + p_fee_buffer P ->
  p_percent P * fee <= 100 * collateral_amount P
  /\ 100 * collateral_amount P < p_percent P * (p_max_fee P + p_fee_buffer P) + 100.
Proof. intros P fee H1 H2. split; [now apply amount_adequate | apply amount_ceiling]. Qed.
Print Assumptions C13_amount_covers_fee.

(* when a return is set: forfeit = total_collateral = collateral_amount exactly, the return carries exactly the
   tokens of the collateral inputs (per asset), and at least the builder's min lovelace *)
Theorem C13_forfeit_equals_total : forall minl P explicit inputs pot at_addr colls r t,
  set_collateral_return minl P true true explicit inputs pot at_addr = (colls, OSet r t) ->
  wfc (explicit ++ inputs ++ pot ++ at_addr) ->
  t = collateral_amount P
  /\ coins colls - coin r = t
  /\ (forall p n, content (massets r) p n = contents colls p n)
  /\ minl r <= coin r /\ 0 <= coin r.
Proof. exact set_fields_exact. Qed.
Print Assumptions C13_forfeit_equals_total.

(* the builder's min lovelace (post-Alonzo map form, 1 ADA substituted for 0) dominates the ledger's min ADA of the
   return output as it is serialized in the body (legacy array form) *)
Theorem C13_return_min_ada : forall cpb addr v, 0 <= cpb ->
  ledger_min_ada cpb (enc (out_legacy addr v)) <= min_lovelace_ret cpb addr v.
Proof. exact min_lovelace_ret_covers_ledger. Qed.
Print Assumptions C13_return_min_ada.

(* automatic selection, whatever happens afterwards: pairwise distinct inputs, none at an address whose type name
   starts with SCRIPT, each above 2 ADA, each from inputs / potential inputs / UTxOs at the return address, at most
   max_collateral_inputs of them; the running total is their sum; de-duplication leaves them unchanged *)
Theorem C13_automatic_selection : forall minl P inputs pot at_addr,
  let st := auto_select minl P inputs pot at_addr in
  NoDup (map cid (fst st))
  /\ Forall (fun c => script_name (c_type c) = false /\ 2000000 < coin (c_val c)
                      /\ In c (inputs ++ pot ++ at_addr)) (fst st)
  /\ Z.of_nat (length (fst st)) <= Z.max 0 (p_max_inputs P)
  /\ snd st = vsum (fst st)
  /\ dedup_ids (fst st) [] = fst st.
Proof. exact auto_select_sound. Qed.
Print Assumptions C13_automatic_selection.

(* a non-SCRIPT type name of a payment address (header types 0..8) is a key-locked address in the ledger's sense:
   KEY_KEY, KEY_SCRIPT, KEY_POINTER, KEY_NONE (enterprise) and BYRON *)
Theorem C13_name_filter_is_key_locked : forall t, script_name t = false -> (t <= 8)%N -> key_locked t = true.
Proof. exact key_locked_of_name. Qed.
Print Assumptions C13_name_filter_is_key_locked.

(* every collateral the method leaves behind was supplied by the user or comes from the three pools *)
Theorem C13_collateral_from_pools : forall minl P explicit inputs pot at_addr pf ha x,
  In x (fst (set_collateral_return minl P pf ha explicit inputs pot at_addr)) ->
  In x (explicit ++ inputs ++ pot ++ at_addr).
Proof. intros. eapply colls_incl; eauto. Qed.
Print Assumptions C13_collateral_from_pools.

(* exhaustive description of the validation and of the refusals: which error is raised exactly when *)
Theorem C13_outcomes : forall minl P colls,
  let amount := collateral_amount P in
  let r := v_sub (vsum colls) (vint amount) in
  match finish minl P colls with
  | OErrCount => p_max_inputs P < Z.of_nat (length colls)
  | OErrScript => Z.of_nat (length colls) <= p_max_inputs P /\ ~ no_script colls
  | OErrAmount => Z.of_nat (length colls) <= p_max_inputs P /\ no_script colls /\ coins colls < amount
  | ONoop => Z.of_nat (length colls) <= p_max_inputs P /\ no_script colls /\ amount <= coins colls
             /\ should_add_return (p_threshold P) r = false
  | OErrMinLovelace => Z.of_nat (length colls) <= p_max_inputs P /\ no_script colls /\ amount <= coins colls
             /\ should_add_return (p_threshold P) r = true /\ coin r < minl r
  | OSet r' t => Z.of_nat (length colls) <= p_max_inputs P /\ no_script colls /\ amount <= coins colls
             /\ should_add_return (p_threshold P) r = true /\ minl r <= coin r /\ r' = r /\ t = amount
  end.
Proof. exact finish_cases. Qed.
Print Assumptions C13_outcomes.

(* a refusal for lack of funds is justified: if the automatic selection ends below the amount with fewer than
   max_collateral_inputs inputs, then EVERY eligible candidate (non-SCRIPT, > 2 ADA) of all three pools was taken *)
Theorem C13_refusal_justified : forall minl P inputs pot at_addr,
  let st := auto_select minl P inputs pot at_addr in
  coin (snd st) < collateral_amount P ->
  Z.of_nat (length (fst st)) < p_max_inputs P ->
  forall c, In c (inputs ++ pot ++ at_addr) -> good c -> In (cid c) (map cid (fst st)).
Proof. exact auto_select_exhaustive. Qed.
Print Assumptions C13_refusal_justified.

(* HISTORIES.  One builder, any number of build() calls and refused attempts before the one looked at (each with whatever
   collaterals, candidate lists, parameters and return address were in force then; cc_explicit of a later call may contain what
   an earlier call selected): the collateral inputs, return and total that go into the body of a build that completes satisfy the
   ledger rule -- nothing an earlier call computed survives into it.  fields_of_history = the builder's _collateral_return /
   _total_collateral after the history, for the method as repaired (cleared first, set in the last branch only). *)
Theorem C13_every_build_of_a_history : forall pre h c fee,
  cc_ok c -> completed (snd (cc_run c)) ->
  fee <= p_max_fee (cc_P c) + p_fee_buffer (cc_P c) ->
  let f := fields_of_history pre (h ++ [c]) in
  collateral_ok (mkLP (p_percent (cc_P c)) (p_max_inputs (cc_P c)) (cc_cpb c)) fee (fst (cc_run c)) (fst f) (snd f) = true.
Proof. exact history_collateral_ok. Qed.
Print Assumptions C13_every_build_of_a_history.

(* the method as it was written before the repair (fields only ever set: fields_kept) violates the rule on the second build of
   the history found on the implementation: collateral 10 ADA + 7 tokens, then an ADA-only 4 ADA UTxO that needs no return --
   the body names the 4 ADA input and carries a return of 6.738584 ADA + 7 tokens and total 3261416 *)
Theorem C13_stale_fields_refuted :
  cc_ok Stale.second /\ completed (snd (cc_run Stale.second)) /\ fst (cc_run Stale.second) = [Stale.y]
  /\ (exists r b, fst Stale.after_second = Some (r, b) /\ coin r = 6738584 /\ massets r = Stale.tok)
  /\ snd Stale.after_second = Some 3261416
  /\ collateral_ok (mkLP 150 3 4310) 2174277 [Stale.y] (fst Stale.after_second) (snd Stale.after_second) = false
  /\ collateral_ok (mkLP 150 3 4310) 2174277 [Stale.y]
       (fst (fields_after Stale.addr (snd (cc_run Stale.second)))) (snd (fields_after Stale.addr (snd (cc_run Stale.second)))) = true.
Proof. exact fields_kept_refuted. Qed.
Print Assumptions C13_stale_fields_refuted.
