(* C08 — built outputs are ledger-valid; otherwise the builder refuses.
   Statements only; model in PyC.Change, proofs in PyC.ChangeProofs.
   Vocabulary (Change.v): min_ada cpb n = cpb * (160 + n) is the ledger's minimum for an output of n serialized bytes;
   out_size o = length of the post-Alonzo map form {0: address, 1: amount, ...} of o, COMPUTED by the CBOR encoder;
   vsize v = length of Value.to_cbor(); content m p n = quantity of asset (p, n) in bundle m (0 if absent);
   valid_amount v = (0 <= coin v and every stored quantity > 0); partition_of l m = per asset the quantities of the
   bundles l add up to m's. pack_tokens / calc_change / add_change / min_lovelace / body_validate are the models of
   _pack_tokens_for_change / _calc_change / _add_change_and_fee / min_lovelace_post_alonzo / TransactionBody.validate. *)
From Coq Require Import NArith ZArith List Bool.
From PyC Require Import Base Cbor Dict Value ValueProofs Change ChangeProofs.
Import ListNotations.
Open Scope Z_scope.

(* Token bundles are split without loss or duplication: whatever the packer returns is a split of the change bundle.
   Unbounded over policies, names, quantities (any integers), max_val_size and coins_per_utxo_byte. *)
Theorem C08_pack_partition : forall c addr change arr, wfm (massets change) ->
  pack_tokens c addr change = Ok arr ->
  partition_of arr (massets change) /\ Forall wfm arr.
Proof. exact pack_partition. Qed.
Print Assumptions C08_pack_partition.

(* The packer's InvalidTransactionException (its final size re-check; it used to `break` and drop the remaining
   policies) can only be raised when some single asset does not fit max_val_size on its own
   (fit c addr mc v: v passes the packer's size test, sized with max(minimum ADA, mc); mc = ADA of the change) ... *)
Theorem C08_pack_total : forall c addr change, wfm (massets change) ->
  singles_fit c addr (coin change) (massets change) -> fit c addr (coin change) (mkValue (coin change) []) ->
  exists arr, pack_tokens c addr change = Ok arr.
Proof. exact pack_total. Qed.
Print Assumptions C08_pack_total.

(* ... which cannot happen in the property's range: a 28-byte policy, a name of at most 32 bytes, a quantity, a
   minimum ADA and a change below 2^64 fit whenever max_val_size >= 85 (the property ranges over 100..5000) *)
Theorem C08_single_fits_in_range : forall c addr mc p n q c0,
  lenN p = 28%N -> (lenN n <= 32)%N -> 0 < q < two64z ->
  0 <= Z.max (reqd c addr (mkValue c0 [(p, [(n, q)])])) mc < two64z -> 85 <= max_val_size c ->
  fit c addr mc (mkValue c0 [(p, [(n, q)])]).
Proof. exact singles_fit_in_range. Qed.
Print Assumptions C08_single_fits_in_range.

Theorem C08_base_fits_in_range : forall c addr mc c0,
  0 <= Z.max (reqd c addr (mkValue c0 [])) mc < two64z -> 9 <= max_val_size c -> fit c addr mc (mkValue c0 []).
Proof. exact base_fit_in_range. Qed.
Print Assumptions C08_base_fits_in_range.

(* Every output returned by _calc_change has non-negative ADA and strictly positive quantities; with
   respect_min_utxo every change output holds the ledger minimum for ITS OWN serialized size (the premise
   `coin < 2^32 or minimum <= 2^32` is decidable and holds for every realistic coins_per_utxo_byte: the code sizes the
   minimum with a 5-byte coin); the change outputs add up to provided - requested, in ADA and per asset. *)
Theorem C08_outputs : forall c i outs, 0 <= cpb c -> wf_in i -> calc_change c i = Ok outs ->
  Forall valid_amount outs
  /\ (cc_respect i = true ->
      Forall (fun v => (coin v < two32z \/ min_ada (cpb c) (out_size (plain (cc_addr i) v)) <= two32z) ->
                       min_ada (cpb c) (out_size (plain (cc_addr i) v)) <= coin v) outs)
  /\ Zsum (map coin outs) = coin (provided_of i) - coin (requested_of i)
  /\ (forall p n, msum (map massets outs) p n
                  = content (massets (provided_of i)) p n - content (massets (requested_of i)) p n).
Proof. exact calc_change_outputs. Qed.
Print Assumptions C08_outputs.

(* Every change value fits max_val_size (full statement since fix c8b4af1: the packer sizes every part with
   max(minimum ADA, ADA of the whole change) and no output receives more than the latter; before, the last output could
   exceed by 4 bytes — former findings last-change-plus-4-bytes / small-cpb-coin-width, see the Examples
   size_plus4_fixed / size_small_cpb_fixed in ChangeProofs.v).
   Premises: every single asset and the bare coin fit (C08_single_fits_in_range / C08_base_fits_in_range discharge them
   for max_val_size >= 85), and the change holds less than 2^64 lovelace (the ledger's coin is a 64-bit word). *)
Theorem C08_size : forall c i change outs, 0 <= cpb c -> wf_in i -> change_of i = Ok change ->
  singles_fit c (cc_addr i) (coin change) (massets change) ->
  fit c (cc_addr i) (coin change) (mkValue (coin change) []) ->
  coin change < two64z -> calc_change c i = Ok outs ->
  Forall (fun v => vsize v <= max_val_size c) outs.
Proof. exact calc_change_sizes. Qed.
Print Assumptions C08_size.

(* the premise "every single asset fits" is needed, but only OUTSIDE the property's range (max_val_size = 60):
   the packer refuses an oversized asset only when it is the last one of its policy *)
Lemma C08_size_oversized_single_out_of_range_refuted :
  exists outs v, max_val_size wo_cfg < 85 /\ calc_change wo_cfg wo_in = Ok outs /\ In v outs
                 /\ max_val_size wo_cfg < vsize v.
Proof. exact size_oversized_single_out_of_range. Qed.
Print Assumptions C08_size_oversized_single_out_of_range_refuted.

(* If the minimum cannot be met the builder refuses, and it refuses with InsufficientUTxOBalanceException ONLY then:
   ADA-only change: below the minimum of the change output; token change: below the sum of the minimums of all
   change outputs (respect_min_utxo) / of all but the last (merge mode, where only negative ADA is refused). *)
Theorem C08_refuses : forall c i change, 0 <= cpb c -> change_of i = Ok change ->
  (is_nil (massets change) = true ->
     (calc_change c i = Err EInsufficient
      <-> cc_respect i = true /\ coin change < min_lovelace c (plain (cc_addr i) change)))
  /\ (forall arr, is_nil (massets change) = false -> pack_tokens c (cc_addr i) change = Ok arr ->
        (calc_change c i = Err EInsufficient
         <-> coin change < Zsum (map (mn c (cc_addr i)) (if cc_respect i then arr else removelast arr)))).
Proof. exact calc_change_refuses. Qed.
Print Assumptions C08_refuses.

(* _add_change_and_fee (both passes, merge_change on/off): every output of the result is valid; the change is either
   merged into ONE existing output or appended, and every appended change output holds its own minimum ADA — in merge
   mode unconditionally (fix f703c57 checks the exact minimum), otherwise under the premise of C08_outputs. *)
Theorem C08_add_change : forall c a outs, 0 <= cpb c ->
  Forall wf_out (ac_outputs a) -> Forall wfv (ac_inputs a) -> wfm (ac_mint a) ->
  add_change c a = Ok outs ->
  Forall (fun o => valid_amount (o_val o)) outs
  /\ ((exists k ch, outs = merge_at k ch (ac_outputs a))
      \/ exists changes, outs = ac_outputs a ++ map (plain (ac_addr a)) changes
           /\ Forall (fun v => (ac_merge a = true \/ coin v < two32z
                                \/ min_ada (cpb c) (out_size (plain (ac_addr a) v)) <= two32z) ->
                               min_ada (cpb c) (out_size (plain (ac_addr a) v)) <= coin v) changes).
Proof. exact add_change_outputs. Qed.
Print Assumptions C08_add_change.

(* Serialization refuses negative quantities at any nesting level: an output is refused exactly when its ADA or one
   of its quantities is negative; a body (hence a transaction) holding such an output in `outputs` or as
   `collateral_return` is refused (TransactionBody.validate calls super().validate(), fix b6c39dd); bodies without
   negatives and with mint in int64 range pass. *)
Theorem C08_ser_output : forall v, out_invalid v = true <-> negative_anywhere v.
Proof. exact out_invalid_iff. Qed.
Print Assumptions C08_ser_output.

Theorem C08_ser_nested : forall b v, (In v (b_outputs b) \/ b_collateral_return b = Some v) -> negative_anywhere v ->
  body_validate b = Err EInvalidData.
Proof. exact body_refuses. Qed.
Print Assumptions C08_ser_nested.

Theorem C08_ser_accepts : forall b,
  (forall v, In v (b_outputs b) \/ b_collateral_return b = Some v -> ~ negative_anywhere v) ->
  m_count out_of_i64 (b_mint b) = 0 -> body_validate b = Ok tt.
Proof. exact body_accepts. Qed.
Print Assumptions C08_ser_accepts.

(* The min-ADA utility returns the ledger formula for the map form of the output it is given (1 ADA standing in for an
   amount of 0 ADA, on a copy). The model is a pure function of the output, so "does not modify its argument" is not a
   Coq statement here: it is monitored on the implementation by snapshots before/after every call (driver). *)
Theorem C08_minada_fn : forall c o,
  min_lovelace c o = min_ada (cpb c) (out_size (mkOut (o_addr o) (subst_coin (o_val o)) (o_datum o) (o_script o)))
  /\ (coin (o_val o) <> 0 -> min_lovelace c o = min_ada (cpb c) (out_size o)).
Proof. exact min_lovelace_is_formula. Qed.
Print Assumptions C08_minada_fn.

(* What the utility answers for an output WITHOUT ADA (the way the builder asks for the minimum of every token change
   bundle): the answer, put into that output (with_coin), passes the ledger's acceptance test
   ledger_accepts cpb o = (cpb * (160 + |map form of o|) <= coin o) — for every address, bundle, datum, reference script
   and per-byte price, as long as the answer needs at most 5 bytes like the 1 ADA that stood in for it (every
   realistic parameter set; the premise is needed: C08_minada_zero_needs_premise). *)
Theorem C08_minada_zero_accepted : forall c o, 0 <= cpb c -> coin (o_val o) = 0 -> min_lovelace c o < 4294967296 ->
  ledger_accepts (cpb c) (with_coin o (min_lovelace c o)) = true.
Proof. exact min_lovelace_sufficient. Qed.
Print Assumptions C08_minada_zero_accepted.

Lemma C08_minada_zero_needs_premise :
  exists c o, 0 <= cpb c /\ coin (o_val o) = 0 /\ 4294967296 <= min_lovelace c o
              /\ ledger_accepts (cpb c) (with_coin o (min_lovelace c o)) = false.
Proof. exact min_lovelace_sufficient_needs_premise. Qed.
Print Assumptions C08_minada_zero_needs_premise.

(* Protocol parameter variants: of the parameters a chain context reports (pparams: coins_per_utxo_byte, max_val_size
   and the legacy min_utxo / coins_per_utxo_word, which real backends fill with 1 ADA, the per-byte price, 34482, 0 or
   nothing) the minimum ADA depends on coins_per_utxo_byte only, and change construction on coins_per_utxo_byte and
   max_val_size only. (The model reads them through cfg_of; that the CODE does not read the others is what the
   correspondence run checks, with these fields varied on every kind of case.) *)
Theorem C08_minada_params : forall p q o, pp_cpb p = pp_cpb q -> min_lovelace_pp p o = min_lovelace_pp q o.
Proof. exact min_lovelace_params. Qed.
Print Assumptions C08_minada_params.

Theorem C08_change_params : forall p q, pp_cpb p = pp_cpb q -> pp_mvs p = pp_mvs q ->
  cfg_of p = cfg_of q
  /\ (forall i, calc_change (cfg_of p) i = calc_change (cfg_of q) i)
  /\ (forall a, add_change (cfg_of p) a = add_change (cfg_of q) a)
  /\ (forall addr ch, pack_tokens (cfg_of p) addr ch = pack_tokens (cfg_of q) addr ch).
Proof. exact change_params. Qed.
Print Assumptions C08_change_params.
