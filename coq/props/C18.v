(* C18 — Plutus data is encoded the way the ledger's Plutus codec encodes it.
   Statements only; proofs are in PyC.PlutusProofs / PyC.PlutusGenProofs.
   Vocabulary (PyC.Plutus): data = Constr | Map | List | I | Bs;  plutus_ref : data -> cbor is the reference
   encoder transcribed from the ledger codec; plutus_bytes d = enc (plutus_ref d);  pv = Python values
   (PObj = instance of a typed PlutusData class described by ty, PRaw = RawPlutusData, PTag = CBORTag, PIList =
   IndefiniteList, PBStr = ByteString);  abs : pv -> data is the content of a Python value;  to_cbor,
   typed_from_cbor, raw_from_cbor, raw_from_dict, t_dict/r_dict (to_dict), t_undict pp/r_undict (from_dict; pp = string annotations) model
   pycardano;  m_dec / m_todict / m_json_rt / m_fromdict (PyC.PlutusOracle) are the composite routes.
   Every premise is a decidable boolean (PyC.PlutusOracle) except wf (all lengths and ids fit a 64-bit head). *)
From Coq Require Import NArith ZArith String List Bool.
From PyC Require Import Base Cbor Plutus PlutusOracle PlutusProofs PlutusGenProofs.
From PyCGen Require PlutusGen.
Import ListNotations.
Open Scope N_scope.

(* ---- tie: the two tag functions, re-translated from the current source on every run, are the model ---- *)
Theorem C18_tag_gen :
  (forall i : N, PlutusGen.get_tag (Z.of_N i) = option_map Z.of_N (get_tag i))
  /\ (forall z : Z, (z < 0)%Z -> PlutusGen.get_tag z = None)
  /\ (forall t len : N, interp_gres (PlutusGen.get_constructor_id_and_fields (Z.of_N t) (Z.of_N len)) = untag t len).
Proof. exact (conj gen_get_tag (conj gen_get_tag_neg gen_untag)). Qed.
Print Assumptions C18_tag_gen.

(* ---- constructor id <-> tag: get_tag is the specification; its image is 121-127 and 1280-1400, disjoint from
   102; it is injective and onto; decoding a compact tag gives the id back (ledger decoder and pycardano's);
   ids >= 128 have no compact tag; the ledger decoder accepts nothing outside the image;
   and at the level of whole data values: the content of the canonical Python shape of d is d ---- *)
Theorem C18_tag_bij :
  (forall i, get_tag i = tag_spec i)
  /\ (forall i t, tag_spec i = Some t -> (i < 7 /\ t = 121 + i) \/ (7 <= i < 128 /\ t = 1280 + (i - 7)))
  /\ (forall i t, tag_spec i = Some t -> (121 <= t <= 127 \/ 1280 <= t <= 1400) /\ t <> 102)
  /\ (forall i, tag_spec i = None <-> 128 <= i)
  /\ (forall i j t, tag_spec i = Some t -> tag_spec j = Some t -> i = j)
  /\ (forall t, 121 <= t <= 127 \/ 1280 <= t <= 1400 -> exists i, tag_spec i = Some t)
  /\ (forall i t len, tag_spec i = Some t -> untag_spec t len = UWhole i /\ untag t len = UWhole i)
  /\ (forall t len i, untag_spec t len = UWhole i -> tag_spec i = Some t)
  /\ (forall d, abs (raw_canon d) = d) /\ (forall d, abs (raw_dec d) = d).
Proof.
  exact (conj get_tag_spec (conj tag_spec_some (conj tag_spec_ranges (conj tag_spec_none (conj tag_spec_inj
        (conj tag_spec_onto (conj (fun i t len H => conj (untag_spec_tag i t len H) (untag_tag i t len H))
        (conj untag_spec_accepts (conj abs_raw_canon abs_raw_dec))))))))).
Qed.
Print Assumptions C18_tag_bij.

(* pycardano's decoder agrees with the ledger's on every tag except 1401..1535, where it is refuted:
   tag 1500 is read as constructor 227, whose only canonical form is tag 102 *)
Theorem C18_untag_partial : forall t len, t <= 1400 \/ 1536 <= t -> untag t len = untag_spec t len.
Proof. exact untag_sound. Qed.
Print Assumptions C18_untag_partial.
Theorem C18_untag_refuted : untag 1500 0 = UWhole 227 /\ untag_spec 1500 0 = URaise /\ tag_spec 227 = None.
Proof. exact untag_refuted. Qed.
Print Assumptions C18_untag_refuted.

(* ---- typed dataclasses: an object in canonical Python shape (IndefiniteList exactly for the non-empty lists,
   plain bytes of at most 64 bytes, dict keys that are int / bytes / ByteString or INSTANCES OF TYPED CLASSES built
   from such keys again (hkey: Map Credential Integer, Dict[Slot, ..]; any constructor id, with or without fields,
   nested) and that differ pairwise in content, canonical raw data inside Datum / IndefiniteList fields, integers
   below 2^512) that passes pycardano's own validate() encodes to exactly the reference bytes of its content — for
   every class description and value.  In particular the field list of a constructor used as a map KEY is
   written with indefinite length (to_primitive freezes keys; the frozen lists keep their kind).
   Changed with the extension to class-instance keys: canon_typed now admits such keys (it admitted int / bytes /
   ByteString keys only) and asks for keys that differ in content (abs) instead of keys that differ as Python
   values; the conclusion is unchanged. ---- *)
Theorem C18_typed : forall x, canon_typed x = true -> validate x = true -> to_cbor x = Ok (plutus_bytes (abs x)).
Proof. exact typed_enc. Qed.
Print Assumptions C18_typed.

(* from_cbor of the reference bytes returns the object and encoding it gives the bytes back, for every class whose
   values from_primitive rebuilds exactly (rt_exact: nested classes, unions of classes with distinct ids, dicts,
   ByteString, bare IndefiniteList and Datum fields holding decoder-shaped raw data, List[...] fields only when
   empty).  Partial: a non-empty List[...] field comes back as a Python list and re-encodes definite
   (C18_typed_list_rt_refuted). *)
Theorem C18_typed_rt_partial : forall id fts fs,
  let x := PObj id fts fs in
  rt_exact (TCls id fts) x = true -> canon_typed x = true -> validate x = true ->
  wf (plutus_ref (abs x)) -> hollow_keys (abs x) = true -> nodup_keys (abs x) = true ->
  typed_from_cbor id fts (plutus_bytes (abs x)) = Ok x /\ to_cbor x = Ok (plutus_bytes (abs x)).
Proof. exact typed_rt. Qed.
Print Assumptions C18_typed_rt_partial.

(* to_dict of a canonically shaped typed object is the reference JSON of its content (no bare CBORTag outside
   RawPlutusData: C18_typed_to_dict_tag_refuted) *)
Theorem C18_typed_to_dict : forall v,
  canon_typed v = true -> no_tag_outside_raw v = true -> vshape v_raw_nolistkeys v = true ->
  t_dict v = Ok (json_of (abs v)).
Proof. exact typed_todict. Qed.
Print Assumptions C18_typed_to_dict.

(* ---- raw data ---- *)
(* RawPlutusData over the canonical Python shape, and over plain Python lists (normalised by to_primitive) *)
Theorem C18_raw_build : forall d,
  ints_ok d = true -> nodup_keys d = true -> atom_keys d = true -> top_bytes_le 64 d = true -> top_not_empty_list d = true ->
  to_cbor (PRaw (pynorm (raw_canon d))) = Ok (plutus_bytes d).
Proof. exact raw_build_canon. Qed.
Print Assumptions C18_raw_build.
Theorem C18_raw_build_pylist : forall d,
  ints_ok d = true -> nodup_keys d = true -> top_bytes_le 64 d = true -> top_not_empty_list d = true -> pysound d = true ->
  to_cbor (PRaw (pynorm (raw_py_top d))) = Ok (plutus_bytes d).
Proof. exact raw_build_py. Qed.
Print Assumptions C18_raw_build_pylist.

(* decode the reference bytes and encode again. Partial: byte strings over 64 bytes are flattened by the decoder,
   a top-level empty list is rejected, keys holding an indefinite list cannot be hashed, duplicate keys collapse,
   bignums over 64 bytes are not chunked — each refuted below *)
Theorem C18_raw_reenc_partial : forall d,
  wf (plutus_ref d) -> top_not_empty_list d = true -> hollow_keys d = true -> nodup_keys d = true ->
  ints_ok d = true -> no_long_bytes d = true ->
  m_dec d = Ok (plutus_bytes d).
Proof. exact raw_reenc. Qed.
Print Assumptions C18_raw_reenc_partial.

(* the datum hash is a function of these bytes: whatever the hash function *)
Theorem C18_hash_preserved : forall (H : bytes -> bytes) d,
  wf (plutus_ref d) -> top_not_empty_list d = true -> hollow_keys d = true -> nodup_keys d = true ->
  ints_ok d = true -> no_long_bytes d = true ->
  (do b <- m_dec d; Ok (H b)) = Ok (H (plutus_bytes d)).
Proof. exact hash_preserved. Qed.
Print Assumptions C18_hash_preserved.

(* to_dict of the decoded object is the reference JSON (long byte strings included) *)
Theorem C18_raw_to_dict : forall d,
  wf (plutus_ref d) -> top_not_empty_list d = true -> hollow_keys d = true -> nodup_keys d = true -> no_list_keys d = true ->
  m_todict d = Ok (json_of d).
Proof. exact raw_todict. Qed.
Print Assumptions C18_raw_to_dict.

(* the JSON route: from_dict of the reference JSON, and decode -> to_dict -> from_dict -> encode.
   Partial: jsound d (no empty list, no empty-field constructor >= 128, no constructor with fields below a list or
   below a constructor >= 128), int/bytes keys, top-level bytes of at most 32 bytes *)
Theorem C18_json_partial : forall d,
  jsound d = true -> ints_ok d = true -> atom_keys d = true -> nodup_keys d = true -> top_bytes_le 32 d = true ->
  m_fromdict d = Ok (plutus_bytes d)
  /\ (wf (plutus_ref d) -> top_not_empty_list d = true -> m_json_rt d = OB (Ok (plutus_bytes d))).
Proof. exact json_partial. Qed.
Print Assumptions C18_json_partial.

(* ---- long-bytes guard: constructing a typed object with plain bytes over 64 bytes in a field fails ---- *)
Theorem C18_long_guard : forall id fts vals b,
  (length fts <= length vals)%nat -> In (PBytes b) vals -> (64 < length b)%nat -> mk_obj id fts vals = Err E_InvArg.
Proof. exact long_guard. Qed.
Print Assumptions C18_long_guard.

(* the guard is a function of the field VALUES alone: for every list of declared field types fts (bytes, Datum,
   Union[..], Dict[..], the unevaluated strings of postponed annotations -- fts is universally quantified and does
   not occur on the right-hand sides) the constructor refuses exactly the value lists that hold plain bytes over
   64 bytes, and builds the object otherwise *)
Theorem C18_long_guard_iff : forall id fts vals,
  (length fts <= length vals)%nat ->
  (mk_obj id fts vals = Err E_InvArg <-> exists b, In (PBytes b) vals /\ (64 < length b)%nat)
  /\ (mk_obj id fts vals = Ok (PObj id fts vals) <-> ~ exists b, In (PBytes b) vals /\ (64 < length b)%nat).
Proof. exact guard_iff. Qed.
Print Assumptions C18_long_guard_iff.

(* why the guard has to refuse: an object with plain bytes over 64 bytes in a field, whatever the field's declared
   type, cannot encode to the reference bytes of its content (cbor2 writes one definite string, the ledger codec
   64-byte chunks) -- so "refuse or canonical" leaves only "refuse" *)
Theorem C18_long_guard_needed : forall id fts fs b c,
  In (PBytes b) fs -> (64 < length b)%nat ->
  dumps (to_prim (PObj id fts fs)) = Ok c -> wf c -> wf (plutus_ref (abs (PObj id fts fs))) ->
  enc c <> plutus_bytes (abs (PObj id fts fs)).
Proof. exact guard_needed. Qed.
Print Assumptions C18_long_guard_needed.

(* witnesses per declared type (bytes, Datum, Union with bytes first / last, Dict[int, int]): the constructor
   refuses 65 plain bytes; the object, did it exist, would pass validate() and write other bytes;  and the decode
   side: the reference bytes of that content are refused by the class as well (the decoder joins the chunks into
   plain bytes and the constructor's guard fires), while a Union[ByteString, ..] field takes them *)
Theorem C18_long_guard_witnesses :
  (guard_witness TBytes /\ guard_witness TDatum /\ guard_witness (TUnion [TBytes; T_in])
   /\ guard_witness (TUnion [T_in; TBytes]) /\ guard_witness (TDict TInt TInt))
  /\ typed_from_cbor 0 [TBytes] (plutus_bytes (Constr 0 [Bs b65])) = Err E_InvArg
  /\ typed_from_cbor 0 [TDatum] (plutus_bytes (Constr 0 [Bs b65])) = Err E_InvArg
  /\ typed_from_cbor 0 [TUnion [T_in; TBytes]] (plutus_bytes (Constr 0 [Bs b65])) = Err E_InvArg
  /\ typed_from_cbor 0 [TUnion [TBStr; T_in]] (plutus_bytes (Constr 0 [Bs b65])) = Ok (PObj 0 [TUnion [TBStr; T_in]] [PBStr b65]).
Proof. exact (conj guard_witnesses guard_decode_witnesses). Qed.
Print Assumptions C18_long_guard_witnesses.

(* ---- postponed annotations (`from __future__ import annotations`): from_dict reads dataclasses.Field.type raw, a
   string until from_primitive has run on the class.  For a class whose fields are all declared int / bytes /
   ByteString / IndefiniteList every route of the model is the same with and without string annotations; with a
   class-typed field the JSON route is refuted (C18_typed_json_postponed_refuted) ---- *)
Theorem C18_postponed_atomic : forall route id fts x,
  forallb atomic_ty fts = true -> typed_model route true (TCls id fts) x = typed_model route false (TCls id fts) x.
Proof. exact typed_model_pp_atomic. Qed.
Print Assumptions C18_postponed_atomic.

(* ---- the region classifier used by the correspondence run is sound: a route outside every known region gives,
   in the model, exactly what the property demands (so a failing implementation output there is a violation).
   Changed with the extension to postponed annotations: typed_region / typed_model take the declaration mode pp
   (universally quantified here); the premises now include guard_ok x (region long-bytes-guard-bypassed) ---- *)
Theorem C18_regions_sound :
  (forall route d, wf (plutus_ref d) -> (route <= 8)%nat -> raw_region route d = RG_none ->
                   raw_model route d = raw_expect route d)
  /\ (forall route pp t x, (route <= 1)%nat -> validate x = true -> typed_region route pp t x = RG_none ->
                        typed_model route pp t x = typed_expect route x).
Proof. exact (conj raw_region_sound typed_region_sound). Qed.
Print Assumptions C18_regions_sound.

(* ---- anchor for maps keyed by class instances: the object
     Schedule({Slot(400,7): [1,2], Slot(3,2^32): [b"x"]}, {Cred(03..): -1, Cred(11..): 3})   (Slot = constructor 1000)
   is inside the premises of C18_typed, its reference bytes are the literal below (produced by an independent
   transcription of encodeData), and to_cbor yields them ---- *)
Theorem C18_typed_objkey_anchor :
  canon_typed x_objkey = true /\ validate x_objkey = true
  /\ plutus_bytes (abs x_objkey) = objkey_bytes /\ to_cbor x_objkey = Ok objkey_bytes.
Proof. exact objkey_anchor. Qed.
Print Assumptions C18_typed_objkey_anchor.

(* ---- anchor: the reference encoder reproduces the Haskell-generated fixture byte for byte ---- *)
Theorem C18_reference_anchor :
  plutus_bytes fix_d = hx "d87a9f581cc2ff616e11299d9094ce0a7eb5b7284b705147a822f4ffbd471f971a1b0000017e9874d2a0d905019fd8668218829f187b44313233349f040506ffa2014131024132ffffd9050280ff".
Proof. exact fixture_bytes. Qed.
Print Assumptions C18_reference_anchor.

(* ---- refuted on the pinned tree (faithful model, concrete witnesses; `differs r d` = r succeeds with other bytes) ---- *)
Theorem C18_chunk_refuted : differs (m_dec (List [Bs b65])) (List [Bs b65]).
Proof. exact chunk_refuted. Qed.
Print Assumptions C18_chunk_refuted.
Theorem C18_json_nested_refuted : differs (m_fromdict (List [Constr 0 [I 1]])) (List [Constr 0 [I 1]]).
Proof. exact json_nested_refuted. Qed.
Print Assumptions C18_json_nested_refuted.
Theorem C18_json_empty_list_refuted : differs (m_fromdict (Constr 0 [List []])) (Constr 0 [List []]).
Proof. exact json_empty_list_refuted. Qed.
Print Assumptions C18_json_empty_list_refuted.
Theorem C18_json_empty_102_refuted : differs (m_fromdict (Constr 200 [])) (Constr 200 []).
Proof. exact json_empty_102_refuted. Qed.
Print Assumptions C18_json_empty_102_refuted.
Theorem C18_pylist_under_indefinite_refuted :
  differs (to_cbor (PRaw (raw_py_top (List [List [I 1]])))) (List [List [I 1]]).
Proof. exact norecurse_build_refuted. Qed.
Print Assumptions C18_pylist_under_indefinite_refuted.
Theorem C18_top_empty_list_refuted : raw_from_cbor (plutus_bytes (List [])) = Err E_Deser.
Proof. exact top_empty_list_refuted. Qed.
Print Assumptions C18_top_empty_list_refuted.
Theorem C18_top_bytestring_refuted : m_fromdict (Bs (repeat Byte.x01 33)) = Err E_Type.
Proof. exact top_bytestring_refuted. Qed.
Print Assumptions C18_top_bytestring_refuted.
Theorem C18_key_decode_refuted : m_dec (Map [(Constr 0 [I 1], I 1)]) = Err E_Type.
Proof. exact key_decode_refuted. Qed.
Print Assumptions C18_key_decode_refuted.
Theorem C18_key_build_refuted : m_fromdict (Map [(Constr 0 [], I 1)]) = Err E_Type.
Proof. exact key_build_refuted. Qed.
Print Assumptions C18_key_build_refuted.
Theorem C18_key_list_to_dict_refuted : m_todict (Map [(List [], I 1)]) = Err E_Type.
Proof. exact key_list_to_dict_refuted. Qed.
Print Assumptions C18_key_list_to_dict_refuted.
Theorem C18_dup_keys_refuted : differs (m_dec (Map [(I 1, I 2); (I 1, I 3)])) (Map [(I 1, I 2); (I 1, I 3)]).
Proof. exact dup_keys_refuted. Qed.
Print Assumptions C18_dup_keys_refuted.
Theorem C18_bigint_refuted : differs (m_dec (List [I (2 ^ 512)])) (List [I (2 ^ 512)]).
Proof. exact bigint_refuted. Qed.
Print Assumptions C18_bigint_refuted.
Theorem C18_typed_pylist_refuted : differs (to_cbor x_pylist) (abs x_pylist).
Proof. exact typed_pylist_refuted. Qed.
Print Assumptions C18_typed_pylist_refuted.
Theorem C18_typed_empty_ilist_refuted : differs (to_cbor (PObj 1 [TList TInt] [PIList []])) (Constr 1 [List []]).
Proof. exact typed_empty_ilist_refuted. Qed.
Print Assumptions C18_typed_empty_ilist_refuted.
Theorem C18_typed_list_rt_refuted :
  to_cbor x_ilist = Ok (plutus_bytes (abs x_ilist)) /\
  differs (do y <- typed_from_cbor 1 [TList TInt] (plutus_bytes (abs x_ilist)); to_cbor y) (abs x_ilist).
Proof. exact typed_list_rt_refuted. Qed.
Print Assumptions C18_typed_list_rt_refuted.
Theorem C18_typed_json_bytes_refuted :
  let x := PObj 0 [TBStr] [PBStr [Byte.x61]] in
  to_cbor x = Ok (plutus_bytes (abs x)) /\ (do j <- t_dict x; do y <- t_undict false 0 [TBStr] j; to_cbor y) = Err E_Type.
Proof. exact typed_json_bytes_refuted. Qed.
Print Assumptions C18_typed_json_bytes_refuted.
Theorem C18_typed_json_nested_refuted :
  let x := PObj 5 [TList (TList (TCls 2 [TInt]))] [PIList [PIList [PObj 2 [TInt] [PInt 3]]]] in
  to_cbor x = Ok (plutus_bytes (abs x)) /\
  (do j <- t_dict x; do y <- t_undict false 5 [TList (TList (TCls 2 [TInt]))] j; to_cbor y) = Err E_Deser.
Proof. exact typed_json_nested_refuted. Qed.
Print Assumptions C18_typed_json_nested_refuted.
Theorem C18_typed_long_in_container_refuted :
  let x := PObj 1 [TList TBytes] [PIList [PBytes b65]] in validate x = true /\ differs (to_cbor x) (abs x).
Proof. exact typed_long_in_container_refuted. Qed.
Print Assumptions C18_typed_long_in_container_refuted.
Theorem C18_typed_to_dict_tag_refuted : t_dict (PObj 3 [TIList] [PIList [PTag 121 (PList [])]]) = Err E_Type.
Proof. exact typed_to_dict_tag_refuted. Qed.
Print Assumptions C18_typed_to_dict_tag_refuted.
Theorem C18_typed_chunk_refuted :
  let x := PObj 3 [TIList] [PIList [PBStr b65]] in
  to_cbor x = Ok (plutus_bytes (abs x)) /\
  differs (do y <- typed_from_cbor 3 [TIList] (plutus_bytes (abs x)); to_cbor y) (abs x).
Proof. exact typed_datum_chunk_refuted. Qed.
Print Assumptions C18_typed_chunk_refuted.
(* a Union-typed field holding an int / bytes value: from_dict looks for f["constructor"] (KeyError), or finds no
   class alternative at all (DeserializeException); the object itself encodes correctly *)
Theorem C18_typed_json_union_prim_refuted :
  let x := PObj 0 [TUnion [TBytes; T_in]] [PBytes [Byte.x61]] in
  let y := PObj 0 [TUnion [TBytes; TInt]] [PBytes [Byte.x61]] in
  to_cbor x = Ok (plutus_bytes (abs x))
  /\ (do j <- t_dict x; do z <- t_undict false 0 [TUnion [TBytes; T_in]] j; to_cbor z) = Err E_Key
  /\ to_cbor y = Ok (plutus_bytes (abs y))
  /\ (do j <- t_dict y; do z <- t_undict false 0 [TUnion [TBytes; TInt]] j; to_cbor z) = Err E_Deser.
Proof. exact typed_json_union_prim_refuted. Qed.
Print Assumptions C18_typed_json_union_prim_refuted.
(* the same class and value, declared with evaluated / with postponed (string) annotations: the JSON route works /
   raises DeserializeException (the nested constructor is converted by the outer class's generic _dfs) *)
Theorem C18_typed_json_postponed_refuted :
  let x := PObj 0 [T_in] [PObj 1 [TInt] [PInt 1]] in
  to_cbor x = Ok (plutus_bytes (abs x))
  /\ (do j <- t_dict x; do z <- t_undict false 0 [T_in] j; to_cbor z) = Ok (plutus_bytes (abs x))
  /\ (do j <- t_dict x; do z <- t_undict true 0 [T_in] j; to_cbor z) = Err E_Deser.
Proof. exact typed_json_postponed_refuted. Qed.
Print Assumptions C18_typed_json_postponed_refuted.
