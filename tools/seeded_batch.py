#!/usr/bin/env python3
"""Import sub-agent defects and evaluate seeded defects side by side.

  python3 tools/seeded_batch.py import <srcdir> ...        srcdir = <id>/ with patch.diff, demo.py, notes.json -> seeded/<id>/
  python3 tools/seeded_batch.py eval [--slots 4] [--tests] [--note TEXT] <id> ...

eval runs tools/seeded_eval.py (scratch worktree + VERIF_REPO, private copy of /verif per slot) and records the outcome in
seeded/<id>/meta.json: what_i_ran.first_evaluation when the defect was never evaluated, otherwise what_i_ran.after_strengthening
(+ strengthened_by = --note)."""
import argparse, json, os, shutil, subprocess, sys
from concurrent.futures import ThreadPoolExecutor
V = os.path.dirname(os.path.dirname(os.path.abspath(__file__)))


def do_import(src):
    sid = os.path.basename(os.path.normpath(src))
    if not all(os.path.exists(os.path.join(src, f)) for f in ('patch.diff', 'demo.py', 'notes.json')):
        print('incomplete', sid); return
    dst = os.path.join(V, 'seeded', sid)
    os.makedirs(dst, exist_ok=True)
    for f in ('patch.diff', 'demo.py'):
        shutil.copy(os.path.join(src, f), os.path.join(dst, f))
    n = json.load(open(os.path.join(src, 'notes.json')))
    rnd = int(sid.split('-r')[1][0]) if '-r' in sid else 1
    meta = {'id': sid, 'property': sid.split('-')[0], 'round': rnd, 'title': n.get('title'),
            'what_it_needs_to_manifest': n.get('what_it_needs_to_manifest'), 'files_touched': n.get('files_touched'),
            'why_tests_miss_it': n.get('why_tests_miss_it'),
            'origin': f'fresh sub-agent (round {rnd}) given only the property text, the titles of earlier seeded changes and a scratch worktree of /repo'}
    json.dump(meta, open(os.path.join(dst, 'meta.json'), 'w'), indent=1)
    print('imported', sid)


def do_eval(sid, slot, tests, note):
    d = os.path.join(V, 'seeded', sid)
    cmd = ['python3', os.path.join(V, 'tools', 'seeded_eval.py'), d, '--slot', str(slot)] + ([] if tests else ['--skip-tests'])
    p = subprocess.run(cmd, stdout=subprocess.PIPE, stderr=subprocess.STDOUT, text=True)
    out = p.stdout
    try:
        s = json.loads(out[out.index('{'):])
    except Exception:
        print(sid, 'EVAL ERROR', out[-500:]); return
    mp = os.path.join(d, 'meta.json')
    meta = json.load(open(mp))
    w = meta.setdefault('what_i_ran', {})
    ev = {p_: {'verdict': c['verdict'].replace(f'/tmp/vslot_{slot}/', ''), 'wall_s': c['wall_s']} for p_, c in s['checks'].items()}
    w.setdefault('cmd', 'python3 tools/seeded_eval.py seeded/%s (scratch worktree, patch applied; demo on clean tree, demo on patched tree, '
                 'pinned test suite on patched tree, check quick with VERIF_REPO=<patched tree>)' % sid)
    for k in ('demo_clean', 'demo_patched'):
        w[k] = s.get(k)
    if 'stable_tests_not_passing' in s:
        w['stable_tests_not_passing'] = s['stable_tests_not_passing']
    if 'first_evaluation' not in w:
        w['first_evaluation'] = ev; w['caught_at_first_evaluation'] = s['caught']
    else:
        w['after_strengthening'] = ev; w['caught_after_strengthening'] = s['caught']
        if note:
            w['strengthened_by'] = note
    json.dump(meta, open(mp, 'w'), indent=1)
    print(sid, 'caught' if s['caught'] else 'MISSED', s.get('demo_clean'), s.get('demo_patched'), s.get('stable_tests_not_passing'),
          {k: v['verdict'][:100] for k, v in ev.items()}, flush=True)


def main():
    ap = argparse.ArgumentParser()
    ap.add_argument('mode', choices=['import', 'eval'])
    ap.add_argument('items', nargs='+')
    ap.add_argument('--slots', type=int, default=4)
    ap.add_argument('--slot-base', type=int, default=1)
    ap.add_argument('--tests', action='store_true')
    ap.add_argument('--note')
    a = ap.parse_args()
    if a.mode == 'import':
        for s in a.items:
            do_import(s)
        return
    import queue
    q = queue.Queue()
    for s in a.items:
        q.put(s)

    def worker(slot):
        while True:
            try:
                sid = q.get_nowait()
            except queue.Empty:
                return
            do_eval(sid, slot, a.tests, a.note)
    with ThreadPoolExecutor(a.slots) as ex:
        for k in range(a.slots):
            ex.submit(worker, a.slot_base + k)


if __name__ == '__main__':
    main()
