#!/usr/bin/env python3
"""MANIFEST.setup_cmd: regenerate coq/gen from /repo and build the whole Coq development (full .vo)."""
import importlib, os, sys
sys.path.insert(0, os.path.dirname(os.path.abspath(__file__)))
from lib import common as C

class Ctx:
    quick = True; tier = 'quick'; seed = 0

def main():
    for fn in sorted(os.listdir(os.path.join(C.VERIF, 'tools', 'props'))):
        if fn.startswith('c') and fn.endswith('.py') and fn[1:3].isdigit():
            mod = importlib.import_module('props.' + fn[:-3])
            if hasattr(mod, 'regen'):
                try:
                    mod.regen(Ctx())
                except Exception as e:
                    print('regen failed for', fn, e)
    ok, log, dt = C.coq_make([])
    print(log[-3000:])
    print('build ok' if ok else 'BUILD FAILED', f'{dt:.0f}s')
    sys.exit(0 if ok else 1)

if __name__ == '__main__':
    main()
