#!/usr/bin/env python3
"""Deliberate re-recording of T3 (tools/lib/fingerprints.py): the source text of every pycardano function the hand models were
validated against, and per property the functions its correspondence run executes.

  python3 tools/record_fingerprints.py            all properties (seed 0 and seed 1, merged)
  python3 tools/record_fingerprints.py C09 C14    these only (the text table is rewritten in any case)
Run it only on a tree on which every check passes."""
import json, os, subprocess, sys
from concurrent.futures import ThreadPoolExecutor
V = os.path.dirname(os.path.dirname(os.path.abspath(__file__)))
sys.path.insert(0, os.path.join(V, 'tools'))
from lib import fingerprints as FP
from lib import common as C


def one(pid):
    out = []
    for k, seed in enumerate(('0', '1')):
        env = dict(os.environ, VERIF_RECORD_REACH='1', VERIF_SEED=seed)
        if k:
            env['VERIF_REACH_MERGE'] = '1'
        p = subprocess.run(['python3', os.path.join(V, 'tools', 'check.py'), pid, '--tier', 'quick'], cwd=V, env=env,
                           stdout=subprocess.PIPE, stderr=subprocess.STDOUT, text=True)
        out.append([l for l in p.stdout.split('\n') if l.startswith(('reach recorded', 'OK ', 'VIOLATION'))])
    return pid, out


def main():
    pids = [a.upper() for a in sys.argv[1:]] or ['C%02d' % i for i in range(1, 21)]
    os.makedirs(os.path.dirname(FP.FP_FILE), exist_ok=True)
    json.dump(FP.scan_repo(C.REPO), open(FP.FP_FILE, 'w'), indent=0, sort_keys=True)
    print('text table written:', FP.FP_FILE)
    with ThreadPoolExecutor(4) as ex:
        for pid, out in ex.map(one, pids):
            print(pid, out, flush=True)


if __name__ == '__main__':
    main()
