"""C06 driver: prepares real TransactionBuilder objects from literal scenarios and runs
   * kind 'e2e'  : the public API (add_input / add_input_address / add_output / mint / withdrawals / certificates /
                   add_proposal / add_treasury_donation) and TransactionBuilder.build(change_address=..., merge_change=...);
                   returns the CBOR of the RETURNED BODY.  While build runs, thin recording wrappers (which call the
                   real methods) note what _estimate_fee, _pack_tokens_for_change and the UTxO selectors returned /
                   were asked (request, the pool of UTxOs offered, the answer), so that the Coq model can be compared step
                   by step; the module-level `random` (drawn from by RandomImproveMultiAsset) is seeded with case['rseed']
                   right before build(), case['excluded'] = indices of excluded_inputs;
   * kind 'calc' : the private methods _get_total_key_deposit, _get_total_proposal_deposit and _calc_change on a prepared
                   builder (every listed UTxO is an input);
   * kind 'pack' : _pack_tokens_for_change(address, Value, max_val_size);
   * kind 'prep' : hashes of the native scripts used as minting policies.

 literals: ma = [[policy_hex, [[name_hex, qty], ...]], ...];  address = hex of the raw address bytes;
 utxo = {t: txid_hex, i: index, a: address_hex, c: coin, m: ma};  cert = [tag, ...] (see mk_cert).
"""
from _pre import *
from copy import deepcopy
import random as _random
from fractions import Fraction
import pycardano as pc
from pycardano import (Address, Asset, AssetName, MultiAsset, ScriptHash, TransactionBuilder, TransactionInput,
                       TransactionOutput, UTxO, Value, VerificationKeyHash, Withdrawals)
from pycardano.backend.base import ChainContext, ProtocolParameters
from pycardano.certificate import (Anchor, AuthCommitteeHotCertificate, DRep, DRepCredential, DRepKind, PoolRegistration,
                                   PoolRetirement, RegDRepCert, ResignCommitteeColdCertificate, StakeAndVoteDelegation,
                                   StakeCredential, StakeDelegation, StakeDeregistration, StakeDeregistrationConway,
                                   StakeRegistration, StakeRegistrationAndDelegation,
                                   StakeRegistrationAndDelegationAndVoteDelegation, StakeRegistrationAndVoteDelegation,
                                   StakeRegistrationConway, UnregDRepCertificate, UpdateDRepCertificate, VoteDelegation)
from pycardano.coinselection import UTxOSelector, RandomImproveMultiAsset, LargestFirstSelector
from pycardano.exception import UTxOSelectionException
from pycardano.governance import InfoAction
from pycardano.hash import AnchorDataHash, PoolKeyHash, RewardAccountHash, VrfKeyHash
from pycardano.nativescript import InvalidHereAfter, ScriptAll, ScriptPubkey
from pycardano.network import Network
from pycardano.pool_params import PoolParams
from pycardano.utils import min_lovelace_post_alonzo


class Ctx(ChainContext):
    def __init__(self, pp, utxos):
        self._pp = ProtocolParameters(
            min_fee_constant=pp['b'], min_fee_coefficient=pp['a'], max_block_size=90112, max_tx_size=pp.get('mts', 16384),
            max_block_header_size=1100, key_deposit=pp['kd'], pool_deposit=pp['pd'], pool_influence=Fraction(3, 10),
            treasury_expansion=Fraction(1, 5), monetary_expansion=Fraction(3, 1000), decentralization_param=Fraction(0),
            extra_entropy="", protocol_major_version=9, protocol_minor_version=0, min_utxo=1000000,
            min_pool_cost=340000000, price_mem=Fraction(577, 10000), price_step=Fraction(721, 10000000),
            max_tx_ex_mem=14000000, max_tx_ex_steps=10000000000, max_block_ex_mem=62000000,
            max_block_ex_steps=20000000000, max_val_size=pp['mvs'], collateral_percent=150, max_collateral_inputs=3,
            coins_per_utxo_word=34482, coins_per_utxo_byte=pp['cpb'], cost_models={},
            min_fee_reference_scripts={"base": 15, "range": 25600, "multiplier": 1.2},
            maximum_reference_scripts_size={"bytes": 200000})
        self._by_addr = {}
        for u in utxos:
            self._by_addr.setdefault(str(u.output.address), []).append(u)

    @property
    def protocol_param(self):
        return self._pp

    @property
    def genesis_param(self):
        raise NotImplementedError()

    @property
    def network(self):
        return Network.TESTNET

    @property
    def epoch(self):
        return 500

    @property
    def last_block_slot(self):
        return 2000

    def _utxos(self, address):
        return list(self._by_addr.get(address, []))


SHARE = [False]      # per case: policies of one bundle whose literals are equal hold THE SAME Asset object (what
                     # `a = Asset({..}); MultiAsset({p1: a, p2: a})` builds)


def mk_ma(lit):
    ma = MultiAsset()
    seen = {}
    for p, names in lit:
        key = json.dumps(names)
        if SHARE[0] and key in seen:
            a = seen[key]
        else:
            a = Asset()
            for n, q in names:
                a[AssetName(bytes.fromhex(n))] = q
            seen[key] = a
        ma[pol(p)] = a
    return ma


def dump_ma(ma):
    return [[p.payload.hex(), [[n.payload.hex(), q] for n, q in a.data.items()]] for p, a in ma.data.items()]


def dump_val(v):
    return [v.coin, dump_ma(v.multi_asset)]


def addr(h):
    return Address.from_primitive(bytes.fromhex(h))


def mk_utxo(u):
    return wire(UTxO(TransactionInput.from_primitive([bytes.fromhex(u['t']), u['i']]),
                     TransactionOutput(addr(u['a']), Value(u['c'], mk_ma(u['m'])))))


def cred(c, cls=StakeCredential):
    h = bytes.fromhex(c[1])
    return cls(ScriptHash(h) if c[0] else VerificationKeyHash(h))


def drep(c):
    if c is None:
        return DRep(DRepKind.ALWAYS_ABSTAIN)
    h = bytes.fromhex(c[1])
    return DRep(DRepKind.SCRIPT_HASH, ScriptHash(h)) if c[0] else DRep(DRepKind.VERIFICATION_KEY_HASH, VerificationKeyHash(h))


def anchor(k):
    return Anchor(url=f"https://a.example/{k}", data_hash=AnchorDataHash(bytes([k % 256]) * 32))


def pool_params(op_hex, owners):
    return PoolParams(
        operator=PoolKeyHash(bytes.fromhex(op_hex)), vrf_keyhash=VrfKeyHash(b'\x07' * 32), pledge=100000000,
        cost=340000000, margin=Fraction(1, 50), reward_account=RewardAccountHash(b'\xe0' + bytes.fromhex(op_hex)),
        pool_owners=[VerificationKeyHash(bytes.fromhex(o)) for o in owners], relays=None, pool_metadata=None)


def mk_cert(c):
    t = c[0]
    if t == 'reg':
        return StakeRegistration(cred(c[1]))
    if t == 'dereg':
        return StakeDeregistration(cred(c[1]))
    if t == 'deleg':
        return StakeDelegation(cred(c[1]), PoolKeyHash(bytes.fromhex(c[2])))
    if t == 'poolreg':
        return PoolRegistration(pool_params(c[1], c[2]))
    if t == 'poolret':
        return PoolRetirement(PoolKeyHash(bytes.fromhex(c[1])), c[2])
    if t == 'reg7':
        return StakeRegistrationConway(cred(c[1]), c[2])
    if t == 'unreg8':
        return StakeDeregistrationConway(cred(c[1]), c[2])
    if t == 'vote9':
        return VoteDelegation(cred(c[1]), drep(c[2]))
    if t == 'svd10':
        return StakeAndVoteDelegation(cred(c[1]), PoolKeyHash(bytes.fromhex(c[2])), drep(c[3]))
    if t == 'reg11':
        return StakeRegistrationAndDelegation(cred(c[1]), PoolKeyHash(bytes.fromhex(c[2])), c[3])
    if t == 'reg12':
        return StakeRegistrationAndVoteDelegation(cred(c[1]), drep(c[2]), c[3])
    if t == 'reg13':
        return StakeRegistrationAndDelegationAndVoteDelegation(cred(c[1]), PoolKeyHash(bytes.fromhex(c[2])), drep(c[3]), c[4])
    if t == 'auth14':
        return AuthCommitteeHotCertificate(cred(c[1]), cred(c[2]))
    if t == 'resign15':
        return ResignCommitteeColdCertificate(cred(c[1]), anchor(c[2]) if c[2] is not None else None)
    if t == 'drepreg16':
        return RegDRepCert(cred(c[1], DRepCredential), c[2], anchor(c[3]) if c[3] is not None else None)
    if t == 'drepunreg17':
        return UnregDRepCertificate(cred(c[1], DRepCredential), c[2])
    if t == 'drepupd18':
        return UpdateDRepCertificate(cred(c[1], DRepCredential), anchor(c[2]) if c[2] is not None else None)
    raise ValueError(t)


def policy_script(k):
    """native script number k (the minting policies of the scenarios)"""
    vkh = VerificationKeyHash(bytes([0x50 + k]) * 28)
    if k % 2 == 0:
        return ScriptPubkey(vkh)
    return ScriptAll([ScriptPubkey(vkh), InvalidHereAfter(100000 + k)])


class RecSelector(UTxOSelector):
    """calls the real selector; records the request it was given and what it answered"""

    def __init__(self, inner, log):
        self.inner, self.log = inner, log

    def select(self, utxos, outputs, context, max_input_count=None, include_max_fee=True, respect_min_utxo=True):
        rec = {'sel': type(self.inner).__name__, 'req': [dump_val(o.amount) for o in outputs],
               'pool': [[u.input.transaction_id.payload.hex(), u.input.index] for u in utxos],
               'minutxo': bool(respect_min_utxo), 'maxfee': bool(include_max_fee)}
        self.log.append(rec)
        try:
            r = self.inner.select(utxos, outputs, context, max_input_count=max_input_count,
                                  include_max_fee=include_max_fee, respect_min_utxo=respect_min_utxo)
        except Exception as e:
            rec['res'] = ['err', err_kind(e)]
            raise
        rec['res'] = ['ok', [[u.input.transaction_id.payload.hex(), u.input.index] for u in r[0]]]
        return r


def prepare(case):
    utxos = [mk_utxo(u) for u in case['utxos']]
    ctx = long_lived(Ctx, case['pp'], utxos)
    b = TransactionBuilder(ctx)

    def s_explicit():
        for k in case.get('explicit', []):
            b.add_input(utxos[k])

    def s_potential():
        for k in case.get('potential', []):
            b.potential_inputs.append(utxos[k])

    def s_excluded():
        if case.get('excluded'):
            b.excluded_inputs = [utxos[k] for k in case['excluded']]

    def s_addr():
        for a in case.get('addr_inputs', []):
            b.add_input_address(addr(a))

    def s_outs():
        for o in case.get('outs', []):
            b.add_output(TransactionOutput(addr(o['a']), Value(o['c'], mk_ma(o['m']))))

    def s_mint():
        if case.get('mint') is not None:
            b.mint = mk_ma(case['mint'])
        if case.get('scripts'):
            b.native_scripts = [policy_script(k) for k in case['scripts']]

    def s_wdrl():
        if case.get('wdrl') is not None:
            w = Withdrawals()
            for ra, amt in case['wdrl']:
                w[bytes.fromhex(ra)] = amt
            b.withdrawals = w

    def s_certs():
        if case.get('certs') is not None:
            b.certificates = [mk_cert(c) for c in case['certs']]
        b.initial_stake_pool_registration = bool(case.get('pool_initial', False))

    def s_props():
        for k, dep in enumerate(case.get('props', [])):
            b.add_proposal(dep[0], bytes.fromhex(dep[1]), InfoAction(), anchor(dep[2]))

    def s_donation():
        if case.get('donation') is not None:
            b.add_treasury_donation(case['donation'])
            if case.get('treasury') is not None:
                b.current_treasury_value = case['treasury']

    def s_misc():
        if case.get('fee_buffer') is not None:
            b.fee_buffer = case['fee_buffer']
        if case.get('ttl') is not None:
            b.ttl = case['ttl']

    steps = [s_explicit, s_potential, s_excluded, s_addr, s_outs, s_mint, s_wdrl, s_certs, s_props, s_donation, s_misc]
    # history: the order of the builder calls is part of the scenario (a permutation of 0..10)
    for k in case.get('order') or range(len(steps)):
        steps[k]()
    return ctx, b, utxos


def instrument(b, log):
    real_est, real_pack = b._estimate_fee, b._pack_tokens_for_change

    def est():
        r = real_est()
        log['fees'].append(r)
        return r

    def pack(address, change, mvs):
        arg = dump_val(change)
        r = real_pack(address, change, mvs)
        log['packs'].append({'arg': arg, 'mvs': mvs, 'res': [dump_ma(m) for m in r]})
        return r

    b._estimate_fee = est
    b._pack_tokens_for_change = pack
    b.utxo_selectors = [RecSelector(s, log['sel']) for s in b.utxo_selectors]


def snapshot(utxos):
    return [[u.input.transaction_id.payload.hex(), u.input.index, u.output.address.to_primitive().hex(),
             dump_val(u.output.amount)] for u in utxos]


def run_e2e(case):
    SHARE[0] = bool(case.get('share'))
    ctx, b, utxos = prepare(case)
    before = snapshot(utxos)
    out = {}
    try:
        out['kd'] = b._get_total_key_deposit()
        out['pd'] = b._get_total_proposal_deposit()
    except Exception as e:
        out['kd_err'] = err_kind(e)
    log = {'fees': [], 'packs': [], 'sel': []}
    if case.get('selectors') == 'lf':                 # public configuration: builder.utxo_selectors
        b.utxo_selectors = [LargestFirstSelector()]
    elif case.get('selectors') == 'ri':
        b.utxo_selectors = [RandomImproveMultiAsset()]
    instrument(b, log)
    # the default first selector (RandomImproveMultiAsset) draws from the module-level `random`: its state is part
    # of the scenario (field rseed), so that a reported input replays to the same selection
    _random.seed(case.get('rseed', 0))
    try:
        body = b.build(change_address=addr(case['change']) if case.get('change') else None,
                       merge_change=bool(case.get('merge', False)))
        out['body'] = body.to_cbor().hex()
        out['err'] = None
        out['inputs'] = [[i.transaction_id.payload.hex(), i.index] for i in body.inputs]
        out['binputs'] = [[u.input.transaction_id.payload.hex(), u.input.index] for u in b.inputs]
        out['outs'] = [[o.address.to_primitive().hex(), dump_val(o.amount)] for o in body.outputs]
        out['fee'] = body.fee
    except Exception as e:
        out['body'] = None
        out['err'] = err_kind(e)
        out['msg'] = str(e)[:160]
    out['log'] = log
    out['pool_untouched'] = snapshot(utxos) == before
    return out


def run_calc(case):
    ctx, b, utxos = prepare(case)
    out = {}
    try:
        out['kd'] = b._get_total_key_deposit()
    except Exception as e:
        out['kd'] = None
        out['kd_err'] = err_kind(e)
    try:
        out['pd'] = b._get_total_proposal_deposit()
    except Exception as e:
        out['pd'] = None
    log = {'fees': [], 'packs': [], 'sel': []}
    instrument(b, log)
    ca = addr(case['change'])
    ins = [utxos[k] for k in case['ins']]
    try:
        chs = b._calc_change(case['fee'], ins, b.outputs, ca, precise_fee=True, respect_min_utxo=bool(case['respect']))
        out['res'] = ['ok', [dump_val(o.amount) for o in chs]]
        out['addr_ok'] = all(o.address == ca for o in chs)
    except Exception as e:
        out['res'] = ['err', err_kind(e)]
    out['packs'] = log['packs']
    return out


def run_pack(case):
    ctx, b, utxos = prepare(case)
    ca = addr(case['change'])
    v = Value(case['val'][0], mk_ma(case['val'][1]))
    try:
        r = b._pack_tokens_for_change(ca, v, case['pp']['mvs'])
        res = ['ok', [dump_ma(m) for m in r]]
    except Exception as e:
        res = ['err', err_kind(e)]
    # observations used to tie the Coq min-ADA / size functions to the code
    probes = []
    for pv in case.get('probes', []):
        pvv = Value(pv[0], mk_ma(pv[1]))
        try:
            probes.append([min_lovelace_post_alonzo(TransactionOutput(ca, pvv), ctx), len(pvv.to_cbor())])
        except Exception as e:
            probes.append(['err', err_kind(e)])
    return {'res': res, 'probes': probes}


def handler(case, payload):
    k = case['kind']
    if k == 'prep':
        return {'policies': [policy_script(i).hash().payload.hex() for i in range(case['n'])]}
    if k == 'e2e':
        return run_e2e(case)
    if k == 'calc':
        return run_calc(case)
    if k == 'pack':
        return run_pack(case)
    raise ValueError(k)


if __name__ == '__main__':
    main(handler)
