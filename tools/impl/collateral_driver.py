"""C13 driver: prepares REAL TransactionBuilders from scenarios and
  * slice mode: calls the private method `_set_collateral_return(addr)` directly,
  * build mode: runs the public `build()` of a full Plutus scenario (evaluate_tx served from the scenario),
recording — through a wrapper around TransactionBuilder._set_collateral_return — for EVERY call of the method
(also the one made on the temporary builder of _estimate_execution_units) the state the method reads
(inputs, potential inputs, UTxOs at the return address, collaterals, parameters) and what it did
(collaterals, _collateral_return, _total_collateral, exception kind).  All quantities are read from the
implementation's own objects; the UTxO map used for resolving the body's collateral inputs is computed from
the scenario BEFORE the builder runs."""
from _pre import *
import copy
from pycardano import *
from pycardano.backend.base import ChainContext, ProtocolParameters
import pycardano.txbuilder as TB
from pycardano.utils import max_tx_fee

PP = dict(min_fee_constant=155381, min_fee_coefficient=44, max_block_size=73728, max_tx_size=16384,
          max_block_header_size=1100, key_deposit=2000000, pool_deposit=500000000, pool_influence=0.3,
          treasury_expansion=0.2, monetary_expansion=0.003, decentralization_param=0, extra_entropy="",
          protocol_major_version=9, protocol_minor_version=0, min_utxo=1000000, min_pool_cost=340000000,
          price_mem=0.0577, price_step=0.0000721, max_tx_ex_mem=10000000, max_tx_ex_steps=10000000000,
          max_block_ex_mem=50000000, max_block_ex_steps=40000000000, max_val_size=5000,
          collateral_percent=150, max_collateral_inputs=3, coins_per_utxo_word=34482, coins_per_utxo_byte=4310,
          cost_models={}, min_fee_reference_scripts={"base": 44, "range": 25600, "multiplier": 1.2},
          maximum_reference_scripts_size={"bytes": 200_000})


def mk_ma(lit):
    ma = MultiAsset()
    for p, names in lit:
        a = Asset()
        for n, q in names:
            a[AssetName(bytes.fromhex(n))] = q
        ma[pol(p)] = a
    return ma


def dump_ma(ma):
    return [[p.payload.hex(), [[n.payload.hex(), q] for n, q in a.data.items()]] for p, a in ma.data.items()]


def mk_script(s):
    if s is None:
        return None
    k, b = s['kind'], bytes.fromhex(s['bytes'])
    if k == 'v1':
        return PlutusV1Script(b)
    if k == 'v2':
        return PlutusV2Script(b)
    if k == 'v3':
        return PlutusV3Script(b)
    if k == 'native':
        return ScriptPubkey(VerificationKeyHash(b))
    raise ValueError(k)


DATUM = PlutusData()


def mk_utxo(u):
    addr = Address.from_primitive(bytes.fromhex(u['addr']))
    kw = {}
    if u.get('dh') == 'hash':
        kw['datum_hash'] = datum_hash(DATUM)
    elif u.get('dh') == 'inline':
        kw['datum'] = DATUM
    if u.get('script'):
        kw['script'] = mk_script(u['script'])
    out = TransactionOutput(addr, Value(u['coin'], mk_ma(u['assets'])), post_alonzo=bool(u.get('pa')), **kw)
    return wire(UTxO(TransactionInput(TransactionId(bytes.fromhex(u['txid'])), u['ix']), out))


class Ctx(ChainContext):
    def __init__(self, sc, utxos):
        p = dict(PP)
        p.update(sc.get('pp', {}))
        self._pp = ProtocolParameters(**p)
        self._by_addr = {}
        for u in utxos:
            self._by_addr.setdefault(str(u.output.address), []).append(u)
        self._eu = sc.get('ex_units', [400000, 170000000])

    @property
    def protocol_param(self):
        return self._pp

    @property
    def genesis_param(self):
        return None

    @property
    def network(self):
        return Network.TESTNET

    @property
    def epoch(self):
        return 300

    @property
    def last_block_slot(self):
        return 2000

    def _utxos(self, address):
        return [copy.deepcopy(u) for u in self._by_addr.get(address, [])]

    def evaluate_tx(self, tx):
        reds = tx.transaction_witness_set.redeemer
        res = {}
        if reds is None:
            return res
        if isinstance(reds, dict):
            keys = [(k.tag, k.index) for k in reds.keys()]
        else:
            keys = [(r.tag, r.index) for r in reds]
        for tag, idx in keys:
            res[f"{tag.name.lower()}:{idx}"] = ExecutionUnits(self._eu[0], self._eu[1])
        return res

    def evaluate_tx_cbor(self, cbor):
        raise NotImplementedError()

    def submit_tx_cbor(self, cbor):
        pass


# ------------------------------------------------------------------ recording
class Interner:
    def __init__(self):
        self.tab, self.idx = [], {}

    def put(self, u):
        out = u.output
        d = {'txid': u.input.transaction_id.payload.hex(), 'ix': u.input.index,
             'type': out.address.address_type.value, 'tname': out.address.address_type.name,
             'coin': out.amount.coin, 'assets': dump_ma(out.amount.multi_asset),
             'hexlen': len(out.to_cbor_hex()), 'cbor': out.to_cbor().hex()}
        k = json.dumps(d, sort_keys=True)
        if k not in self.idx:
            self.idx[k] = len(self.tab)
            self.tab.append(d)
        return self.idx[k]


CALLS = []
INTERN = [None]
_orig = TB.TransactionBuilder._set_collateral_return


def dump_out(o):
    if o is None:
        return None
    return {'addr': bytes(o.address).hex(), 'coin': o.amount.coin, 'assets': dump_ma(o.amount.multi_asset),
            'cbor': o.to_cbor().hex()}


def msg_class(e):
    m = str(e)
    if m.startswith('Minimum collateral amount'):
        return 'amount'
    if m.startswith('Minimum lovelace amount for collateral return'):
        return 'minlovelace'
    if m.startswith('Number of collateral inputs'):
        return 'count'
    if m.startswith('Collateral input') and 'locked by a script' in m:
        return 'script'
    return 'other'


def kind_of(s):
    """the class build_witness_set sorts the script into"""
    if isinstance(s, NativeScript):
        return 'native'
    if isinstance(s, PlutusV1Script) or type(s) is bytes:
        return 'v1'
    if isinstance(s, PlutusV2Script):
        return 'v2'
    if isinstance(s, PlutusV3Script):
        return 'v3'
    return 'other'


def sref(s):
    return [script_hash(s).payload.hex(), kind_of(s)]


def script_tables(b):
    """the builder's script tables, read table by table (NOT through all_scripts / scripts / build_witness_set)"""
    return {'native': [sref(s) for s in (b.native_scripts or [])],
            'inputs': [sref(s) for s in b._inputs_to_scripts.values()],
            'mint': [sref(s) for s, _ in b._minting_script_to_redeemers],
            'wdrl': [sref(s) for s, _ in b._withdrawal_script_to_redeemers],
            'cert': [sref(s) for s, _ in b._certificate_script_to_redeemers],
            'refs': [sref(s) for s in b._reference_scripts]}


def hooked(self, addr):
    I = INTERN[0]
    pp = self.context.protocol_param
    rec = {
        'ss': script_tables(self),
        'has_addr': bool(addr),
        'addr': bytes(addr).hex() if addr else None,
        'inputs': [I.put(u) for u in self.inputs],
        'potential': [I.put(u) for u in self.potential_inputs],
        'at_addr': [I.put(u) for u in self.context.utxos(addr)] if addr else [],
        'explicit': [I.put(u) for u in self.collaterals],
        'threshold': self.collateral_return_threshold,
        'fee_buffer': self.fee_buffer,
        'max_fee': max_tx_fee(context=self.context, ref_script_size=self._ref_script_size()),
        'percent': pp.collateral_percent, 'max_inputs': pp.max_collateral_inputs, 'cpb': pp.coins_per_utxo_byte,
        'pre_return': dump_out(self._collateral_return), 'pre_total': self._total_collateral,
    }
    exc = None
    try:
        _orig(self, addr)
    except Exception as e:
        exc = e
    rec['exc'] = None if exc is None else [err_kind(exc), msg_class(exc)]
    rec['collaterals'] = [I.put(u) for u in self.collaterals]
    rec['ret'] = dump_out(self._collateral_return)
    rec['total'] = self._total_collateral
    CALLS.append(rec)
    if exc is not None:
        raise exc


TB.TransactionBuilder._set_collateral_return = hooked


# ------------------------------------------------------------------ scenario -> builder
def apply_trigger(b, sc, trig, fresh, red):
    """registers one script use with the builder.  kind = purpose + how the script is supplied:
       spend:  wit / native_wit (script object), ref / ref_native (separate reference UTxO), addr (script argument omitted,
               the reference UTxO is discovered among the UTxOs at the script address), self / self_native (the spent UTxO
               carries the script in its own output; `via` = what is passed as script argument on top of that)
       mint / wdrl / cert (script object), mint_ref / wdrl_ref / cert_ref (reference UTxO)"""
    k = trig['kind']
    if k == 'none':
        return
    script = mk_script(trig['script'])
    plutus = trig['script']['kind'] != 'native'
    if k in ('wit', 'native_wit', 'ref', 'ref_native', 'addr', 'self', 'self_native'):
        su = fresh(trig['utxo'])
        datum = DATUM if sc['utxos'][trig['utxo']].get('dh') == 'hash' else None
        if k in ('wit', 'native_wit'):
            arg = script
        elif k in ('ref', 'ref_native'):
            arg = fresh(trig['ref'])
        elif k == 'addr':
            arg = None
        else:
            via = trig.get('via', 'none')
            arg = None if via == 'none' else (script if via == 'script' else fresh(trig['ref']))
        if plutus:
            b.add_script_input(su, arg, datum, red())
        else:
            b.add_script_input(su, arg)
        return
    purpose = k.split('_')[0]
    arg = fresh(trig['ref']) if k.endswith('_ref') else script
    r = red() if plutus else None
    if purpose == 'mint':
        b.add_minting_script(arg, r)
        ma = b.mint or MultiAsset()
        ma[script_hash(script)] = Asset({AssetName(b'tok'): trig.get('qty', 1)})
        b.mint = ma
    elif purpose == 'wdrl':
        w = b.withdrawals or Withdrawals()
        w[bytes(Address(staking_part=script_hash(script), network=Network.TESTNET))] = trig.get('amount', 0)
        b.withdrawals = w
        b.add_withdrawal_script(arg, r)
    elif purpose == 'cert':
        if b.certificates is None:
            b.certificates = []
        b.certificates.append(StakeDelegation(StakeCredential(script_hash(script)), PoolKeyHash(bytes([0x44]) * 28)))
        b.add_certificate_script(arg, r)
    else:
        raise ValueError(k)


def prepare(sc, session=None):
    """session: the caller's UTxO objects of an earlier build of the same scenario (a wallet session re-uses the objects it
    fetched once, e.g. its reserved collateral): the same objects are registered again on a NEW builder"""
    utxos = [mk_utxo(u) for u in sc['utxos']] if session is None else session['utxos']
    umap = [[u.input.transaction_id.payload.hex(), u.input.index, u.output.to_cbor().hex()] for u in utxos]
    ctx = long_lived(Ctx, sc, utxos) if session is None else session['ctx']
    b = TransactionBuilder(ctx)
    if session is None:
        fresh = lambda i: copy.deepcopy(utxos[i])
    else:
        held = session.setdefault('held', {})

        def fresh(i):
            if i not in held:
                held[i] = copy.deepcopy(utxos[i])
            return held[i]
    if sc.get('threshold') is not None:
        b.collateral_return_threshold = sc['threshold']
    if sc.get('fee_buffer') is not None:
        b.fee_buffer = sc['fee_buffer']
    eu = sc['trigger'].get('eu')
    red = lambda: Redeemer(PlutusData(), ExecutionUnits(*eu)) if eu else Redeemer(PlutusData())
    for trig in [sc['trigger']] + list(sc.get('extra', [])):
        apply_trigger(b, sc, trig, fresh, red)
    for i in sc.get('inputs', []):
        b.add_input(fresh(i))
    for i in sc.get('potential', []):
        b.potential_inputs.append(fresh(i))
    for i in sc.get('excluded', []):
        b.excluded_inputs.append(fresh(i))
    for a in sc.get('input_addresses', []):
        b.add_input_address(Address.from_primitive(bytes.fromhex(a)))
    seen_coll = set()
    for i in sc.get('collaterals', []):
        u = fresh(i)
        if i in seen_coll and session is None and u.output.datum is None and u.output.script is None:
            # the second registration of the same UTxO comes from another source in the OTHER wire form (equal objects)
            u = copy.deepcopy(u)
            u.output.post_alonzo = not u.output.post_alonzo
        seen_coll.add(i)
        b.collaterals.append(u)
    for o in sc.get('outputs', []):
        b.add_output(TransactionOutput(Address.from_primitive(bytes.fromhex(o['addr'])),
                                       Value(o['coin'], mk_ma(o.get('assets', [])))))
    if session is not None:
        session['ctx'] = ctx
    return b, umap


def handler(sc, payload):
    CALLS.clear()
    INTERN[0] = Interner()
    session = None
    if sc.get('session') and sc['mode'] != 'slice':
        # a wallet session: the objects are created once, registered on a first builder, built, and registered again on the
        # second builder whose result is reported (what the first build did to the caller's objects shows here)
        utxos0 = [mk_utxo(u) for u in sc['utxos']]
        session = {'utxos': utxos0, 'ctx': long_lived(Ctx, sc, utxos0)}
        b0, _ = prepare(sc, session)
        try:
            b0.build(change_address=Address.from_primitive(bytes.fromhex(sc['change'])) if sc.get('change') else None,
                     collateral_change_address=Address.from_primitive(bytes.fromhex(sc['coll_change'])) if sc.get('coll_change') else None,
                     merge_change=bool(sc.get('merge_change')))
        except Exception:
            pass
        CALLS.clear()
        INTERN[0] = Interner()
    b, umap = prepare(sc, session)
    if session is not None:
        # the ledger's view of the UTxOs is the scenario's, not whatever the objects claim after the first build
        fresh_objs = [mk_utxo(u) for u in sc['utxos']]
        umap = [[u.input.transaction_id.payload.hex(), u.input.index, u.output.to_cbor().hex()] for u in fresh_objs]
    res = {'umap': umap}
    adr = lambda h: Address.from_primitive(bytes.fromhex(h)) if h else None
    if sc.get('retry'):
        # a refused attempt on THIS builder first: the collateral is a UTxO with dozens of native assets and little ADA, so the
        # minimum-ADA check of the collateral return refuses; the caller then puts the scenario's collaterals back (and whatever
        # else the refused build rewrote: inputs, outputs) and asks again -- the reported build
        saved = (list(b.inputs), list(b.outputs), list(b.collaterals))
        poor = UTxO(TransactionInput(TransactionId(bytes([0xc0]) * 32), 7),
                    TransactionOutput(Address(VerificationKeyHash(bytes([0x77]) * 28), network=b.context.network),
                                      Value(3_500_000, MultiAsset({ScriptHash(bytes([0x5a]) * 28): Asset(
                                          {AssetName(b'tok%02d' % k): 1 + k for k in range(60)})}))))
        b.collaterals = [poor]
        try:
            if sc['mode'] == 'slice':
                b._set_collateral_return(adr(sc.get('ret_addr')))
            else:
                b.build(change_address=adr(sc.get('change')), collateral_change_address=adr(sc.get('coll_change')),
                        merge_change=bool(sc.get('merge_change')))
            res['retry_first'] = 'built'
        except Exception as e:
            res['retry_first'] = err_kind(e)
        b.collaterals = saved[2]
        b.inputs[:] = saved[0]
        b.outputs[:] = saved[1]
        CALLS.clear()
        INTERN[0] = Interner()
    if sc['mode'] == 'slice':
        try:
            b._set_collateral_return(adr(sc.get('ret_addr')))
            res['exc'] = None
        except Exception as e:
            res['exc'] = err_kind(e)
    else:
        try:
            body = b.build(change_address=adr(sc.get('change')),
                           collateral_change_address=adr(sc.get('coll_change')),
                           merge_change=bool(sc.get('merge_change')))
            res['exc'] = None
            res['body'] = body.to_cbor().hex()
            res['fee'] = body.fee
            res['n_coll'] = len(body.collateral) if body.collateral else 0
            # the witness set that goes with this body (redeemers decide whether the transaction runs Plutus scripts)
            res['wits'] = b.build_witness_set().to_cbor().hex()
        except Exception as e:
            res['exc'] = err_kind(e)
            res['msg'] = str(e)[:160]
    res['calls'] = list(CALLS)
    res['utab'] = INTERN[0].tab
    return res


if __name__ == '__main__':
    main(handler)
