"""Replays a Plutus builder scenario (C11 / C12) on the real pycardano.TransactionBuilder.

case = {
  net: 0|1, last_slot: int,
  scripts: [{lang: 0 native | 1 | 2 | 3, hex: script bytes (Plutus) / CBOR of the native script, raw: bool (plain `bytes`)}],
  utxos:   [{id: hex32, ix: int, script_addr: bool, pay: hex28, coin: int,
             datum: null | ['hash', hex32] | ['inline', hexcbor, form?], script: sid | null, chain: bool}],
  ops: [ ['input', uid] | ['sinput', uid, src, datum_hexcbor|null, rdm|null, form?] | ['mint', src, rdm|null]
       | ['wdrl', src, rdm|null] | ['cert', src, rdm|null] | ['addcert', {cred_script: bool, cred: hex28, pool: hex28}]
       | ['outdatum', hexcbor, form?, to_witness?] | ['coll', uid] (builder.collaterals.append)
       | ['refin', uid] (builder.reference_inputs.add: a read-only reference input) ],   native: [sid, ...] (the native_scripts field),
         form = 'raw' (default: the datum is handed over as RawCBOR) | 'prim' (as the Python value a user would write:
                int, bytes, dict, IndefiniteList / list, RawPlutusData around a constructor tag — so that 0, b'', {} and
                empty lists reach the builder as FALSY objects) | 'pdata' (a constructor as an instance of a PlutusData
                dataclass generated for its shape, nested constructors as nested dataclasses, maps as dict fields; falls
                back to 'prim' when that route cannot yield exactly these bytes),
         src = ['none'] | ['utxo', uid] | ['script', sid];
         rdm = {rid, tag: null|int, data: hexcbor, units: null|[mem, steps], form?: as above (for the redeemer data)}
  mint: [[policy hex28, [[name hex, qty], ...]], ...] (dict order),  wdrl: [[account hex29, coin], ...] (dict order),
  build: {change: hex28 key hash, use_map: bool, vstart: null|int, ttl: null|int, off_start: null|int, off_ttl: null|int,
          mem_buf: float, step_buf: float, pay: [coin, ...] plain outputs (force coin selection)},
  eval: {rid(str): [mem, steps]}   raw evaluator answers (before buffers), served by evaluate_tx_cbor keyed by the
                                    (tag, index) each redeemer carries in the transaction it is given,
  cost_models: {'PlutusV1': {name: int}, ...} (languages may be missing),
  cm_int_keys?: ['PlutusV1', ...] languages whose cost-model dict is keyed by INTEGER positions (the JSON keys are their
                decimal strings; this is what CardanoCliChainContext._parse_cost_models makes of list-shaped models)
}
result = {stage: 'ops' | 'build' | 'done', op: index of the failing op, err: kind | null,
          tx: hex of build_and_sign(...).to_cbor(), wits_nodup: hex of build_witness_set(False).to_cbor(),
          rl: [[rid, tag, index, mem, steps], ...] the builder's _redeemer_list after the build,
          script_hashes: [hex28 per sid as pycardano.script_hash computes it], evals: number of evaluate calls,
          n_inputs: number of inputs of the body, dflt: hex of cbor2.dumps(plutus.COST_MODELS),
          eval_ptrs: per evaluate call the sorted [tag, index] pointers of the redeemers in the transaction the evaluator was
                     given (built by the TEMPORARY builder of _estimate_execution_units, which runs coin selection again),
          ptrs_at_failure: (stage 'build') the sorted [tag, index] of the builder's own redeemers when build() raised,
          prim: [number of datums handed over in 'prim' form, how many of them were falsy objects],
          pdata: number of datums / redeemer data handed over as PlutusData dataclass instances}
"""
from _pre import *
from fractions import Fraction
import cbor2
from pycardano import (Address, Asset, AssetName, ExecutionUnits, MultiAsset, NativeScript, PlutusV1Script,
                       PlutusV2Script, PlutusV3Script, PoolKeyHash, RawCBOR, Redeemer, RedeemerTag, ScriptHash,
                       StakeCredential, StakeDelegation, TransactionBuilder, TransactionInput, TransactionOutput,
                       UTxO, Value, VerificationKeyHash, Withdrawals, DatumHash, script_hash)
from pycardano.backend.base import ChainContext, GenesisParameters, ProtocolParameters
from pycardano.network import Network

import dataclasses
from pycardano.plutus import COST_MODELS, PlutusData, RawPlutusData
from pycardano.serialization import default_encoder, IndefiniteList
DFLT = cbor2.dumps(COST_MODELS, default=default_encoder).hex()      # the fallback of utils.script_data_hash
TAGNAME = {0: 'spend', 1: 'mint', 2: 'certificate', 3: 'withdrawal', 4: 'voting', 5: 'proposing'}


def _loads(b, i=0, key=False):
    """the harness's own CBOR reader for the transaction handed to evaluate_tx (the library's patched cbor2 decoder cannot
    read a map keyed by a constructor with fields: known finding C18-map-key-unhashable-decode).  Arrays -> list (tuple inside
    a map key), maps -> dict, tags -> cbor2.CBORTag"""
    m, ai = b[i] >> 5, b[i] & 31
    if ai == 31:
        i += 1
        out, chunks = [], []
        while b[i] != 0xff:
            if m in (2, 3):
                v, i = _loads(b, i, key); chunks.append(v)
            elif m == 5:
                k, i = _loads(b, i, True); v, i = _loads(b, i, key); out.append((k, v))
            else:
                v, i = _loads(b, i, key); out.append(v)
        i += 1
        if m == 2:
            return b''.join(chunks), i
        if m == 3:
            return ''.join(chunks), i
        if m == 5:
            return (tuple(out) if key else dict(out)), i
        return (tuple(out) if key else out), i
    if ai < 24:
        n, j = ai, i + 1
    else:
        k = {24: 1, 25: 2, 26: 4, 27: 8}[ai]
        n, j = int.from_bytes(b[i + 1:i + 1 + k], 'big'), i + 1 + k
    if m == 0:
        return n, j
    if m == 1:
        return -1 - n, j
    if m == 2:
        return bytes(b[j:j + n]), j + n
    if m == 3:
        return bytes(b[j:j + n]).decode(), j + n
    if m == 4:
        out = []
        for _ in range(n):
            v, j = _loads(b, j, key); out.append(v)
        return (tuple(out) if key else out), j
    if m == 5:
        out = []
        for _ in range(n):
            k, j = _loads(b, j, True); v, j = _loads(b, j, key); out.append((k, v))
        return (tuple(out) if key else dict(out)), j
    if m == 6:
        v, j = _loads(b, j, key)
        if n in (2, 3) and isinstance(v, bytes):
            v = int.from_bytes(v, 'big')
            return (v if n == 2 else -1 - v), j
        return cbor2.CBORTag(n, v), j
    return {20: False, 21: True, 22: None, 23: None}.get(n, n), j


def rid_of(data):
    """the scenario puts the redeemer id first in every redeemer datum shape"""
    if isinstance(data, int):
        return data
    if isinstance(data, cbor2.CBORTag):
        return rid_of(data.value[1] if data.tag == 102 else data.value)
    if isinstance(data, dict):
        return rid_of(next(iter(data.keys())))
    return rid_of(list(data)[0])


def mk_cost_models(case):
    ints = case.get('cm_int_keys') or []
    return {lang: ({int(k): v for k, v in cm.items()} if lang in ints else dict(cm))
            for lang, cm in case['cost_models'].items()}


class Ctx(ChainContext):
    def __init__(self, case, utxos):
        self.case, self.table = case, utxos
        self.evals = 0
        self.ptrs = []                                 # per evaluate call: the (tag, index) pointers of the transaction it was given
        self._pp = ProtocolParameters(
            min_fee_constant=155381, min_fee_coefficient=44, max_block_size=73728, max_tx_size=16384,
            max_block_header_size=1100, key_deposit=2000000, pool_deposit=500000000, pool_influence=Fraction(3, 10),
            treasury_expansion=Fraction(1, 5), monetary_expansion=Fraction(3, 1000), decentralization_param=Fraction(0),
            extra_entropy="", protocol_major_version=9, protocol_minor_version=0, min_utxo=1000000,
            min_pool_cost=340000000, price_mem=Fraction(577, 10000), price_step=Fraction(721, 10000000),
            max_tx_ex_mem=14000000, max_tx_ex_steps=10000000000, max_block_ex_mem=50000000,
            max_block_ex_steps=40000000000, max_val_size=5000, collateral_percent=150, max_collateral_inputs=3,
            coins_per_utxo_word=34482, coins_per_utxo_byte=4310, cost_models=mk_cost_models(case),
            min_fee_reference_scripts={"base": 15, "range": 25600, "multiplier": 1.2},
            maximum_reference_scripts_size={"bytes": 200000})

    @property
    def protocol_param(self):
        return self._pp

    @property
    def genesis_param(self):
        raise NotImplementedError()

    @property
    def network(self):
        return Network.MAINNET if self.case['net'] == 1 else Network.TESTNET

    @property
    def epoch(self):
        return 300

    @property
    def last_block_slot(self):
        return self.case['last_slot']

    def _utxos(self, address):
        return [u for u, spec in zip(self.table, self.case['utxos'])
                if spec['chain'] and str(u.output.address) == address]

    def submit_tx_cbor(self, cbor):
        raise NotImplementedError()

    def evaluate_tx_cbor(self, cbor):
        self.evals += 1
        if isinstance(cbor, str):
            cbor = bytes.fromhex(cbor)
        tx = _loads(cbor)[0]
        red = tx[1].get(5)
        out = {}
        if red is None:
            return out
        if isinstance(red, dict):
            items = [(k[0], k[1], v[0]) for k, v in red.items()]
        else:
            items = [(r[0], r[1], r[2]) for r in red]
        self.ptrs.append(sorted([tag, idx] for tag, idx, _ in items))
        for tag, idx, data in items:
            rid = str(rid_of(data))
            if rid in self.case['eval']:
                m, s = self.case['eval'][rid]
                out[f'{TAGNAME[tag]}:{idx}'] = ExecutionUnits(m, s)
        return out


def mk_script(spec):
    b = bytes.fromhex(spec['hex'])
    if spec['lang'] == 0:
        return NativeScript.from_primitive(cbor2.loads(b))
    if spec.get('raw'):
        return b
    return {1: PlutusV1Script, 2: PlutusV2Script, 3: PlutusV3Script}[spec['lang']](b)


def _parse(b, i):
    """CBOR item at b[i:] -> (Python value as a pycardano user would write it, next index); indefinite arrays become
    IndefiniteList, definite ones list, tags cbor2.CBORTag; only the shapes the scenario generator emits"""
    m, ai = b[i] >> 5, b[i] & 31
    if ai == 31:
        if m != 4:
            raise ValueError('indefinite item other than an array')
        i += 1
        out = []
        while b[i] != 0xff:
            v, i = _parse(b, i)
            out.append(v)
        return IndefiniteList(out), i + 1
    if ai < 24:
        n, j = ai, i + 1
    else:
        k = {24: 1, 25: 2, 26: 4, 27: 8}[ai]
        n, j = int.from_bytes(b[i + 1:i + 1 + k], 'big'), i + 1 + k
    if m == 0:
        return n, j
    if m == 1:
        return -1 - n, j
    if m == 2:
        return bytes(b[j:j + n]), j + n
    if m == 4:
        out = []
        for _ in range(n):
            v, j = _parse(b, j)
            out.append(v)
        return out, j
    if m == 5:
        d = {}
        for _ in range(n):
            k, j = _parse(b, j)
            v, j = _parse(b, j)
            if isinstance(k, cbor2.CBORTag):
                k = key_pdata(k)                 # a constructor as map key: a hashable PlutusData instance
            d[k] = v
        return d, j
    if m == 6:
        v, j = _parse(b, j)
        return cbor2.CBORTag(n, v), j
    raise ValueError('unsupported CBOR major type')


PRIM = [0, 0]                                             # per case: datums handed over in 'prim' form, falsy ones
PDATA = [0]                                               # per case: data handed over as PlutusData dataclass instances
_CLS = [0]


def _conv(f):
    """parsed CBOR value -> the value with every constructor replaced by a PlutusData dataclass instance"""
    if isinstance(f, cbor2.CBORTag):
        return to_pdata(f)
    if isinstance(f, dict):
        return {_conv(k): _conv(v) for k, v in f.items()}
    if isinstance(f, IndefiniteList):
        return IndefiniteList([_conv(x) for x in f])
    if isinstance(f, list):
        return [_conv(x) for x in f]
    return f


def to_pdata(v):
    """CBORTag of a constructor -> instance of a PlutusData dataclass declared for it: CONSTR_ID = the constructor id,
    one field per argument, typed int / bytes / dict / IndefiniteList / the nested dataclass"""
    if v.tag == 102:
        cid, fs = v.value
    elif 121 <= v.tag < 128:
        cid, fs = v.tag - 121, v.value
    elif 1280 <= v.tag < 1401:
        cid, fs = v.tag - 1280 + 7, v.value
    else:
        raise ValueError('not a constructor tag')
    flds, vals = [], []
    for i, f in enumerate(fs):
        x = _conv(f)
        t = type(x) if isinstance(x, (PlutusData, int, bytes, dict, IndefiniteList)) else None
        if t is None or isinstance(x, bool):
            raise ValueError('field shape without a PlutusData field type')
        flds.append((f'f{i}', t)); vals.append(x)
    _CLS[0] += 1
    # every generated class has the SAME name (v1 / v2 of one contract both define `Listing`): two datums that differ in the
    # constructor id only print alike
    cls = dataclasses.make_dataclass('Listing', flds, bases=(PlutusData,), namespace={'CONSTR_ID': cid})
    return cls(*vals)


def key_pdata(v):
    """constructor with int / bytes fields -> instance of a hashable PlutusData dataclass (what a user keys a map datum with)"""
    if 121 <= v.tag < 128:
        cid, fs = v.tag - 121, v.value
    elif 1280 <= v.tag < 1401:
        cid, fs = v.tag - 1280 + 7, v.value
    else:
        raise ValueError('map key: not a compact constructor tag')
    flds = [(f'f{i}', type(f)) for i, f in enumerate(fs)]
    if any(t not in (int, bytes) for _, t in flds):
        raise ValueError('map key: field that is neither int nor bytes')
    cls = dataclasses.make_dataclass('AssetClass', flds, bases=(PlutusData,), namespace={'CONSTR_ID': cid}, unsafe_hash=True)
    return cls(*fs)


def mk_data(hexcbor, form, count=True):
    """Plutus data as the object a user hands over; 'prim' = the Python value whose CBOR is hexcbor (checked), so that
    falsy values (0, b'', {}, empty lists) reach the code under test as falsy objects and maps as dicts in insertion
    order; 'pdata' = PlutusData dataclass instance (checked; else as 'prim'); otherwise RawCBOR"""
    b = bytes.fromhex(hexcbor)
    if form not in ('prim', 'pdata'):
        return RawCBOR(b)
    v, j = _parse(b, 0)
    if j != len(b):
        raise ValueError('trailing bytes in datum')
    if form == 'pdata' and isinstance(v, cbor2.CBORTag):
        try:
            o = to_pdata(v)
            if o.to_cbor() == b and cbor2.dumps([o], default=default_encoder)[1:] == b:
                PDATA[0] += 1
                return o
        except Exception:
            pass
    if isinstance(v, cbor2.CBORTag):
        v = RawPlutusData(v)
    if cbor2.dumps(v, default=default_encoder) != b:
        raise RuntimeError('primitive form of datum %s does not re-encode to the same bytes' % hexcbor)
    if count:
        PRIM[0] += 1
        PRIM[1] += not v
    return v


def mk_datum(hexcbor, form):
    return mk_data(hexcbor, form)


def mk_addr(script_addr, pay, net):
    part = ScriptHash(bytes.fromhex(pay)) if script_addr else VerificationKeyHash(bytes.fromhex(pay))
    return Address(part, network=net)


def mk_utxo(spec, scripts, net):
    d = spec['datum']
    dh, dat = None, None
    if d is not None and d[0] == 'hash':
        dh = DatumHash(bytes.fromhex(d[1]))
    elif d is not None:
        dat = mk_datum(d[1], d[2] if len(d) > 2 else 'raw')
    sc = scripts[spec['script']] if spec['script'] is not None else None
    if type(sc) is bytes:
        sc = PlutusV1Script(sc)                       # an output cannot hold a script of plain type bytes
    out = TransactionOutput(mk_addr(spec['script_addr'], spec['pay'], net), Value(spec['coin']),
                            datum_hash=dh, datum=dat, script=sc)
    return wire(UTxO(TransactionInput.from_primitive([bytes.fromhex(spec['id']), spec['ix']]), out))


def mk_rdm(r):
    if r is None:
        return None
    units = ExecutionUnits(*r['units']) if r['units'] is not None else None
    red = Redeemer(mk_data(r['data'], r.get('form', 'raw'), count=False), units)
    if r['tag'] is not None:
        red.tag = RedeemerTag(r['tag'])
    return red


def handler(case, payload):
    global PRIM, PDATA
    PRIM = [0, 0]                                      # a fresh counter per case (mk_data reads the global)
    PDATA = [0]
    ctx = long_lived(Ctx, case, [])
    net = ctx.network
    scripts = [mk_script(s) for s in case['scripts']]
    res = {'script_hashes': [script_hash(s).payload.hex() for s in scripts], 'dflt': DFLT}
    utxos = [mk_utxo(u, scripts, net) for u in case['utxos']]
    res['prim'] = PRIM                                 # this case's list object; the add_* calls below still count into it
    res['pdata'] = PDATA
    ctx.table = utxos
    B = case['build']
    b = TransactionBuilder(ctx, execution_memory_buffer=B['mem_buf'], execution_step_buffer=B['step_buf'],
                           use_redeemer_map=B['use_map'])
    if B['vstart'] is not None:
        b.validity_start = B['vstart']
    if B['ttl'] is not None:
        b.ttl = B['ttl']
    if case['mint']:
        ma = MultiAsset()
        for p, names in case['mint']:
            a = Asset()
            for n, q in names:
                a[AssetName(bytes.fromhex(n))] = q
            ma[ScriptHash(bytes.fromhex(p))] = a
        b.mint = ma
    if case['wdrl']:
        w = Withdrawals()
        for k, v in case['wdrl']:
            w[bytes.fromhex(k)] = v
        b.withdrawals = w
    for coin in B.get('pay', []):
        b.add_output(TransactionOutput(mk_addr(False, 'ab' * 28, net), Value(coin)))
    if case.get('native'):
        b.native_scripts = [scripts[s] for s in case['native']]
    rids = {}

    def src(s):
        if s[0] == 'utxo':
            return utxos[s[1]]
        if s[0] == 'script':
            return scripts[s[1]]
        return None

    for i, op in enumerate(case['ops']):
        try:
            k = op[0]
            if k == 'input':
                # a plain registration hands over ANOTHER, equal object (the same UTxO fetched by a second chain query)
                import copy as _copy
                b.add_input(_copy.deepcopy(utxos[op[1]]) if case.get('distinct_objects') else utxos[op[1]])
            elif k == 'sinput':
                r = mk_rdm(op[4])
                if r is not None:
                    rids[id(r)] = op[4]['rid']
                b.add_script_input(utxos[op[1]], src(op[2]),
                                   mk_datum(op[3], op[5] if len(op) > 5 else 'raw') if op[3] is not None else None, r)
            elif k in ('mint', 'wdrl', 'cert'):
                r = mk_rdm(op[2])
                if r is not None:
                    rids[id(r)] = op[2]['rid']
                f = {'mint': b.add_minting_script, 'wdrl': b.add_withdrawal_script, 'cert': b.add_certificate_script}[k]
                f(src(op[1]), r)
            elif k == 'addcert':
                c = op[1]
                cred = ScriptHash(bytes.fromhex(c['cred'])) if c['cred_script'] else VerificationKeyHash(bytes.fromhex(c['cred']))
                cert = StakeDelegation(StakeCredential(cred), PoolKeyHash(bytes.fromhex(c['pool'])))
                if b.certificates is None:
                    b.certificates = []
                b.certificates.append(cert)
            elif k == 'outdatum':
                d = mk_datum(op[1], op[2] if len(op) > 2 else 'raw')
                if len(op) > 3 and not op[3]:
                    b.add_output(TransactionOutput(mk_addr(True, 'ee' * 28, net), Value(2000000)), datum=d)   # default: False
                else:
                    b.add_output(TransactionOutput(mk_addr(True, 'ee' * 28, net), Value(2000000)), datum=d,
                                 add_datum_to_witness=True)
            elif k == 'coll':
                b.collaterals.append(utxos[op[1]])
            elif k == 'refin':
                b.reference_inputs.add(utxos[op[1]])
            elif k == 'native':
                b.native_scripts = [scripts[s] for s in op[1]]
            else:
                raise RuntimeError('unknown op ' + k)
        except Exception as e:
            res.update(stage='ops', op=i, err=err_kind(e))
            return res
    change = mk_addr(False, B['change'], net)
    import random
    random.seed(case.get('seed', 0))                 # RandomImproveMultiAsset draws from the global generator
    try:
        b.add_input_address(change)
        tx = b.build_and_sign([], change_address=change, auto_validity_start_offset=B['off_start'],
                              auto_ttl_offset=B['off_ttl'])
    except Exception as e:
        res.update(stage='build', op=None, err=err_kind(e), msg=str(e)[:200], eval_ptrs=ctx.ptrs,
                   ptrs_at_failure=sorted([r.tag.value if r.tag is not None else -1, r.index] for r in b._redeemer_list))
        return res
    res.update(stage='done', op=None, err=None, tx=tx.to_cbor().hex(),
               wits_nodup=b.build_witness_set(False).to_cbor().hex(),
               rl=[[rids.get(id(r), -1), r.tag.value if r.tag is not None else -1, r.index,
                    r.ex_units.mem if r.ex_units is not None else -1,
                    r.ex_units.steps if r.ex_units is not None else -1] for r in b._redeemer_list],
               evals=ctx.evals, n_inputs=len(tx.transaction_body.inputs), eval_ptrs=ctx.ptrs)
    p2 = case.get('phase2')
    if p2:
        # second build of the SAME builder after more was asked of it through the public attributes
        try:
            ma = MultiAsset()
            for p, names in p2['mint']:
                a = Asset()
                for n, q in names:
                    a[AssetName(bytes.fromhex(n))] = q
                ma[ScriptHash(bytes.fromhex(p))] = a
            b.mint = ma
            b.native_scripts = [scripts[s] for s in p2['native']]
            random.seed(case.get('seed', 0) + 1)
            tx2 = b.build_and_sign([], change_address=change, auto_validity_start_offset=B['off_start'],
                                   auto_ttl_offset=B['off_ttl'])
            res.update(tx2=tx2.to_cbor().hex(), wits_nodup2=b.build_witness_set(False).to_cbor().hex(),
                       rl2=[[rids.get(id(r), -1), r.tag.value if r.tag is not None else -1, r.index,
                             r.ex_units.mem if r.ex_units is not None else -1,
                             r.ex_units.steps if r.ex_units is not None else -1] for r in b._redeemer_list])
        except Exception as e:
            res.update(tx2=None, err2=err_kind(e), msg2=str(e)[:160])
    return res


if __name__ == '__main__':
    main(handler)
