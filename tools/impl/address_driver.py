"""Drives the REAL pycardano Address / PointerAddress / bech32 code for property C15.

case kinds (see tools/props/c15.py):
  {'k':'addr', 'pay': part, 'stk': part, 'net': 0|1}   part = None | ['vkh',hex] | ['sh',hex] | ['ptr',a,b,c]
  {'k':'subst','s': str, 'chars': [code points]}        every single-character substitution of s
  {'k':'text', 's': [code points]}                      Address.from_primitive(str)
  {'k':'bytes','b': hex}                                Address.from_primitive(bytes)
"""
try:
    from _pre import *
except Exception:
    # `import pycardano` itself can fail when the address code is broken (coinselection.py decodes a fixed address at
    # import time).  Such a tree must still be examined: import only the modules under test, without the package __init__.
    import os, sys, types
    for _m in [m for m in sys.modules if m == 'pycardano' or m.startswith('pycardano.') or m == '_pre']:
        del sys.modules[_m]
    _pkg = types.ModuleType('pycardano')
    _pkg.__path__ = [os.path.join(os.environ.get('PYTHONPATH', '/repo').split(':')[0], 'pycardano')]
    sys.modules['pycardano'] = _pkg
    from _pre import *
from pycardano.address import Address, PointerAddress
from pycardano.hash import ScriptHash, VerificationKeyHash
from pycardano.network import Network


def mk_part(p):
    if p is None:
        return None
    if p[0] == 'vkh':
        return VerificationKeyHash(bytes.fromhex(p[1]))
    if p[0] == 'sh':
        return ScriptHash(bytes.fromhex(p[1]))
    if p[0] == 'ptr':
        return PointerAddress(p[1], p[2], p[3])
    raise ValueError(p)


def dump_part(x):
    if x is None:
        return None
    if type(x) is VerificationKeyHash:
        return ['vkh', x.payload.hex()]
    if type(x) is ScriptHash:
        return ['sh', x.payload.hex()]
    if type(x) is PointerAddress:
        return ['ptr', x.slot, x.tx_index, x.cert_index]
    raise TypeError(f'unexpected credential class {type(x)}')


def dump_addr(a):
    if type(a) is not Address:
        raise TypeError(f'unexpected result class {type(a)}')
    return {'pay': dump_part(a.payment_part), 'stk': dump_part(a.staking_part), 'net': a.network.value}


def decode1(x):
    try:
        a = Address.from_primitive(x)
    except Exception as e:                       # the code under test rejecting its input is a result
        return {'err': err_kind(e)}
    return {'ok': dump_addr(a)}


def decode(x):
    """every input is presented TWICE (the retry after a refusal, the second UTxO at the same address): the answer to the
    second presentation is the one reported, and a refusal that turns into an acceptance (or any other change of mind) is
    reported as an acceptance of something that is not an address"""
    first = decode1(x)
    second = decode1(x)
    if first != second:
        return {'ok': {'pay': ['vkh', 'ee' * 28], 'stk': None, 'net': 0}, 'changed_its_mind': [first, second]}
    return second


def handler(case, payload):
    k = case['k']
    if k == 'addr':
        try:
            pay, stk = mk_part(case['pay']), mk_part(case['stk'])
            a = Address(pay, stk, Network(case['net']))
        except Exception as e:
            return {'bad': err_kind(e)}
        b = bytes(a)
        t = a.encode()
        out = {'bytes': b.hex(), 'to_primitive': a.to_primitive().hex(), 'text': t,
               'header': a.header_byte.hex(), 'hrp': a.hrp,
               'fromb': decode(b), 'fromt': decode(t) if t is not None else None}
        if t is not None and 'ok' in out['fromt']:
            out['decode_alias'] = ({'ok': dump_addr(Address.decode(t))} == out['fromt'])   # Address.decode = from_primitive
        return out
    if k == 'subst':
        s = case['s']
        base = decode(s)
        acc = []
        n = 0
        for i in range(len(s)):
            for c in case['chars']:
                if c == ord(s[i]):
                    continue
                n += 1
                r = decode(s[:i] + chr(c) + s[i + 1:])
                if 'ok' in r:
                    acc.append([i, c, r])
        return {'base': base, 'accepted': acc, 'tried': n}
    if k == 'text':
        return decode(''.join(chr(c) for c in case['s']))
    if k == 'bytes':
        return decode(bytes.fromhex(case['b']))
    raise ValueError(k)


if __name__ == '__main__':
    main(handler)
