"""C18 driver: feeds Plutus data through the REAL pycardano code (typed PlutusData dataclasses generated
as Python source from a class description, RawPlutusData, the JSON dict form) and reports bytes / errors.

Tree encodings (JSON):
  data : ["C", i, [fields]] | ["M", [[k, v], ...]] | ["L", [items]] | ["I", z] | ["B", hex]
  ty   : ["int"] | ["bytes"] | ["bstr"] | ["list", t] | ["dict", k, v] | ["cls", id, [field types]]
         | ["union", [ts]] | ["ilist"] | ["datum"]
  pv   : ["i", z] | ["b", hex] | ["s", hex] (ByteString) | ["l", [..]] (list) | ["il", [..]] (IndefiniteList)
         | ["d", [[k, v], ...]] | ["t", tag, v] (CBORTag) | ["o", id, [field types], [field values]] | ["r", v] (RawPlutusData)
Typed cases: {"kind": "typed", "t": class description, "x": value, "ref": reference bytes of the content,
  "pp": true       -> the classes of this case are declared under `from __future__ import annotations` in a fresh module,
  "skip_ref": true -> from_cbor(ref) is not run (the value does not conform to the class: bytes in a Dict[..] field)}.
A value the constructor refuses (long-bytes guard) reports the exception kind and, unless skip_ref, from_cbor(ref).
"""
from _pre import *
import hashlib
import sys
import types
import typing
from dataclasses import dataclass
from dataclasses import fields as dataclasses_fields
from typing import Dict, List, Union

from cbor2 import CBORTag
from pycardano.plutus import (Datum, ExecutionUnits, PlutusData, RawPlutusData, Redeemer, RedeemerTag, datum_hash,
                              get_constructor_id_and_fields, get_tag)
from pycardano.serialization import ByteString, IndefiniteList


def res(f):
    """run f; bytes -> hex, exceptions of the code under test -> '!Kind'"""
    try:
        r = f()
    except Exception as e:
        return '!' + err_kind(e)
    if isinstance(r, (bytes, bytearray)):
        return bytes(r).hex()
    return r


# ---------------------------------------------------------------- data -> raw Python shapes
def tag_of(i):
    if 0 <= i < 7:
        return 121 + i
    if 7 <= i < 128:
        return 1280 + (i - 7)
    return None


def seqv(xs):
    return IndefiniteList(xs) if xs else []


def bs(b):
    return b if len(b) <= 64 else ByteString(b)


def raw_canon(d):
    k = d[0]
    if k == 'C':
        v = seqv([raw_canon(f) for f in d[2]])
        t = tag_of(d[1])
        return CBORTag(t, v) if t is not None else CBORTag(102, [d[1], v])
    if k == 'M':
        out = {}
        for a, b in d[1]:
            out[raw_canon(a)] = raw_canon(b)
        return out
    if k == 'L':
        return seqv([raw_canon(f) for f in d[1]])
    if k == 'I':
        return d[1]
    return bs(bytes.fromhex(d[1]))


def raw_py(d, top=False):
    k = d[0]
    if k == 'C':
        v = [raw_py(f) for f in d[2]]
        t = tag_of(d[1])
        return CBORTag(t, v) if t is not None else CBORTag(102, [d[1], v])
    if k == 'M':
        out = {}
        for a, b in d[1]:
            out[raw_py(a)] = raw_py(b)
        return out
    if k == 'L':
        xs = [raw_py(f) for f in d[1]]
        return IndefiniteList(xs) if top else xs
    if k == 'I':
        return d[1]
    return bs(bytes.fromhex(d[1]))


def blake(b):
    return hashlib.blake2b(b, digest_size=32).digest()


def raw_case(c):
    d, ref = c['d'], bytes.fromhex(c['ref'])
    out = {}
    out['canon'] = res(lambda: RawPlutusData(raw_canon(d)).to_cbor())
    out['py'] = res(lambda: RawPlutusData(raw_py(d, True)).to_cbor())
    dec = [None]

    def _dec():
        dec[0] = RawPlutusData.from_cbor(ref)
        return dec[0].to_cbor()
    out['dec'] = res(_dec)
    if dec[0] is not None and not out['dec'].startswith('!'):
        out['dec_hash_ok'] = res(lambda: datum_hash(dec[0]).payload == blake(bytes.fromhex(out['dec'])))
        # Datum-typed API: the hash of a fresh decode must not depend on a previous to_cbor call
        out['dec_hash2_ok'] = res(lambda: datum_hash(RawPlutusData.from_cbor(ref)).payload == blake(bytes.fromhex(out['dec'])))
    else:
        out['dec_hash_ok'] = out['dec_hash2_ok'] = None
    td = [None]

    def _todict():
        td[0] = RawPlutusData.from_cbor(ref).to_dict()
        return td[0]
    out['todict'] = res(_todict)
    if td[0] is not None:
        out['json_rt'] = res(lambda: RawPlutusData.from_dict(td[0]).to_cbor())
        out['json_rt2'] = res(lambda: RawPlutusData.from_json(RawPlutusData.from_cbor(ref).to_json()).to_cbor())
    else:
        out['json_rt'] = out['json_rt2'] = None
    out['fromdict'] = res(lambda: RawPlutusData.from_dict(c['json']).to_cbor())
    return out


# ---------------------------------------------------------------- typed classes generated as source
_CLASSES = {}
_NS = {'dataclass': dataclass, 'PlutusData': PlutusData, 'List': List, 'Dict': Dict, 'Union': Union,
       'ByteString': ByteString, 'IndefiniteList': IndefiniteList, 'Datum': Datum}
SOURCES = []
# Declaration mode of the classes of the current case.  None: annotations are evaluated objects (classes live in _NS
# and are shared between cases).  Otherwise a fresh module created for ONE case whose class sources start with
# `from __future__ import annotations`: dataclasses.Field.type is then the source string of the annotation until
# ArrayCBORSerializable.from_primitive replaces it; typing.get_type_hints resolves the strings in the module's dict,
# so the module is registered in sys.modules.  Fresh per case: from_primitive MUTATES Field.type, a class that has
# been through from_cbor once is no longer in the postponed state.
_PP = None
_PP_COUNT = [0]
PP_HEADER = 'from __future__ import annotations\n'


def pp_begin():
    global _PP
    _PP_COUNT[0] += 1
    m = types.ModuleType(f'c18_postponed_{_PP_COUNT[0]}')
    m.__dict__.update(_NS)
    sys.modules[m.__name__] = m
    _PP = {'module': m, 'classes': {}}


def pp_end():
    global _PP
    if _PP is not None:
        sys.modules.pop(_PP['module'].__name__, None)
    _PP = None


def ty_key(t):
    return json.dumps(t)


def ty_src(t):
    """Python source of the annotation for type t (classes are created on demand)."""
    k = t[0]
    if k == 'int':
        return 'int'
    if k == 'bytes':
        return 'bytes'
    if k == 'bstr':
        return 'ByteString'
    if k == 'ilist':
        return 'IndefiniteList'
    if k == 'datum':
        return 'Datum'
    if k == 'list':
        return f'List[{ty_src(t[1])}]'
    if k == 'dict':
        return f'Dict[{ty_src(t[1])}, {ty_src(t[2])}]'
    if k == 'union':
        return 'Union[' + ', '.join(ty_src(a) for a in t[1]) + ']'
    if k == 'cls':
        return get_class(t).__name__
    raise ValueError(k)


def get_class(t):
    key = ty_key(t)
    cache = _CLASSES if _PP is None else _PP['classes']
    if key in cache:
        return cache[key]
    anns = [ty_src(ft) for ft in t[2]]      # creates the nested classes first (descriptions are trees)
    name = f'G{len(SOURCES)}_{t[1]}'
    # unsafe_hash=True: instances can be dict keys (Map Credential Integer, ...) whenever their field values are
    # hashable -- the model's `hashable` says exactly this
    lines = ['@dataclass(unsafe_hash=True)', f'class {name}(PlutusData):', f'    CONSTR_ID = {t[1]}']
    for i, a in enumerate(anns):
        lines.append(f'    f{i}: {a}')
    src = '\n'.join(lines) + '\n'
    if _PP is None:
        exec(src, _NS)              # the generated dataclass is a real PlutusData subclass
        cls = _NS[name]
    else:
        src = PP_HEADER + src
        exec(compile(src, _PP['module'].__name__, 'exec'), _PP['module'].__dict__)
        cls = _PP['module'].__dict__[name]
        if t[2] and not all(isinstance(f.type, str) for f in dataclasses_fields(cls)):
            raise RuntimeError('postponed annotations did not take effect')
    SOURCES.append(src)
    cache[key] = cls
    return cls


def build(v):
    k = v[0]
    if k == 'i':
        return v[1]
    if k == 'b':
        return bytes.fromhex(v[1])
    if k == 's':
        return ByteString(bytes.fromhex(v[1]))
    if k == 'l':
        return [build(x) for x in v[1]]
    if k == 'il':
        return IndefiniteList([build(x) for x in v[1]])
    if k == 'd':
        out = {}
        for a, b in v[1]:
            out[build(a)] = build(b)
        return out
    if k == 't':
        return CBORTag(v[1], build(v[2]))
    if k == 'o':
        cls = get_class(['cls', v[1], v[2]])
        return cls(*[build(x) for x in v[3]])
    if k == 'r':
        return RawPlutusData(build(v[1]))
    raise ValueError(k)


_SUB = [0]


def typed_case(c):
    if c.get('pp'):
        pp_begin()
    try:
        return typed_case0(c)
    finally:
        pp_end()


def typed_case0(c):
    """Order of the routes: everything that does not call from_primitive first (construction, to_cbor, hash, redeemer,
    to_dict, from_dict, from_json), then the two from_cbor routes -- from_primitive replaces string annotations by the
    evaluated hints, and from_dict is sensitive to that (see pp_begin)."""
    t, ref = c['t'], bytes.fromhex(c['ref'])
    out = {}
    cls = get_class(t)
    out['src'] = SOURCES[-1] if c.get('want_src') else None
    if c.get('sub_of') is not None and c['x'][0] == 'o':
        # the class of this case is a SUBCLASS (same fields, its own CONSTR_ID) of a class with another constructor id, and an
        # instance of the PARENT is built, serialized and hashed first: what the parent class remembers is not the child's
        parent = get_class(['cls', c['sub_of'], t[2]])
        _SUB[0] += 1
        cls = dataclass(unsafe_hash=True)(type(f'Sub{_SUB[0]}_{t[1]}', (parent,), {'CONSTR_ID': t[1], '__annotations__': {}}))
        try:
            px = parent(*[build(v) for v in c['x'][3]])
            px.to_cbor(); px.hash(); px.to_dict()
        except Exception:
            pass
    try:
        x = build(c['x']) if c.get('sub_of') is None or c['x'][0] != 'o' else cls(*[build(v) for v in c['x'][3]])
    except Exception as e:
        # the value is refused (long-bytes guard, unhashable key): the routes that need the object do not exist;
        # decoding the reference bytes of its content needs the class only
        out['construct'] = '!' + err_kind(e)
        if not c.get('skip_ref'):
            out['rt_ref'] = res(lambda: cls.from_cbor(ref).to_cbor())
        return out
    out['construct'] = 'ok'
    out['enc'] = res(lambda: x.to_cbor())
    enc_ok = not out['enc'].startswith('!')
    if enc_ok:
        out['hash_ok'] = res(lambda: datum_hash(x).payload == blake(bytes.fromhex(out['enc'])) and x.hash() == datum_hash(x))

        def _red():
            # the same object as the data of a redeemer: to_primitive reaches it through the enclosing array
            r = Redeemer(x, ExecutionUnits(1, 2))
            r.tag = RedeemerTag.WITHDRAWAL
            return r.to_cbor() == b'\x84\x03\x00' + bytes.fromhex(out['enc']) + b'\x82\x01\x02'
        out['redeemer_ok'] = res(_red)
    else:
        out['hash_ok'] = out['rt_self'] = out['redeemer_ok'] = None
    td = [None]

    def _todict():
        td[0] = x.to_dict()
        return td[0]
    out['todict'] = res(_todict)
    if td[0] is not None:
        out['dict_rt'] = res(lambda: cls.from_dict(td[0]).to_cbor())
        out['json_rt'] = res(lambda: cls.from_json(x.to_json()).to_cbor())
    else:
        out['dict_rt'] = out['json_rt'] = None
    if enc_ok:
        out['rt_self'] = res(lambda: cls.from_cbor(x.to_cbor()).to_cbor())
    out['rt_ref'] = None if c.get('skip_ref') else res(lambda: cls.from_cbor(ref).to_cbor())
    if 'x2' in c and enc_ok:
        try:
            out['mut'] = mutate_route(x, c)
        except Exception as e:
            out['mut'] = {'error': err_kind(e)}
    return out


def morph(x, y):
    """turn x into the content of y IN PLACE, the way callers edit a datum they already serialized: containers are edited
    without re-assigning the field that holds them (dict clear/update, list slice assignment), nested objects of the same
    class are edited recursively (no assignment on the outer object), everything else is a plain field assignment"""
    for f in dataclasses_fields(x):
        a, b = getattr(x, f.name), getattr(y, f.name)
        if isinstance(a, PlutusData) and type(a) is type(b):
            morph(a, b)
        elif isinstance(a, dict) and isinstance(b, dict) and type(a) is type(b):
            a.clear(); a.update(b)
        elif isinstance(a, (list, IndefiniteList)) and type(a) is type(b):
            a[:] = list(b)
        else:
            setattr(x, f.name, b)


def same_dict(x, y):
    try:
        a = x.to_dict()
    except Exception:
        return True                     # no JSON form (decided by the to_dict route)
    return a == y.to_dict()


def mutate_route(x, c):
    """sequence on ONE object: x has been serialized / hashed by the routes above; now edit it in place into the content
    of x2 and serialize again.  Reported: the bytes, the datum hash and the redeemer bytes of the edited object against
    those of a FRESH object built from x2 (whose own bytes are decided against the reference in the sibling case)."""
    y = build(c['x2'])
    fresh = y.to_cbor()
    fresh_hash = datum_hash(y).payload
    x.to_cbor(); x.hash(); datum_hash(x)                      # whatever these remember must not survive the edit
    morph(x, y)
    r = Redeemer(x, ExecutionUnits(1, 2)); r.tag = RedeemerTag.SPEND
    r2 = Redeemer(build(c['x2']), ExecutionUnits(1, 2)); r2.tag = RedeemerTag.SPEND
    return {'enc': x.to_cbor().hex(), 'fresh': fresh.hex(),
            'same': x.to_cbor() == fresh and datum_hash(x).payload == fresh_hash == blake(fresh) and x.hash().payload == fresh_hash
            and r.to_cbor() == r2.to_cbor() and same_dict(x, y)}


def guard_case(c):
    """construction of a typed object whose direct bytes field holds n bytes"""
    cls = get_class(['cls', c['id'], [['bytes']]])
    return {'construct': res(lambda: cls(b'\x00' * c['n']).to_cbor())}


def tag_case(c):
    out = {}
    if 'id' in c:
        out['get_tag'] = res(lambda: get_tag(c['id']))
    if 'tag' in c:
        def f():
            i, fields = get_constructor_id_and_fields(CBORTag(c['tag'], [7, [8]] if c['tag'] == 102 and not c.get('bad102') else [7, 8, 9]))
            return [i, fields]
        out['untag'] = res(f)
        out['todict'] = res(lambda: RawPlutusData(CBORTag(c['tag'], [])).to_dict())
    return out


def handler(case, payload):
    k = case['kind']
    if k == 'raw':
        return raw_case(case)
    if k == 'typed':
        return typed_case(case)
    if k == 'guard':
        return guard_case(case)
    if k == 'tag':
        return tag_case(case)
    raise ValueError(k)


if __name__ == '__main__':
    main(handler)
