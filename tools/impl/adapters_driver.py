"""C20 driver: runs the REAL chain-context adapters (Blockfrost, Ogmios v5, Ogmios v6, Kupo, cardano-cli)
on service documents supplied as JSON text, with only the network transport replaced from outside:

  blockfrost : `requests.get` (the function the blockfrost-python library calls) serves the documents;
               the real BlockFrostApi / BlockFrostChainContext run, including pagination and Namespace conversion
  ogmios_v5  : `websocket.WebSocket` in pycardano.backend.ogmios_v5 is a stub whose recv() returns the JSON-WSP text
  ogmios_v6  : `OgmiosClient` in pycardano.backend.ogmios_v6 is a stub client; the ogmios library's own
               QueryUtxo response parser runs on the JSON-RPC document
  kupo       : `requests.get` in pycardano.backend.kupo serves /matches, /datums, /scripts
  cli        : `subprocess.run` in pycardano.backend.cardano_cli returns the `query utxo --out-file /dev/stdout` text

case = {'svc': name, 'addr': bech32 text, 'docs': {key: json text}}; keys: 'main', 'script:<h>', 'script_cbor:<h>',
'script_json:<h>', 'datum:<h>'.  Result: {'ok': [utxo dumps]} or {'err': exception kind}.
The dump walks the returned pycardano objects with plain attribute reads only (no pycardano serialisation
except Address -> str/bytes, which is what the returned object is compared by)."""
from _pre import *
import json as _json
import types
from pathlib import Path

import requests
from cbor2 import CBORTag

import pycardano.backend.blockfrost as bf_mod
import pycardano.backend.cardano_cli as cli_mod
import pycardano.backend.kupo as kupo_mod
import pycardano.backend.ogmios_v5 as v5_mod
import pycardano.backend.ogmios_v6 as v6_mod
from pycardano.backend.base import ChainContext
from pycardano.nativescript import (InvalidBefore, InvalidHereAfter, NativeScript, ScriptAll, ScriptAny,
                                    ScriptNofK, ScriptPubkey)
from pycardano.plutus import PlutusV1Script, PlutusV2Script, PlutusV3Script, RawPlutusData
from pycardano.serialization import ByteString, IndefiniteList, RawCBOR

ERR_KINDS.extend(['ApiError', 'AttributeError', 'CardanoCliError', 'JSONDecodeError', 'DeserializeException',
                  'ValidationError', 'InvalidResponseError', 'CBORDecodeEOF', 'CBORDecodeError',
                  'CBORDecodeValueError'])

_REAL_GET = requests.get


# ------------------------------------------------------------------ transport stubs
class _Resp:
    def __init__(self, status, text):
        self.status_code = status
        self.text = text

    def json(self):
        return _json.loads(self.text)


class Served:
    """The documents of one case, addressed by URL path."""

    def __init__(self, docs):
        self.docs = docs
        self.log = []

    def lookup(self, key):
        self.log.append(key)
        return self.docs.get(key)


def blockfrost_get(served, addr):
    def get(url, params=None, headers=None, **kw):
        path = url.split('/api/v0', 1)[1]
        page = int((params or {}).get('page') or 1)
        if path == '/epochs/latest':
            return _Resp(200, _json.dumps({'epoch': 1, 'start_time': 0, 'end_time': 1 << 40}))
        if path == f'/addresses/{addr}/utxos':
            if page > 1:
                return _Resp(200, '[]')
            key = 'main'
        elif path.startswith('/scripts/'):
            rest = path[len('/scripts/'):]
            if rest.endswith('/cbor'):
                key = 'script_cbor:' + rest[:-5]
            elif rest.endswith('/json'):
                key = 'script_json:' + rest[:-5]
            else:
                key = 'script:' + rest
        else:
            key = None
        doc = served.lookup(key)
        if doc is None:
            return _Resp(404, _json.dumps({'status_code': 404, 'error': 'Not Found', 'message': 'not found'}))
        return _Resp(200, doc)
    return get


def kupo_get(served, addr):
    def get(url, *a, **kw):
        path = url.split('http://kupo', 1)[1]
        if path == f'/matches/{addr}?unspent':
            key = 'main'
        elif path.startswith('/datums/'):
            key = 'datum:' + path[len('/datums/'):]
        elif path.startswith('/scripts/'):
            key = 'script:' + path[len('/scripts/'):]
        else:
            key = None
        doc = served.lookup(key)
        if doc is None:
            return _Resp(404, 'null')
        return _Resp(200, doc)
    return get


class _Tip:
    slot = 1


class _DummyBackend(ChainContext):
    @property
    def last_block_slot(self):
        return 1


def run_blockfrost(served, addr):
    requests.get = blockfrost_get(served, addr)
    try:
        ctx = bf_mod.BlockFrostChainContext('project', base_url='http://stub/api')
        return ctx.utxos(addr)
    finally:
        requests.get = _REAL_GET


def run_kupo(served, addr):
    fake = types.SimpleNamespace(get=kupo_get(served, addr))
    real = kupo_mod.requests
    kupo_mod.requests = fake
    try:
        ctx = kupo_mod.KupoChainContextExtension(_DummyBackend(), kupo_url='http://kupo')
        return ctx.utxos(addr)
    finally:
        kupo_mod.requests = real


def run_v5(served, addr):
    class WS:
        def connect(self, url):
            pass

        def send(self, request):
            self.req = _json.loads(request)

        def recv(self):
            q = self.req['args'].get('query')
            if q == 'chainTip':
                return _json.dumps({'type': 'jsonwsp/response', 'version': '1.0', 'servicename': 'ogmios',
                                    'methodname': 'Query', 'result': {'slot': 1, 'hash': '00' * 32}, 'reflection': None})
            if isinstance(q, dict) and q.get('utxo') == [addr]:
                return served.lookup('main')
            raise RuntimeError(f'unexpected ogmios v5 query {q!r}')

        def close(self):
            pass

    real = v5_mod.websocket
    v5_mod.websocket = types.SimpleNamespace(WebSocket=WS)
    try:
        ctx = v5_mod.OgmiosV5ChainContext('ws://stub', pycardano.Network.TESTNET, refetch_chain_tip_interval=1000)
        return ctx.utxos(addr)
    finally:
        v5_mod.websocket = real


def run_v6(served, addr):
    from ogmios.statequery.QueryUtxo import QueryUtxo

    class Client:
        rpc_version = '2.0'

        def __init__(self, *a, **kw):
            self.query_utxo = QueryUtxo(self)
            self.query_network_tip = types.SimpleNamespace(execute=lambda: (_Tip(), None))

        def __enter__(self):
            return self

        def __exit__(self, *a):
            return False

        def send(self, payload):
            req = _json.loads(payload)
            assert req['method'] == 'queryLedgerState/utxo' and req['params'] == {'addresses': [addr]}, req

        def receive(self):
            return _json.loads(served.lookup('main'))

    real = v6_mod.OgmiosClient
    v6_mod.OgmiosClient = Client
    try:
        ctx = v6_mod.OgmiosV6ChainContext('stub', 1337, refetch_chain_tip_interval=1000)
        return ctx.utxos(addr)
    finally:
        v6_mod.OgmiosClient = real


def run_cli(served, addr):
    class FakeSubprocess:
        CalledProcessError = cli_mod.subprocess.CalledProcessError

        @staticmethod
        def run(cmd, capture_output=True, check=True):
            args = cmd[1:]
            if args[:2] == ['query', 'tip']:
                out = _json.dumps({'slot': 1, 'epoch': 1, 'block': 1, 'era': 'Conway', 'hash': '00' * 32,
                                   'syncProgress': '100.00'})
            elif args[:2] == ['query', 'utxo']:
                assert args[2:6] == ['--address', addr, '--out-file', '/dev/stdout'], args
                out = served.lookup('main')
            else:
                raise RuntimeError(f'unexpected cardano-cli command {args!r}')
            return types.SimpleNamespace(stdout=out.encode())

    real = cli_mod.subprocess
    cli_mod.subprocess = FakeSubprocess
    try:
        ctx = cli_mod.CardanoCliChainContext(Path('/bin/true'), Path('/nonexistent.socket'), Path('/nonexistent.json'),
                                             cli_mod.CardanoCliNetwork.PREPROD, refetch_chain_tip_interval=1000)
        return ctx.utxos(addr)
    finally:
        cli_mod.subprocess = real


RUN = {'blockfrost': run_blockfrost, 'kupo': run_kupo, 'ogmios_v5': run_v5, 'ogmios_v6': run_v6, 'cli': run_cli}


# ------------------------------------------------------------------ dumping the returned objects
def walk_data(x):
    """Structure of RawPlutusData.data as built by the adapter (no re-encoding)."""
    if isinstance(x, bool):
        return ['other', repr(x)]
    if isinstance(x, int):
        return ['int', x]
    if isinstance(x, bytes):
        return ['bytes', x.hex()]
    if isinstance(x, ByteString):
        return ['bytestring', x.value.hex()]
    if isinstance(x, CBORTag):
        v = x.value
        if x.tag == 102 and isinstance(v, list) and len(v) == 2 and isinstance(v[1], IndefiniteList):
            return ['tag102', v[0], [walk_data(i) for i in v[1]]]
        if isinstance(v, list):
            return ['tag', x.tag, [walk_data(i) for i in v]]
        return ['other', repr(x)]
    if isinstance(x, IndefiniteList):
        return ['ilist', [walk_data(i) for i in x]]
    if isinstance(x, dict):
        return ['dict', [[walk_data(k), walk_data(v)] for k, v in x.items()]]
    return ['other', repr(x)]


def walk_native(s):
    if type(s) is ScriptPubkey:
        return ['sig', s.key_hash.payload.hex()]
    if type(s) is ScriptAll:
        return ['all', [walk_native(i) for i in s.native_scripts]]
    if type(s) is ScriptAny:
        return ['any', [walk_native(i) for i in s.native_scripts]]
    if type(s) is ScriptNofK:
        return ['atLeast', s.n, [walk_native(i) for i in s.native_scripts]]
    if type(s) is InvalidBefore:
        return ['after', s.before]
    if type(s) is InvalidHereAfter:
        return ['before', s.after]
    return ['other', repr(s)]


def dump_script(s):
    if s is None:
        return None
    if type(s) is PlutusV1Script:
        return ['plutus', 1, bytes(s).hex()]
    if type(s) is PlutusV2Script:
        return ['plutus', 2, bytes(s).hex()]
    if type(s) is PlutusV3Script:
        return ['plutus', 3, bytes(s).hex()]
    if isinstance(s, NativeScript):
        return ['native', walk_native(s)]
    return ['other', repr(s)]


def dump_datum(d):
    if d is None:
        return None
    if type(d) is RawCBOR:
        return ['raw', d.cbor.hex()]
    if type(d) is RawPlutusData:
        return ['data', walk_data(d.data)]
    return ['other', repr(d)]


def dump_utxo(u):
    o = u.output
    amount = o.amount
    if isinstance(amount, int):
        coin, ma = amount, []
    else:
        coin = amount.coin
        ma = [[p.payload.hex(), [[n.payload.hex(), q] for n, q in a.data.items()]]
              for p, a in amount.multi_asset.data.items()]
    return {'txid': u.input.transaction_id.payload.hex(), 'index': u.input.index,
            'addr': str(o.address), 'addr_bytes': bytes(o.address.to_primitive()).hex(),
            'lovelace': coin, 'assets': ma,
            'datum_hash': None if o.datum_hash is None else o.datum_hash.payload.hex(),
            'datum': dump_datum(o.datum), 'script': dump_script(o.script)}


def handler(case, payload):
    if case.get('make_addresses'):
        return make_addresses()
    served = Served(case['docs'])
    try:
        utxos = RUN[case['svc']](served, case['addr'])
    except RuntimeError:
        raise                                   # harness-level problem: report as driver_error
    except AssertionError as e:
        if 'unexpected' in str(e) or (e.args and isinstance(e.args[0], (dict, list))):
            raise
        return {'err': err_kind(e), 'msg': str(e)[:200], 'requests': served.log}
    except Exception as e:
        return {'err': err_kind(e), 'msg': str(e)[:200], 'requests': served.log}
    return {'ok': [dump_utxo(u) for u in utxos], 'requests': served.log}


def make_addresses():
    """Sample addresses (used once to produce the fixed pool in tools/props/c20.py; not an oracle)."""
    from pycardano import Address, Network, PaymentSigningKey, PaymentVerificationKey, StakeSigningKey, StakeVerificationKey
    out = []
    for seed, net in ((1, Network.TESTNET), (2, Network.MAINNET)):
        psk = PaymentSigningKey(bytes([seed]) * 32)
        ssk = StakeSigningKey(bytes([seed + 7]) * 32)
        pvk = PaymentVerificationKey.from_signing_key(psk)
        svk = StakeVerificationKey.from_signing_key(ssk)
        for a in (Address(pvk.hash(), svk.hash(), net), Address(pvk.hash(), None, net)):
            out.append([str(a), bytes(a.to_primitive()).hex()])
    return out


if __name__ == '__main__':
    main(handler)
