"""C20 driver: runs the REAL chain-context adapters (Blockfrost, Ogmios v5, Ogmios v6, Kupo, cardano-cli)
on service documents supplied as JSON text, with only the network transport and the clock replaced from outside:

  blockfrost : `requests.get` (the function the blockfrost-python library calls) serves the documents;
               the real BlockFrostApi / BlockFrostChainContext run, including pagination and Namespace conversion
  ogmios_v5  : `websocket.WebSocket` in pycardano.backend.ogmios_v5 is a stub whose recv() returns the JSON-WSP text
  ogmios_v6  : `OgmiosClient` in pycardano.backend.ogmios_v6 is a stub client; the ogmios library's own
               QueryUtxo response parser runs on the JSON-RPC document
  kupo       : `requests.get` in pycardano.backend.kupo serves /matches, /datums, /scripts; the wrapped backend is a
               ChainContext whose `last_block_slot` reads the service's tip live
  cli        : `subprocess.run` in pycardano.backend.cardano_cli returns the `query utxo --out-file /dev/stdout` text
  clock      : `time.monotonic` / `time.time` are a counter in ticks of 1/1024 s that only the harness advances
               (installed before cachetools is imported, so the TTL caches and the `last_block_slot` memo of the
               adapters run on it; every interval used is dyadic, so their float arithmetic is exact)

single response   case = {'svc': name, 'addr': bech32 text, 'docs': {key: json text}}; keys: 'main', 'script:<h>',
                  'script_cbor:<h>', 'script_json:<h>', 'datum:<h>'.  Result: {'ok': [utxo dumps]} or {'err': kind}.
sequence          case = {'seq': 1, 'svc', 'interval': ticks | None, 'maxsize', 'responses': [docs, ...],
                  'ledgers': [{'slot': n, 'by_addr': {addr: response index}}, ...], 'ops': [...]}: ONE adapter
                  instance; ops ['tick', dt] advance the clock, ['block', k] make ledger k the service's state (tip slot
                  and answers), ['query', addr] call utxos(addr), ['tip'] read last_block_slot, ['poll'] call
                  _is_chain_tip_updated().  Result: {'seq': [observation per op]}.
The dump walks the returned pycardano objects with plain attribute reads only (no pycardano serialisation
except Address -> str/bytes, which is what the returned object is compared by)."""
import time as _time


class _Clock:
    ticks = 0                       # 1/1024 s
    EPOCH = 1_700_000_000           # time.time() at tick 0


CLOCK = _Clock()
_time.monotonic = lambda: CLOCK.ticks / 1024.0
_time.time = lambda: _Clock.EPOCH + CLOCK.ticks / 1024.0

from _pre import *
import json as _json
import types
from pathlib import Path

import requests
from cbor2 import CBORTag

import pycardano.backend.blockfrost as bf_mod
import pycardano.backend.cardano_cli as cli_mod
import pycardano.backend.kupo as kupo_mod
import pycardano.backend.ogmios_v5 as v5_mod
import pycardano.backend.ogmios_v6 as v6_mod
from pycardano.backend.base import ChainContext
from pycardano.nativescript import (InvalidBefore, InvalidHereAfter, NativeScript, ScriptAll, ScriptAny,
                                    ScriptNofK, ScriptPubkey)
from pycardano.plutus import PlutusV1Script, PlutusV2Script, PlutusV3Script, RawPlutusData
from pycardano.serialization import ByteString, IndefiniteList, RawCBOR

ERR_KINDS.extend(['ApiError', 'AttributeError', 'CardanoCliError', 'JSONDecodeError', 'DeserializeException',
                  'ValidationError', 'InvalidResponseError', 'CBORDecodeEOF', 'CBORDecodeError',
                  'CBORDecodeValueError'])

_REAL_GET = requests.get


# ------------------------------------------------------------------ transport stubs
class _Resp:
    def __init__(self, status, text):
        self.status_code = status
        self.text = text

    def json(self):
        return _json.loads(self.text)


class Service:
    """The backend service as the stubs see it: a tip slot and, per address, the documents of its current answer.
    Side documents (scripts, datums by hash) are those of the response served last."""

    def __init__(self, slot, by_addr):
        self.log = []
        self.active = None
        self.set(slot, by_addr)

    def set(self, slot, by_addr):
        self.slot = slot
        self.by_addr = by_addr

    def main(self, addr):
        self.log.append('main')
        docs = self.by_addr.get(addr)
        if docs is None:
            raise RuntimeError(f'unexpected address {addr!r}')
        self.active = docs
        return docs['main']

    def side(self, key):
        self.log.append(key)
        return None if self.active is None or key is None else self.active.get(key)


def blockfrost_get(service):
    def get(url, params=None, headers=None, **kw):
        path = url.split('/api/v0', 1)[1]
        page = int((params or {}).get('page') or 1)
        if path == '/epochs/latest':
            return _Resp(200, _json.dumps({'epoch': 1, 'start_time': 0, 'end_time': 1 << 40}))
        if path == '/blocks/latest':
            return _Resp(200, _json.dumps({'slot': service.slot, 'height': 1, 'hash': '00' * 32, 'epoch': 1}))
        if path.startswith('/addresses/') and path.endswith('/utxos'):
            # Blockfrost pages its answers (count <= 100 per page): the adapter has to follow the pages
            doc = service.main(path[len('/addresses/'):-len('/utxos')])
            count = int((params or {}).get('count') or 100)
            try:
                items = _json.loads(doc)
            except Exception:
                items = None
            if not isinstance(items, list):
                return _Resp(200, doc if page == 1 else '[]')
            return _Resp(200, _json.dumps(items[(page - 1) * count:page * count]))
        if path.startswith('/scripts/'):
            rest = path[len('/scripts/'):]
            if rest.endswith('/cbor'):
                key = 'script_cbor:' + rest[:-5]
            elif rest.endswith('/json'):
                key = 'script_json:' + rest[:-5]
            else:
                key = 'script:' + rest
        else:
            key = None
        doc = service.side(key)
        if doc is None:
            return _Resp(404, _json.dumps({'status_code': 404, 'error': 'Not Found', 'message': 'not found'}))
        return _Resp(200, doc)
    return get


def kupo_get(service):
    def get(url, *a, **kw):
        path = url.split('http://kupo', 1)[1]
        if path.startswith('/matches/') and path.endswith('?unspent'):
            return _Resp(200, service.main(path[len('/matches/'):-len('?unspent')]))
        if path.startswith('/datums/'):
            key = 'datum:' + path[len('/datums/'):]
        elif path.startswith('/scripts/'):
            key = 'script:' + path[len('/scripts/'):]
        else:
            key = None
        doc = service.side(key)
        if doc is None:
            return _Resp(404, 'null')
        return _Resp(200, doc)
    return get


# every open_X builds ONE adapter instance on the stubbed transport and returns (context, restore)
def open_blockfrost(service, interval, maxsize):
    requests.get = blockfrost_get(service)

    def restore():
        requests.get = _REAL_GET
    try:
        return bf_mod.BlockFrostChainContext('project', base_url='http://stub/api'), restore
    except BaseException:
        restore()
        raise


def open_kupo(service, interval, maxsize):
    class LiveBackend(ChainContext):
        @property
        def last_block_slot(self):
            return service.slot

    real = kupo_mod.requests
    kupo_mod.requests = types.SimpleNamespace(get=kupo_get(service))

    def restore():
        kupo_mod.requests = real
    kw = {}
    if interval is not None:
        kw['refetch_chain_tip_interval'] = interval
    if maxsize is not None:
        kw['utxo_cache_size'] = maxsize
    return kupo_mod.KupoChainContextExtension(LiveBackend(), kupo_url='http://kupo', **kw), restore


def open_v5(service, interval, maxsize):
    class WS:
        def connect(self, url):
            pass

        def send(self, request):
            self.req = _json.loads(request)

        def recv(self):
            q = self.req['args'].get('query')
            if q == 'chainTip':
                return _json.dumps({'type': 'jsonwsp/response', 'version': '1.0', 'servicename': 'ogmios',
                                    'methodname': 'Query', 'result': {'slot': service.slot, 'hash': '00' * 32},
                                    'reflection': None})
            if isinstance(q, dict) and isinstance(q.get('utxo'), list) and len(q['utxo']) == 1 \
                    and isinstance(q['utxo'][0], str):
                return service.main(q['utxo'][0])
            raise RuntimeError(f'unexpected ogmios v5 query {q!r}')

        def close(self):
            pass

    real = v5_mod.websocket
    v5_mod.websocket = types.SimpleNamespace(WebSocket=WS)

    def restore():
        v5_mod.websocket = real
    kw = {} if maxsize is None else {'utxo_cache_size': maxsize}
    return v5_mod.OgmiosV5ChainContext('ws://stub', pycardano.Network.TESTNET,
                                       refetch_chain_tip_interval=1000 if interval is None else interval, **kw), restore


def open_v6(service, interval, maxsize):
    from ogmios.statequery.QueryUtxo import QueryUtxo

    class Client:
        rpc_version = '2.0'

        def __init__(self, *a, **kw):
            self.query_utxo = QueryUtxo(self)
            self.query_network_tip = types.SimpleNamespace(
                execute=lambda: (types.SimpleNamespace(slot=service.slot), None))

        def __enter__(self):
            return self

        def __exit__(self, *a):
            return False

        def send(self, payload):
            req = _json.loads(payload)
            assert req['method'] == 'queryLedgerState/utxo' and list(req['params']) == ['addresses'] \
                and len(req['params']['addresses']) == 1, req
            self.addr = req['params']['addresses'][0]

        def receive(self):
            return _json.loads(service.main(self.addr))

    real = v6_mod.OgmiosClient
    v6_mod.OgmiosClient = Client

    def restore():
        v6_mod.OgmiosClient = real
    kw = {} if maxsize is None else {'utxo_cache_size': maxsize}
    if interval is not None:                      # None: the constructor's default (DEFAULT_REFETCH_INTERVAL = 1000 s)
        kw['refetch_chain_tip_interval'] = interval
    return v6_mod.OgmiosV6ChainContext('stub', 1337, **kw), restore


def open_cli(service, interval, maxsize):
    class FakeSubprocess:
        CalledProcessError = cli_mod.subprocess.CalledProcessError

        @staticmethod
        def run(cmd, capture_output=True, check=True):
            args = cmd[1:]
            if args[:2] == ['query', 'tip']:
                out = _json.dumps({'slot': service.slot, 'epoch': 1, 'block': 1, 'era': 'Conway', 'hash': '00' * 32,
                                   'syncProgress': '100.00'})
            elif args[:2] == ['query', 'utxo']:
                assert args[2] == '--address' and args[4:6] == ['--out-file', '/dev/stdout'], args
                out = service.main(args[3])
            else:
                raise RuntimeError(f'unexpected cardano-cli command {args!r}')
            return types.SimpleNamespace(stdout=out.encode())

    real = cli_mod.subprocess
    cli_mod.subprocess = FakeSubprocess

    def restore():
        cli_mod.subprocess = real
    kw = {} if maxsize is None else {'utxo_cache_size': maxsize}
    return cli_mod.CardanoCliChainContext(Path('/bin/true'), Path('/nonexistent.socket'), Path('/nonexistent.json'),
                                          cli_mod.CardanoCliNetwork.PREPROD,
                                          refetch_chain_tip_interval=1000 if interval is None else interval, **kw), restore


OPEN = {'blockfrost': open_blockfrost, 'kupo': open_kupo, 'ogmios_v5': open_v5, 'ogmios_v6': open_v6, 'cli': open_cli}


# ------------------------------------------------------------------ dumping the returned objects
def walk_data(x):
    """Structure of RawPlutusData.data as built by the adapter (no re-encoding)."""
    if isinstance(x, bool):
        return ['other', repr(x)]
    if isinstance(x, int):
        return ['int', x]
    if isinstance(x, bytes):
        return ['bytes', x.hex()]
    if isinstance(x, ByteString):
        return ['bytestring', x.value.hex()]
    if isinstance(x, CBORTag):
        v = x.value
        if x.tag == 102 and isinstance(v, list) and len(v) == 2 and isinstance(v[1], IndefiniteList):
            return ['tag102', v[0], [walk_data(i) for i in v[1]]]
        if isinstance(v, list):
            return ['tag', x.tag, [walk_data(i) for i in v]]
        return ['other', repr(x)]
    if isinstance(x, IndefiniteList):
        return ['ilist', [walk_data(i) for i in x]]
    if isinstance(x, dict):
        return ['dict', [[walk_data(k), walk_data(v)] for k, v in x.items()]]
    return ['other', repr(x)]


def walk_native(s):
    if type(s) is ScriptPubkey:
        return ['sig', s.key_hash.payload.hex()]
    if type(s) is ScriptAll:
        return ['all', [walk_native(i) for i in s.native_scripts]]
    if type(s) is ScriptAny:
        return ['any', [walk_native(i) for i in s.native_scripts]]
    if type(s) is ScriptNofK:
        return ['atLeast', s.n, [walk_native(i) for i in s.native_scripts]]
    if type(s) is InvalidBefore:
        return ['after', s.before]
    if type(s) is InvalidHereAfter:
        return ['before', s.after]
    return ['other', repr(s)]


def dump_script(s):
    if s is None:
        return None
    if type(s) is PlutusV1Script:
        return ['plutus', 1, bytes(s).hex()]
    if type(s) is PlutusV2Script:
        return ['plutus', 2, bytes(s).hex()]
    if type(s) is PlutusV3Script:
        return ['plutus', 3, bytes(s).hex()]
    if isinstance(s, NativeScript):
        return ['native', walk_native(s)]
    return ['other', repr(s)]


def dump_datum(d):
    if d is None:
        return None
    if type(d) is RawCBOR:
        return ['raw', d.cbor.hex()]
    if type(d) is RawPlutusData:
        return ['data', walk_data(d.data)]
    return ['other', repr(d)]


def dump_utxo(u):
    o = u.output
    amount = o.amount
    if isinstance(amount, int):
        coin, ma = amount, []
    else:
        coin = amount.coin
        ma = [[p.payload.hex(), [[n.payload.hex(), q] for n, q in a.data.items()]]
              for p, a in amount.multi_asset.data.items()]
    return {'txid': u.input.transaction_id.payload.hex(), 'index': u.input.index,
            'addr': str(o.address), 'addr_bytes': bytes(o.address.to_primitive()).hex(),
            'lovelace': coin, 'assets': ma,
            'datum_hash': None if o.datum_hash is None else o.datum_hash.payload.hex(),
            'datum': dump_datum(o.datum), 'script': dump_script(o.script)}


def observe(service, thunk):
    """One call into the adapter; exceptions of the code under test are results."""
    n = len(service.log)
    try:
        utxos = thunk()
    except RuntimeError:
        raise                                   # harness-level problem: report as driver_error
    except AssertionError as e:
        if 'unexpected' in str(e) or (e.args and isinstance(e.args[0], (dict, list))):
            raise
        return {'err': err_kind(e), 'msg': str(e)[:200], 'requests': service.log[n:]}
    except Exception as e:
        return {'err': err_kind(e), 'msg': str(e)[:200], 'requests': service.log[n:]}
    return {'ok': [dump_utxo(u) for u in utxos], 'requests': service.log[n:]}


def run_sequence(case):
    responses, ledgers = case['responses'], case['ledgers']

    def answers(k):
        return {a: responses[j] for a, j in ledgers[k]['by_addr'].items()}

    service = Service(ledgers[0]['slot'], answers(0))
    interval = None if case['interval'] is None else case['interval'] / 1024.0
    ctx, restore = OPEN[case['svc']](service, interval, case['maxsize'])
    out = []
    try:
        for op in case['ops']:
            if op[0] == 'tick':
                CLOCK.ticks += op[1]
                out.append(None)
            elif op[0] == 'block':
                service.set(ledgers[op[1]]['slot'], answers(op[1]))
                out.append(None)
            elif op[0] == 'query':
                out.append(observe(service, lambda: ctx.utxos(op[1])))
            elif op[0] == 'tip':
                out.append({'slot': ctx.last_block_slot})
            elif op[0] == 'poll':
                out.append({'polled': bool(ctx._is_chain_tip_updated())})
            else:
                raise RuntimeError(f'unexpected op {op!r}')
    finally:
        restore()
    return {'seq': out}


def handler(case, payload):
    if case.get('make_addresses'):
        return make_addresses()
    CLOCK.ticks += 4096 * 1024                  # nothing memoised anywhere survives from the previous case
    if case.get('seq'):
        return run_sequence(case)
    service = Service(1, {case['addr']: case['docs']})
    ctx, restore = OPEN[case['svc']](service, None, None)
    try:
        return observe(service, lambda: ctx.utxos(case['addr']))
    finally:
        restore()


def make_addresses():
    """Sample addresses (used once to produce the fixed pool in tools/props/c20.py; not an oracle)."""
    from pycardano import Address, Network, PaymentSigningKey, PaymentVerificationKey, StakeSigningKey, StakeVerificationKey
    out = []
    for seed, net in ((1, Network.TESTNET), (2, Network.MAINNET)):
        psk = PaymentSigningKey(bytes([seed]) * 32)
        ssk = StakeSigningKey(bytes([seed + 7]) * 32)
        pvk = PaymentVerificationKey.from_signing_key(psk)
        svk = StakeVerificationKey.from_signing_key(ssk)
        for a in (Address(pvk.hash(), svk.hash(), net), Address(pvk.hash(), None, net)):
            out.append([str(a), bytes(a.to_primitive()).hex()])
    return out


if __name__ == '__main__':
    main(handler)
