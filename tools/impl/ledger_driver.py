"""C02 driver: builds Conway transaction content through the PUBLIC constructors of pycardano, the way a user
of the library expresses it, and reports the bytes of `to_cbor()`.

A case is {"kind": K, "content": C}, K in tx | body | wits | output | cert | proposal | aux; the JSON content
format mirrors coq/theories/Ledger.v (see tools/props/ledgergen.py for the generator and the Coq renderer).
Result: {"cbor": hex} or {"error": err_kind(e)} when the code under test raises.

Conventions (the "wire options" of the content, all carried by the content itself):
  * tagged     every set-typed field is an OrderedSet / NonEmptyOrderedSet(list, use_tag=tagged): body inputs,
               collateral, required_signers, reference_inputs, proposal_procedures; witness vkey_witnesses,
               native_scripts, plutus_v1/v2/v3_script; PoolParams.pool_owners; UpdateCommittee.committee_cold_credentials.
               certificates, outputs, plutus_data, bootstrap_witness, redeemer lists are plain Python lists.
  * o_map      false: TransactionOutput(addr, Value, datum_hash=..) (legacy array); true: post_alonzo=True.
               The amount is ALWAYS Value(coin, MultiAsset) (MultiAsset possibly empty).
  * Plutus data (inline datum, redeemer data, witness data) = RawPlutusData(primitive) in the canonical raw form
               pycardano itself round-trips: constructor tags 121.. / 1280.. / 102, non-empty sequences as
               IndefiniteList, empty ones as [], maps as dict (keys int / bytes only), bytes > 64 as ByteString.
  * redeemers  [as_map, [..]]: false -> list of Redeemer (tag / index attributes set after construction, they
               are init=False), true -> RedeemerMap {RedeemerKey: RedeemerValue}.
  * fractions  [n, d] -> fractions.Fraction(n, d).  Fraction NORMALISES (2/4 -> 1/2): contents carry coprime
               pairs with d >= 1 only (generator convention; the non-coprime region is not expressible with a
               Fraction-typed field).
  * enums      content numbers map to enum members BY NAME: vote 0/1/2 -> Vote.NO/YES/ABSTAIN; drep ->
               DRepKind.VERIFICATION_KEY_HASH/SCRIPT_HASH/ALWAYS_ABSTAIN/ALWAYS_NO_CONFIDENCE; redeemer tag 0..5 ->
               RedeemerTag.SPEND/MINT/CERTIFICATE/WITHDRAWAL/VOTING/PROPOSING; network_id 0/1 -> Network.TESTNET/
               MAINNET; voters -> VoterType.COMMITTEE_HOT/DREP/STAKING_POOL with VerificationKeyHash/ScriptHash.
  * relays     PoolParams(relays=<list, possibly empty>) — never the None default; no `id`.
  * witness sets: payload["wits_route"] = "ctor" (default: the sets are passed to the TransactionWitnessSet
               constructor, whose __post_init__ re-wraps them with use_tag=True) | "setattr" (the set-typed fields
               are assigned after construction, which keeps use_tag=False).
  * every dict-like class (Withdrawals, MultiAsset, Asset, VotingProcedures, ...) is filled by item assignment
               (the type-checked public route); Metadata is built by its constructor (the validated route).
"""
from _pre import *
import dataclasses
from fractions import Fraction

from cbor2 import CBORTag
from pycardano import (Address, AlonzoMetadata, Anchor, Asset, AssetName, AuthCommitteeHotCertificate,
                       AuxiliaryData, DRep, DRepCredential, DRepKind, ExecutionUnits, InvalidBefore,
                       InvalidHereAfter, Metadata, MultiAsset, MultiHostName, Network, PlutusV1Script,
                       PlutusV2Script, PlutusV3Script, PoolMetadata, PoolParams, PoolRegistration, PoolRetirement,
                       RawPlutusData, Redeemer, RedeemerKey, RedeemerMap, RedeemerTag, RedeemerValue, RegDRepCert,
                       ResignCommitteeColdCertificate, ScriptAll, ScriptAny, ScriptNofK, ScriptPubkey,
                       ShelleyMarryMetadata, SingleHostAddr, SingleHostName, StakeAndVoteDelegation,
                       StakeCredential, StakeDelegation, StakeDeregistration, StakeDeregistrationConway,
                       StakeRegistration, StakeRegistrationAndDelegation,
                       StakeRegistrationAndDelegationAndVoteDelegation, StakeRegistrationAndVoteDelegation,
                       StakeRegistrationConway, Transaction, TransactionBody, TransactionInput, TransactionOutput,
                       TransactionWitnessSet, UnregDRepCertificate, UpdateDRepCertificate, Value,
                       VerificationKey, VerificationKeyWitness, VoteDelegation, Withdrawals)
from pycardano.governance import (CommitteeColdCredential, CommitteeColdCredentialEpochMap, DRepVotingThresholds,
                                  ExUnitPrices, GovActionId, GovActionIdToVotingProcedure, HardForkInitiationAction,
                                  InfoAction, NewConstitution, NoConfidence, ParameterChangeAction,
                                  PoolVotingThresholds, ProposalProcedure, ProtocolParamUpdate, TreasuryWithdrawal,
                                  TreasuryWithdrawalsAction, UpdateCommittee, Vote, Voter, VoterType,
                                  VotingProcedure, VotingProcedures)
from pycardano.hash import (AnchorDataHash, AuxiliaryDataHash, DatumHash, PolicyHash, PoolKeyHash, PoolMetadataHash,
                            RewardAccountHash, ScriptDataHash, ScriptHash, TransactionId, VerificationKeyHash,
                            VrfKeyHash)
from pycardano.serialization import ByteString, IndefiniteList, NonEmptyOrderedSet, OrderedSet


# content numbers -> enum MEMBERS BY NAME (the way a user writes them), never by value lookup, so that a changed
# enum value in the source changes the emitted bytes
VOTES = {0: Vote.NO, 1: Vote.YES, 2: Vote.ABSTAIN}
REDEEMER_TAGS = {0: RedeemerTag.SPEND, 1: RedeemerTag.MINT, 2: RedeemerTag.CERTIFICATE, 3: RedeemerTag.WITHDRAWAL,
                 4: RedeemerTag.VOTING, 5: RedeemerTag.PROPOSING}
NETWORKS = {0: Network.TESTNET, 1: Network.MAINNET}


def hb(h):
    return bytes.fromhex(h)


def txt(h):
    return bytes.fromhex(h).decode('utf-8')


def frac(q):
    return Fraction(q[0], q[1])


def opt(f, x):
    return None if x is None else f(x)


# ---------------------------------------------------------------- Plutus data (canonical raw form)
import hashlib as _hashlib, json as _json, random as _random
VAR = _random.Random(0)     # per-case choice among EQUIVALENT ways a user can hand over the same content (reseeded per case)


def as_set(cls, xs, tagged):
    """A set with exactly the members xs (pairwise different), reached the way callers reach it: all at once, or naming a member
    more than once within one batch, or in several extend / append steps that overlap -- a set keeps each member once."""
    xs = list(xs)
    r = VAR.random()
    if not xs or r < 0.6:
        return cls(xs, use_tag=tagged)
    j = VAR.randrange(len(xs))
    if r < 0.75:                                       # one batch naming a member twice (again right after, or at the end)
        k = VAR.choice([j + 1, len(xs)])
        return cls(xs[:k] + [xs[j]] + xs[k:], use_tag=tagged)
    if r < 0.9:                                        # two batches that overlap, the second repeats itself
        k = VAR.randrange(1, len(xs) + 1)
        s = cls(xs[:k], use_tag=tagged)
        s.extend([xs[VAR.randrange(k)]] + xs[k:] + xs[k:k + 1])
        return s
    s = cls(xs[:1], use_tag=tagged)                    # member by member, one of them twice
    for x in xs[1:] + [xs[j]]:
        s.append(x)
    return s


def reseed(case):
    VAR.seed(_hashlib.sha256(_json.dumps(case, sort_keys=True).encode()).hexdigest())


def data_prim(d, key=False, root=False):
    k = d[0]
    if k == 'constr':
        i, fs = d[1], [data_prim(f) for f in d[2]]
        v = IndefiniteList(fs) if fs else []
        if 0 <= i < 7:
            return CBORTag(121 + i, v)
        if 7 <= i < 128:
            return CBORTag(1280 + (i - 7), v)
        return CBORTag(102, [i, v])
    if k == 'map':
        out = {}
        for a, b in d[1]:
            out[data_prim(a, key=True)] = data_prim(b)
        return out
    if k == 'list':
        xs = [data_prim(f) for f in d[1]]
        return IndefiniteList(xs) if xs else []
    if k == 'int':
        return d[1]
    if k == 'bytes':
        b = hb(d[1])
        if len(b) > 64:
            return ByteString(b)
        # a ByteString of at most 64 bytes must be emitted exactly like plain bytes (definite length)
        return ByteString(b) if (not key and not root and VAR.random() < 0.4) else b   # RawPlutusData rejects a ByteString root
    raise ValueError(k)


def mk_data(d):
    # an integer / short byte string / map root may also be handed over as the bare Python value (Datum allows it)
    if d[0] in ('int', 'map') or (d[0] == 'bytes' and len(d[1]) <= 128):
        if VAR.random() < 0.5:
            return data_prim(d, root=True)
    return RawPlutusData(data_prim(d, root=True))


# ---------------------------------------------------------------- scripts
def mk_nscript(s):
    k = s[0]
    if k == 'sig':
        return ScriptPubkey(VerificationKeyHash(hb(s[1])))
    if k == 'all':
        return ScriptAll([mk_nscript(x) for x in s[1]])
    if k == 'any':
        return ScriptAny([mk_nscript(x) for x in s[1]])
    if k == 'ofk':
        return ScriptNofK(s[1], [mk_nscript(x) for x in s[2]])
    if k == 'invalid_before':
        return InvalidBefore(s[1])
    if k == 'invalid_hereafter':
        return InvalidHereAfter(s[1])
    raise ValueError(k)


PLUTUS = {1: PlutusV1Script, 2: PlutusV2Script, 3: PlutusV3Script}


def mk_script(s):
    if s[0] == 'native':
        return mk_nscript(s[1])
    if s[0] == 'plutus':
        return PLUTUS[s[1]](hb(s[2]))
    raise ValueError(s[0])


# ---------------------------------------------------------------- values, inputs, outputs
def mk_multiasset(bundle):
    ma = MultiAsset()
    for p, names in bundle:
        a = Asset()
        for n, q in names:
            a[AssetName(hb(n))] = q
        ma[ScriptHash(hb(p))] = a
    return ma


def mk_input(i):
    return TransactionInput(TransactionId(hb(i[0])), i[1])


def mk_output(o):
    addr = Address.from_primitive(hb(o['addr']))
    amount = Value(o['coin'], mk_multiasset(o['assets']))
    dh, datum = None, None
    if o['datum'] is not None:
        if o['datum'][0] == 'hash':
            dh = DatumHash(hb(o['datum'][1]))
        elif o['datum'][0] == 'inline':
            datum = mk_data(o['datum'][1])
        else:
            raise ValueError(o['datum'][0])
    script = opt(mk_script, o['script'])
    if not o['map']:
        if datum is not None or script is not None:
            raise ValueError('legacy output cannot carry an inline datum or a script (output_wf)')
        return TransactionOutput(addr, amount, datum_hash=dh)
    return TransactionOutput(addr, amount, datum_hash=dh, datum=datum, script=script, post_alonzo=True)


# ---------------------------------------------------------------- credentials, anchors, pools, certificates
def cred_hash(c):
    if c[0] == 'key':
        return VerificationKeyHash(hb(c[1]))
    if c[0] == 'script':
        return ScriptHash(hb(c[1]))
    raise ValueError(c[0])


def mk_cred(c, cls=StakeCredential):
    return cls(cred_hash(c))


def mk_drep(d):
    k = d[0]
    if k == 'key':
        return DRep(DRepKind.VERIFICATION_KEY_HASH, VerificationKeyHash(hb(d[1])))
    if k == 'script':
        return DRep(DRepKind.SCRIPT_HASH, ScriptHash(hb(d[1])))
    if k == 'abstain':
        return DRep(DRepKind.ALWAYS_ABSTAIN)
    if k == 'noconf':
        return DRep(DRepKind.ALWAYS_NO_CONFIDENCE)
    raise ValueError(k)


def mk_anchor(a):
    return Anchor(txt(a[0]), AnchorDataHash(hb(a[1])))


def mk_relay(r):
    k = r[0]
    if k == 'addr':
        return SingleHostAddr(r[1], ipv4=opt(hb, r[2]), ipv6=opt(hb, r[3]))
    if k == 'name':
        return SingleHostName(r[1], txt(r[2]))
    if k == 'multi':
        return MultiHostName(txt(r[1]))
    raise ValueError(k)


def mk_pool(p, tagged):
    return PoolParams(
        operator=PoolKeyHash(hb(p['operator'])),
        vrf_keyhash=VrfKeyHash(hb(p['vrf'])),
        pledge=p['pledge'],
        cost=p['cost'],
        margin=frac(p['margin']),
        reward_account=RewardAccountHash(hb(p['reward'])),
        pool_owners=as_set(OrderedSet, [VerificationKeyHash(hb(h)) for h in p['owners']], tagged),
        relays=[mk_relay(r) for r in p['relays']],
        pool_metadata=opt(lambda m: PoolMetadata(txt(m[0]), PoolMetadataHash(hb(m[1]))), p['meta']))


def mk_cert(c, tagged):
    k = c[0]
    pool = lambda h: PoolKeyHash(hb(h))
    if k == 'reg':
        return StakeRegistration(mk_cred(c[1]))
    if k == 'dereg':
        return StakeDeregistration(mk_cred(c[1]))
    if k == 'deleg':
        return StakeDelegation(mk_cred(c[1]), pool(c[2]))
    if k == 'poolreg':
        return PoolRegistration(mk_pool(c[1], tagged))
    if k == 'poolretire':
        return PoolRetirement(pool(c[1]), c[2])
    if k == 'regc':
        return StakeRegistrationConway(mk_cred(c[1]), c[2])
    if k == 'deregc':
        return StakeDeregistrationConway(mk_cred(c[1]), c[2])
    if k == 'votedeleg':
        return VoteDelegation(mk_cred(c[1]), mk_drep(c[2]))
    if k == 'stakevotedeleg':
        return StakeAndVoteDelegation(mk_cred(c[1]), pool(c[2]), mk_drep(c[3]))
    if k == 'stakeregdeleg':
        return StakeRegistrationAndDelegation(mk_cred(c[1]), pool(c[2]), c[3])
    if k == 'voteregdeleg':
        return StakeRegistrationAndVoteDelegation(mk_cred(c[1]), mk_drep(c[2]), c[3])
    if k == 'stakevoteregdeleg':
        return StakeRegistrationAndDelegationAndVoteDelegation(mk_cred(c[1]), pool(c[2]), mk_drep(c[3]), c[4])
    if k == 'authhot':
        return AuthCommitteeHotCertificate(mk_cred(c[1]), mk_cred(c[2]))
    if k == 'resigncold':
        return ResignCommitteeColdCertificate(mk_cred(c[1]), opt(mk_anchor, c[2]))
    if k == 'regdrep':
        return RegDRepCert(mk_cred(c[1], DRepCredential), c[2], opt(mk_anchor, c[3]))
    if k == 'unregdrep':
        return UnregDRepCertificate(mk_cred(c[1], DRepCredential), c[2])
    if k == 'updatedrep':
        return UpdateDRepCertificate(mk_cred(c[1], DRepCredential), opt(mk_anchor, c[2]))
    raise ValueError(k)


# ---------------------------------------------------------------- governance
def mk_gaid(g):
    return GovActionId(TransactionId(hb(g[0])), g[1])


def mk_voter(v):
    k, h = v[0], hb(v[1])
    if k == 'cckey':
        return Voter(VerificationKeyHash(h), VoterType.COMMITTEE_HOT)
    if k == 'ccscript':
        return Voter(ScriptHash(h), VoterType.COMMITTEE_HOT)
    if k == 'drepkey':
        return Voter(VerificationKeyHash(h), VoterType.DREP)
    if k == 'drepscript':
        return Voter(ScriptHash(h), VoterType.DREP)
    if k == 'pool':
        return Voter(VerificationKeyHash(h), VoterType.STAKING_POOL)
    raise ValueError(k)


def mk_votes(vs):
    out = VotingProcedures()
    for voter, procs in vs:
        inner = GovActionIdToVotingProcedure()
        for g, (vote, anchor) in procs:
            inner[mk_gaid(g)] = VotingProcedure(VOTES[vote], opt(mk_anchor, anchor))
        out[mk_voter(voter)] = inner
    return out


# the 30 slots of a ppu are aligned with Ledger.ppu_keys = the keys of the protocol_param_update rule in order
PPU_KEYS = [0, 1, 2, 3, 4, 5, 6, 7, 8, 9, 10, 11, 16, 17, 18, 19, 20, 21, 22, 23, 24, 25, 26, 27, 28, 29, 30, 31, 32, 33]
_PPU_FIELDS = {f.metadata['key']: f.name for f in dataclasses.fields(ProtocolParamUpdate)}
if sorted(_PPU_FIELDS) != PPU_KEYS:                 # fail closed: the class no longer has the keys of the rule
    raise RuntimeError(f'ProtocolParamUpdate keys {sorted(_PPU_FIELDS)} differ from Ledger.ppu_keys')


def mk_ppval(key, v):
    k = v[0]
    if k == 'int':
        return v[1]
    if k == 'rat':
        return frac(v[1])
    if k == 'prices':
        return ExUnitPrices(frac(v[1]), frac(v[2]))
    if k == 'units':
        return ExecutionUnits(v[1], v[2])
    if k == 'thr':
        cls = {25: PoolVotingThresholds, 26: DRepVotingThresholds}[key]
        return cls(*[frac(q) for q in v[1]])
    raise ValueError(k)


def mk_ppu(slots):
    if len(slots) != len(PPU_KEYS):
        raise ValueError('ppu must have exactly 30 slots')
    kw = {}
    for key, v in zip(PPU_KEYS, slots):
        if v is not None:
            if key == 18:
                raise ValueError('cost models are outside the reference model')
            kw[_PPU_FIELDS[key]] = mk_ppval(key, v)
    return ProtocolParamUpdate(**kw)


def mk_gov_action(g, tagged):
    k = g[0]
    policy = lambda h: PolicyHash(hb(h))
    if k == 'param':
        return ParameterChangeAction(opt(mk_gaid, g[1]), mk_ppu(g[2]), opt(policy, g[3]))
    if k == 'hardfork':
        return HardForkInitiationAction(opt(mk_gaid, g[1]), (g[2], g[3]))
    if k == 'treasury':
        wd = TreasuryWithdrawal()
        for r, n in g[1]:
            wd[hb(r)] = n
        return TreasuryWithdrawalsAction(wd, opt(policy, g[2]))
    if k == 'noconf':
        return NoConfidence(opt(mk_gaid, g[1]))
    if k == 'committee':
        exp = CommitteeColdCredentialEpochMap()
        for c, e in g[3]:
            exp[mk_cred(c, CommitteeColdCredential)] = e
        return UpdateCommittee(opt(mk_gaid, g[1]),
                               as_set(OrderedSet, [mk_cred(c, CommitteeColdCredential) for c in g[2]], tagged),
                               exp, frac(g[4]))
    if k == 'constitution':
        return NewConstitution(opt(mk_gaid, g[1]), (mk_anchor(g[2]), opt(lambda h: ScriptHash(hb(h)), g[3])))
    if k == 'info':
        return InfoAction()
    raise ValueError(k)


def mk_proposal(p, tagged):
    return ProposalProcedure(p['deposit'], hb(p['reward']), mk_gov_action(p['action'], tagged), mk_anchor(p['anchor']))


# ---------------------------------------------------------------- body
def mk_withdrawals(ws):
    out = Withdrawals()
    for r, n in ws:
        out[hb(r)] = n
    return out


def mk_body(b, tagged):
    nes = lambda xs: as_set(NonEmptyOrderedSet, xs, tagged)
    return TransactionBody(
        inputs=as_set(OrderedSet, [mk_input(i) for i in b['inputs']], tagged),
        outputs=[mk_output(o) for o in b['outputs']],
        fee=b['fee'],
        ttl=b['ttl'],
        certificates=opt(lambda cs: [mk_cert(c, tagged) for c in cs], b['certs']),
        withdraws=opt(mk_withdrawals, b['withdrawals']),
        auxiliary_data_hash=opt(lambda h: AuxiliaryDataHash(hb(h)), b['aux_hash']),
        validity_start=b['validity_start'],
        mint=opt(mk_multiasset, b['mint']),
        script_data_hash=opt(lambda h: ScriptDataHash(hb(h)), b['script_data_hash']),
        collateral=opt(lambda xs: nes([mk_input(i) for i in xs]), b['collateral']),
        required_signers=opt(lambda xs: nes([VerificationKeyHash(hb(h)) for h in xs]), b['required_signers']),
        network_id=opt(lambda n: NETWORKS[n], b['network_id']),
        collateral_return=opt(mk_output, b['collateral_return']),
        total_collateral=b['total_collateral'],
        reference_inputs=opt(lambda xs: nes([mk_input(i) for i in xs]), b['reference_inputs']),
        voting_procedures=opt(mk_votes, b['votes']),
        proposal_procedures=opt(lambda ps: nes([mk_proposal(p, tagged) for p in ps]), b['proposals']),
        current_treasury_value=b['treasury'],
        donation=b['donation'])


# ---------------------------------------------------------------- witness set
def mk_redeemers(r):
    as_map, items = r
    if as_map:
        out = RedeemerMap()
        for x in items:
            out[RedeemerKey(REDEEMER_TAGS[x['tag']], x['index'])] = RedeemerValue(mk_data(x['data']),
                                                                               ExecutionUnits(x['mem'], x['steps']))
        return out
    out = []
    for x in items:
        rd = Redeemer(mk_data(x['data']), ExecutionUnits(x['mem'], x['steps']))
        rd.tag = REDEEMER_TAGS[x['tag']]              # tag and index are init=False fields
        rd.index = x['index']
        out.append(rd)
    return out


WITS_ROUTE = 'ctor'      # payload["wits_route"]: "ctor" (default, the documented convention) | "setattr"


def mk_wits(w, tagged):
    nes = lambda xs: as_set(NonEmptyOrderedSet, xs, tagged)
    sets = dict(
        vkey_witnesses=opt(lambda l: nes([VerificationKeyWitness(VerificationKey(hb(k)), hb(s)) for k, s in l]), w['vkeys']),
        native_scripts=opt(lambda l: nes([mk_nscript(s) for s in l]), w['native']),
        plutus_v1_script=opt(lambda l: nes([PlutusV1Script(hb(s)) for s in l]), w['v1']),
        plutus_v2_script=opt(lambda l: nes([PlutusV2Script(hb(s)) for s in l]), w['v2']),
        plutus_v3_script=opt(lambda l: nes([PlutusV3Script(hb(s)) for s in l]), w['v3']))
    rest = dict(
        bootstrap_witness=opt(lambda l: [[hb(x) for x in bw] for bw in l], w['bootstrap']),
        plutus_data=opt(lambda l: [mk_data(d) for d in l], w['data']),
        redeemer=opt(mk_redeemers, w['redeemers']))
    if WITS_ROUTE == 'setattr':
        # alternative user route: TransactionWitnessSet.__post_init__ re-wraps every list (an OrderedSet IS a list)
        # into NonEmptyOrderedSet(..) with the default use_tag=True; assigning the attributes after construction is
        # the only way to keep use_tag=False
        ws = TransactionWitnessSet(**rest)
        for name, v in sets.items():
            setattr(ws, name, v)
        return ws
    return TransactionWitnessSet(**sets, **rest)


# ---------------------------------------------------------------- auxiliary data
def md_value(m):
    k = m[0]
    if k == 'int':
        return m[1]
    if k == 'bytes':
        return hb(m[1])
    if k == 'text':
        return txt(m[1])
    if k == 'list':
        return [md_value(x) for x in m[1]]
    if k == 'map':
        out = {}
        for a, b in m[1]:
            out[md_value(a)] = md_value(b)
        return out
    raise ValueError(k)


def mk_metadata(md):
    return Metadata({label: md_value(v) for label, v in md})


def mk_aux(a):
    k = a[0]
    if k == 'shelley':
        return AuxiliaryData(mk_metadata(a[1]))
    if k == 'shelleyma':
        return AuxiliaryData(ShelleyMarryMetadata(mk_metadata(a[1]), [mk_nscript(s) for s in a[2]]))
    if k == 'alonzo':
        return AuxiliaryData(AlonzoMetadata(
            metadata=opt(mk_metadata, a[1]),
            native_scripts=opt(lambda l: [mk_nscript(s) for s in l], a[2]),
            plutus_v1_scripts=opt(lambda l: [PlutusV1Script(hb(s)) for s in l], a[3]),
            plutus_v2_scripts=opt(lambda l: [PlutusV2Script(hb(s)) for s in l], a[4]),
            plutus_v3_scripts=opt(lambda l: [PlutusV3Script(hb(s)) for s in l], a[5])))
    raise ValueError(k)


def mk_tx(t):
    tagged = t['tagged']
    return Transaction(mk_body(t['body'], tagged), mk_wits(t['wits'], tagged), t['valid'], opt(mk_aux, t['aux']))


BUILD = {
    'tx': mk_tx,
    'body': lambda c: mk_body(c, c['tagged']),
    'wits': lambda c: mk_wits(c, c['tagged']),
    'output': mk_output,
    'cert': lambda c: mk_cert(c['cert'], c['tagged']),
    'proposal': lambda c: mk_proposal(c, c['tagged']),
    'aux': mk_aux,
}


def handler(case, payload):
    global WITS_ROUTE
    WITS_ROUTE = payload.get('wits_route', 'ctor')
    build = BUILD[case['kind']]                     # unknown kind = driver error, not a result
    reseed(case)
    try:
        obj = build(case['content'])
        if VAR.random() < 0.5:
            # an application that survived a FAILED serialization: an object whose leaf cbor2 cannot encode (a naive datetime
            # inside redeemer data / a datum) raises in the middle of writing; what is serialized next must be unaffected
            import datetime
            for bad in (lambda: TransactionWitnessSet(plutus_data=[{1: [2, datetime.datetime(2020, 1, 1)]}]).to_cbor(),
                        lambda: Redeemer({b'k' * 40: datetime.datetime(2020, 1, 1)}, ExecutionUnits(1, 2)).to_cbor()):
                try:
                    bad()
                except Exception:
                    pass
        return {'cbor': obj.to_cbor().hex()}
    except Exception as e:                          # construction / validation / encoding errors are results
        return {'error': err_kind(e), 'msg': str(e)[:300]}


if __name__ == '__main__':
    main(handler)
