"""C07 driver: the real utils.fee / max_tx_fee / tiered_reference_script_fee on swept parameters, and the real
TransactionBuilder.build_and_sign on fee scenarios (every `_estimate_fee` call is recorded).

Scenario UTxOs (`how`): explicit (add_input), script (add_script_input), collateral (builder.collaterals), refonly (only
named as the script source of a spend), ref (an extra reference input the transaction does not need), pool (served by
the chain context for its address: chosen by the builder itself through add_input_address or as automatic collateral),
potential (builder.potential_inputs)."""
from _pre import *
import hashlib, random
from fractions import Fraction
from pycardano import (Address, Asset, AssetName, AuxiliaryData, AlonzoMetadata, Metadata, ExecutionUnits, MultiAsset,
                       Network, PaymentSigningKey, PaymentVerificationKey, PlutusV2Script, PlutusV1Script, Redeemer,
                       ScriptAll, ScriptAny, ScriptPubkey, InvalidHereAfter, ScriptHash, StakeSigningKey,
                       StakeVerificationKey, TransactionBuilder, TransactionInput, TransactionId,
                       TransactionOutput, UTxO, Value, NativeScript, script_hash, plutus_script_hash)
from pycardano.backend.base import ChainContext, GenesisParameters, ProtocolParameters
from pycardano import utils as U

NET = Network.TESTNET


def num(x):
    """['i', n] | ['q', n, d] | ['f', hex] -> Python number"""
    if x is None:
        return None
    if x[0] == 'i':
        return int(x[1])
    if x[0] == 'q':
        return Fraction(int(x[1]), int(x[2]))
    if x[0] == 'f':
        return float.fromhex(x[1])
    raise ValueError(x)


def mk_params(p):
    ref = p.get('ref')
    return ProtocolParameters(
        min_fee_constant=p['b'], min_fee_coefficient=p['a'], max_block_size=90112, max_tx_size=p['maxsize'],
        max_block_header_size=1100, key_deposit=2000000, pool_deposit=500000000, pool_influence=Fraction(3, 10),
        monetary_expansion=Fraction(3, 1000), treasury_expansion=Fraction(1, 5), decentralization_param=Fraction(0),
        extra_entropy='', protocol_major_version=9, protocol_minor_version=0, min_utxo=1000000,
        min_pool_cost=170000000, price_mem=num(p['pm']), price_step=num(p['ps']),
        max_tx_ex_mem=p['maxmem'], max_tx_ex_steps=p['maxsteps'], max_block_ex_mem=62000000,
        max_block_ex_steps=20000000000, max_val_size=p.get('max_val_size', 5000), collateral_percent=150,
        max_collateral_inputs=3, coins_per_utxo_word=34482, coins_per_utxo_byte=p.get('cpb', 4310), cost_models={},
        maximum_reference_scripts_size=None if ref is None else {'bytes': ref['max']},
        min_fee_reference_scripts=None if ref is None else
        {'base': num(ref['base']), 'range': num(ref['range']), 'multiplier': num(ref['mult'])})


class Ctx(ChainContext):
    def __init__(self, params, utxos, eval_units):
        self._pp, self._pool, self._eval = params, utxos, eval_units

    @property
    def protocol_param(self):
        return self._pp

    @property
    def genesis_param(self):
        return GenesisParameters(active_slots_coefficient=Fraction(1, 20), update_quorum=5,
                                 max_lovelace_supply=45000000000000000, network_magic=1, epoch_length=432000,
                                 system_start=1506203091, slots_per_kes_period=129600, slot_length=1,
                                 max_kes_evolutions=62, security_param=2160)

    @property
    def network(self):
        return NET

    @property
    def epoch(self):
        return 500

    @property
    def last_block_slot(self):
        return 2000

    def _utxos(self, address):
        return list(self._pool.get(str(address), []))

    def submit_tx_cbor(self, cbor):
        pass

    def evaluate_tx_cbor(self, cbor):
        return {k: ExecutionUnits(m, s) for k, (m, s) in self._eval.items()}


from dataclasses import dataclass as _dc
from typing import List as _List
from pycardano.plutus import PlutusData as _PD
from pycardano.serialization import IndefiniteList


@_dc
class _ListDatum(_PD):
    CONSTR_ID = 1
    xs: _List[int]
    ys: _List[bytes]
    zs: _List[int]


def out(v):
    try:
        return ['i', int(v())]
    except Exception as e:                      # exceptions of the code under test are results
        return ['e', err_kind(e)]


def fn_case(case):
    ctx = long_lived(Ctx, mk_params(case['params']), {}, {})
    l, s, m, r = case['args']
    return {'fee': out(lambda: U.fee(ctx, l, s, m, r)), 'max': out(lambda: U.max_tx_fee(ctx, r)),
            'tier': out(lambda: U.tiered_reference_script_fee(ctx, r))}


# ---------------------------------------------------------------------------------------------- builder scenarios
KEYS = {}


def key(i):
    if i not in KEYS:
        sk = PaymentSigningKey.from_primitive(hashlib.sha256(b'c07-pay-%d' % i).digest())
        st = StakeSigningKey.from_primitive(hashlib.sha256(b'c07-stake-%d' % i).digest())
        KEYS[i] = (sk, PaymentVerificationKey.from_signing_key(sk), StakeVerificationKey.from_signing_key(st))
    return KEYS[i]


def mk_native(spec):
    k = spec[0]
    if k == 'pk':
        return ScriptPubkey(key(spec[1])[1].hash())
    if k == 'all':
        return ScriptAll([mk_native(x) for x in spec[1]])
    if k == 'any':
        return ScriptAny([mk_native(x) for x in spec[1]])
    if k == 'after':
        return InvalidHereAfter(spec[1])
    raise ValueError(spec)


def mk_script(spec):
    if spec is None:
        return None
    if spec[0] == 'plutus2':
        return PlutusV2Script(bytes((spec[2] + i) % 256 for i in range(spec[1])))
    if spec[0] == 'plutus1':
        return PlutusV1Script(bytes((spec[2] + i) % 256 for i in range(spec[1])))
    if spec[0] == 'native':
        return mk_native(spec[1])
    raise ValueError(spec)


def mk_addr(spec):
    if spec[0] == 'ent':
        return Address(key(spec[1])[1].hash(), network=NET)
    if spec[0] == 'base':
        return Address(key(spec[1])[1].hash(), key(spec[1])[2].hash(), network=NET)
    if spec[0] == 'script':
        s = mk_script(spec[1])
        return Address(script_hash(s), network=NET)
    raise ValueError(spec)


def mk_ma(lit):
    ma = MultiAsset()
    for p, names in lit or []:
        a = Asset()
        for n, q in names:
            a[AssetName(bytes.fromhex(n))] = q
        ma[pol(p)] = a
    return ma


def mk_utxo(u):
    return wire(UTxO(TransactionInput(TransactionId(bytes.fromhex(u['id'])), u['ix']),
                     TransactionOutput(mk_addr(u['addr']), Value(u['coin'], mk_ma(u.get('ma'))),
                                       script=mk_script(u.get('script')), post_alonzo=bool(u.get('script')))))


def script_len(s):
    return len(s.to_cbor()) if isinstance(s, NativeScript) else len(s)


def pk_leaves(spec, acc):
    """key leaves of a native-script spec (the builder asks a placeholder witness for every one of them)"""
    if spec[0] == 'pk':
        acc.add(key(spec[1])[1].hash().payload)
    elif spec[0] in ('all', 'any'):
        for x in spec[1]:
            pk_leaves(x, acc)
    return acc


def utxo_table(sc, utxos):
    """the scenario's UTxO set as the ledger sees it: outref -> (bytes of the script on the output, key that locks it)"""
    rows = []
    for lit, u in zip(sc['utxos'], utxos):
        s = u.output.script
        pp = u.output.address.payment_part
        rows.append([lit['id'], lit['ix'], -1 if s is None else script_len(s),
                     pp.payload.hex() if lit['addr'][0] in ('ent', 'base') else None])
    return rows


def build_case(case):
    sc = case['scenario']
    utxos = [mk_utxo(u) for u in sc['utxos']]
    by_in = {(u.input.transaction_id.payload, u.input.index): u for u in utxos}
    pool = {}
    for u, lit in zip(utxos, sc['utxos']):
        if lit.get('how') == 'pool':
            pool.setdefault(str(u.output.address), []).append(u)
    ctx = long_lived(Ctx, mk_params(case['params']), pool, {k: tuple(v) for k, v in sc.get('eval', {}).items()})
    calls, last_fake = [], {}
    orig_est, orig_fake = TransactionBuilder._estimate_fee, TransactionBuilder._build_full_fake_tx

    def fake(self):
        tx = orig_fake(self)
        last_fake[id(self)] = [len(tx.to_cbor()), tx.transaction_body.fee,
                               [o.amount.coin if isinstance(o.amount, Value) else o.amount
                                for o in tx.transaction_body.outputs],
                               len(tx.transaction_witness_set.vkey_witnesses or [])]
        return tx

    def est(self):
        r = orig_est(self)
        calls.append((id(self), last_fake.get(id(self)), r))
        return r

    TransactionBuilder._estimate_fee, TransactionBuilder._build_full_fake_tx = est, fake
    random.seed(hashlib.sha256(json.dumps(sc, sort_keys=True).encode()).digest())      # coin selection draws from `random`
    try:
        try:
            b = TransactionBuilder(ctx)
            if sc.get('fee_buffer') is not None:
                b.fee_buffer = sc['fee_buffer']
            if sc.get('use_redeemer_map') is not None:
                b.use_redeemer_map = sc['use_redeemer_map']
            for u, lit in zip(utxos, sc['utxos']):
                how = lit.get('how', 'explicit')
                if how == 'explicit':
                    b.add_input(u)
                elif how == 'script':                      # script-locked input; script given directly, by reference, or on the UTxO
                    sp = lit['spend']
                    red = None
                    if sp.get('redeemer') is not None:
                        eu = sp['redeemer']
                        red = Redeemer(sp.get('data', 42), ExecutionUnits(eu[0], eu[1]) if eu else None)
                    script = None
                    if sp.get('script_ref') is not None:
                        script = utxos[sp['script_ref']]
                    elif sp.get('script') is not None:
                        script = mk_script(sp['script'])
                    b.add_script_input(u, script=script, datum=sp.get('datum'), redeemer=red)
                elif how == 'collateral':
                    b.collaterals.append(u)
                elif how == 'ref':                         # a reference input nothing in the transaction needs
                    twice = lit.get('twice')               # the same UTxO also named by its bare TransactionInput
                    if twice == 'bare-first':
                        b.reference_inputs.add(u.input)
                    b.reference_inputs.add(u)
                    if twice == 'bare-last':
                        b.reference_inputs.add(u.input)
                elif how == 'potential':
                    b.potential_inputs.append(u)
                elif how in ('pool', 'refonly'):
                    pass
                else:
                    raise ValueError(how)
            for a in sc.get('input_addresses', []):
                b.add_input_address(mk_addr(a))
            for o in sc['outputs']:
                if o.get('ilist_datum'):
                    # an inline datum whose typed List fields hold IndefiniteLists (what reproduces an on-chain datum hash):
                    # its deep copy / CBOR round trip is a plain list and encodes one byte shorter per list
                    d = _ListDatum(IndefiniteList(list(range(o['ilist_datum']))), IndefiniteList([b'ab', b'cd']), IndefiniteList([7]))
                    b.add_output(TransactionOutput(mk_addr(o['addr']), Value(o['coin'], mk_ma(o.get('ma'))), datum=d,
                                                   post_alonzo=True))
                    continue
                b.add_output(TransactionOutput(mk_addr(o['addr']), Value(o['coin'], mk_ma(o.get('ma')))))
            if sc.get('mint'):
                pols = [mk_native(s) for s in sc['mint']['policies']]
                ma = MultiAsset()
                for pol, names in zip(pols, sc['mint']['names']):
                    a = Asset()
                    for n, q in names:
                        a[AssetName(bytes.fromhex(n))] = q
                    ma[script_hash(pol)] = a
                b.mint = ma
                b.native_scripts = pols
            if sc.get('metadata') is not None:
                md = {int(k): v for k, v in sc['metadata'].items()}
                b.auxiliary_data = AuxiliaryData(AlonzoMetadata(metadata=Metadata(md)))
            if sc.get('required_signers'):
                b.required_signers = [key(i)[1].hash() for i in sc['required_signers']]
            if sc.get('ttl') is not None:
                b.ttl = sc['ttl']
            change = mk_addr(sc['change']) if sc.get('change') is not None else None
            sks = [key(i)[0] for i in sc['signers']]
            cchange = mk_addr(sc['collateral_change']) if sc.get('collateral_change') is not None else None
            tx = b.build_and_sign(sks, change_address=change, merge_change=bool(sc.get('merge')),
                                  collateral_change_address=cchange)
        except Exception as e:
            return {'err': err_kind(e), 'msg': str(e)[:200]}
        mine = [c for c in calls if c[0] == id(b)]
        body = tx.transaction_body
        # reference-script bytes the LEDGER charges: scripts on all spent inputs and reference inputs (scenario data)
        seen, ref_ledger = set(), 0
        for i in list(body.inputs) + list(body.reference_inputs or []):
            k = (i.transaction_id.payload, i.index)
            if k in seen:
                continue
            seen.add(k)
            s = by_in[k].output.script if k in by_in else None
            if s is not None:
                ref_ledger += script_len(s)
        omitted = len(b.build_witness_set().to_cbor()) - len(b.build_witness_set(True).to_cbor())
        required = b._build_required_vkeys()
        nwit = len(tx.transaction_witness_set.vkey_witnesses or [])
        script_keys = set()
        for lit in sc['utxos']:
            spec = (lit.get('spend') or {}).get('script')
            if spec is not None and spec[0] == 'native':
                pk_leaves(spec[1], script_keys)
        for pol in (sc.get('mint') or {}).get('policies', []):
            pk_leaves(pol, script_keys)
        return {'tx': tx.to_cbor().hex(), 'calls': [[c[1][0], c[1][1], c[1][2], c[2]] for c in mine],
                'ref_builder': b._ref_script_size(), 'ref_ledger': ref_ledger, 'omitted': omitted,
                'fake_wit': mine[-1][1][3] if mine else b._witness_count(), 'real_wit': nwit, 'required': len(required),
                'table': utxo_table(sc, utxos), 'script_keys': sorted(k.hex() for k in script_keys),
                'n_collateral': len(body.collateral or []), 'n_ref_inputs': len(body.reference_inputs or []),
                'coll_refs': [[i.transaction_id.payload.hex(), i.index] for i in (body.collateral or [])],
                'in_refs': [[i.transaction_id.payload.hex(), i.index] for i in body.inputs],
                'fee': body.fee, 'size': len(tx.to_cbor()), 'n_inputs': len(body.inputs),
                'n_outputs': len(body.outputs),
                'final_coins': [o.amount.coin if isinstance(o.amount, Value) else o.amount for o in body.outputs],
                'mem': sum(x.ex_units.mem for x in b._redeemer_list), 'steps': sum(x.ex_units.steps for x in b._redeemer_list)}
    finally:
        TransactionBuilder._estimate_fee, TransactionBuilder._build_full_fake_tx = orig_est, orig_fake


def handler(case, payload):
    if case['k'] == 'fn':
        return fn_case(case)
    if case['k'] == 'build':
        return build_case(case)
    raise ValueError(case['k'])


if __name__ == '__main__':
    main(handler)
