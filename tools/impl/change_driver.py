"""C08 driver: calls the REAL change-construction code of pycardano on prepared builders.

kinds: pack     TransactionBuilder._pack_tokens_for_change
       ovf      TransactionBuilder._adding_asset_make_output_overflow
       calc     TransactionBuilder._calc_change
       minada   utils.min_lovelace_post_alonzo (argument snapshot before/after)
       add      TransactionBuilder._add_change_and_fee (both passes, merge on/off)
       ser      to_cbor() of an output / UTxO / body / transaction holding given amounts
       build    TransactionBuilder.build() end to end

Every case may carry `pp`: a dict {field name of ProtocolParameters: value} overriding the defaults of the chain
context below (the legacy min_utxo / coins_per_utxo_word as real backends report them, fee coefficients, ...).
"""
from _pre import *
from copy import deepcopy
from dataclasses import replace
import cbor2
from pycardano import (Address, Asset, AssetName, MultiAsset, ScriptHash, Value, TransactionBuilder, TransactionOutput,
                       TransactionInput, TransactionId, TransactionBody, Transaction, TransactionWitnessSet, UTxO,
                       DatumHash, PlutusV2Script, PlutusV1Script, ScriptPubkey, VerificationKeyHash, Withdrawals)
from pycardano.backend.base import ChainContext, GenesisParameters, ProtocolParameters
from pycardano.serialization import default_encoder
from pycardano.transaction import _Script
from pycardano.utils import min_lovelace_post_alonzo, min_lovelace
from fractions import Fraction


class Ctx(ChainContext):
    """Chain context serving the scenario's UTxOs and protocol parameters."""

    def __init__(self, cpb, mvs, utxos=(), pp=None):
        self._pool = list(utxos)
        self._pp = ProtocolParameters(
            min_fee_constant=155381, min_fee_coefficient=44, max_block_size=73728, max_tx_size=16384,
            max_block_header_size=1100, key_deposit=2000000, pool_deposit=500000000, pool_influence=0.3,
            treasury_expansion=0.2, monetary_expansion=0.003, decentralization_param=0, extra_entropy='',
            protocol_major_version=9, protocol_minor_version=0, min_utxo=1000000, min_pool_cost=340000000,
            price_mem=Fraction(577, 10000), price_step=Fraction(721, 10000000), max_tx_ex_mem=10000000,
            max_tx_ex_steps=10000000000, max_block_ex_mem=50000000, max_block_ex_steps=40000000000,
            max_val_size=mvs, collateral_percent=150, max_collateral_inputs=3, coins_per_utxo_word=cpb * 8,
            coins_per_utxo_byte=cpb, cost_models={},
            min_fee_reference_scripts={'base': 15, 'range': 25600, 'multiplier': 1.2},
            maximum_reference_scripts_size={'bytes': 200000})
        if pp:
            unknown = set(pp) - set(self._pp.__dataclass_fields__)
            if unknown or 'coins_per_utxo_byte' in pp or 'max_val_size' in pp:
                raise ValueError(f'bad protocol parameter override {sorted(pp)}')
            self._pp = replace(self._pp, **pp)
        self._gp = GenesisParameters(
            active_slots_coefficient=0.05, update_quorum=5, max_lovelace_supply=45000000000000000,
            network_magic=764824073, epoch_length=432000, system_start=1506203091, slots_per_kes_period=129600,
            slot_length=1, max_kes_evolutions=62, security_param=2160)

    @property
    def protocol_param(self):
        return self._pp

    @property
    def genesis_param(self):
        return self._gp

    @property
    def network(self):
        from pycardano import Network
        return Network.TESTNET

    @property
    def epoch(self):
        return 300

    @property
    def last_block_slot(self):
        return 2000

    def _utxos(self, address):
        return [u for u in self._pool if str(u.output.address) == address]

    def utxos(self, address):
        return self._utxos(str(address))

    def submit_tx_cbor(self, cbor):                              # pragma: no cover
        raise NotImplementedError

    def evaluate_tx_cbor(self, cbor):                            # pragma: no cover
        return {}


def mk_ma(lit):
    ma = MultiAsset()
    for p, names in lit:
        a = Asset()
        for n, q in names:
            a[AssetName(bytes.fromhex(n))] = q
        ma[pol(p)] = a
    return ma


def dump_ma(ma):
    return [[p.payload.hex(), [[n.payload.hex(), q] for n, q in a.data.items()]] for p, a in ma.data.items()]


def mk_val(lit):
    return Value(lit[0], mk_ma(lit[1]))


def dump_val(v):
    return [v.coin, dump_ma(v.multi_asset)]


def addr_of(hexs):
    return Address.from_primitive(bytes.fromhex(hexs))


def mk_utxo(lit):
    txid, idx, addr, val = lit
    return wire(UTxO(TransactionInput(TransactionId(bytes.fromhex(txid)), idx), TransactionOutput(addr_of(addr), mk_val(val))))


def guarded(f):
    try:
        return {'ok': f()}
    except Exception as e:
        return {'err': err_kind(e), 'msg': str(e)[:120]}


def k_pack(c):
    ctx = long_lived(Ctx, c['cpb'], c['mvs'], pp=c.get('pp'))
    b = TransactionBuilder(ctx)
    change = mk_val(c['change'])
    before = dump_val(change)
    r = guarded(lambda: [dump_ma(m) for m in b._pack_tokens_for_change(addr_of(c['addr']), change, c['mvs'])])
    r['unchanged'] = dump_val(change) == before
    return r


def k_ovf(c):
    ctx = long_lived(Ctx, c['cpb'], c['mvs'], pp=c.get('pp'))
    b = TransactionBuilder(ctx)
    out = TransactionOutput(addr_of(c['addr']), mk_val(c['out']))
    cur = Asset()
    for n, q in c['cur']:
        cur[AssetName(bytes.fromhex(n))] = q
    before = (dump_val(out.amount), dict((k.payload.hex(), v) for k, v in cur.data.items()))
    r = guarded(lambda: bool(b._adding_asset_make_output_overflow(
        out, cur, pol(c['pid']), AssetName(bytes.fromhex(c['name'])), c['q'], c['mvs'],
        c.get('max_coin', 0))))
    r['unchanged'] = (dump_val(out.amount), dict((k.payload.hex(), v) for k, v in cur.data.items())) == before
    return r


def prep_builder(c, ctx):
    b = TransactionBuilder(ctx)
    for u in c['inputs']:
        b.add_input(mk_utxo(u))
    for o in c['outputs']:
        b.add_output(TransactionOutput(addr_of(o[0]), mk_val(o[1])))
    if c.get('mint'):
        b.mint = mk_ma(c['mint'])
        # a minting policy needs a script for build(); the slices do not look at it
    if c.get('withdrawals'):
        w = Withdrawals()
        for k, v in c['withdrawals']:
            w[bytes.fromhex(k)] = v
        b.withdrawals = w
    if c.get('donation'):
        b.donation = c['donation']
    return b


def k_calc(c):
    ctx = long_lived(Ctx, c['cpb'], c['mvs'], pp=c.get('pp'))
    b = prep_builder(c, ctx)
    ins = list(b.inputs)
    outs = list(b.outputs)
    before = ([dump_val(i.output.amount) for i in ins], [dump_val(o.amount) for o in outs])
    r = guarded(lambda: [[o.address.to_primitive().hex(), dump_val(o.amount), o.to_cbor().hex() if o.amount.coin >= 0 else '']
                         for o in b._calc_change(c['fee'], ins, outs, addr_of(c['addr']), precise_fee=True,
                                                 respect_min_utxo=c['respect'])])
    r['unchanged'] = ([dump_val(i.output.amount) for i in ins], [dump_val(o.amount) for o in outs]) == before
    return r


def mk_datum_script(c):
    datum_hash = datum = script = None
    dbytes = sbytes = None
    d = c.get('datum')
    if d:
        if d[0] == 'hash':
            datum_hash = DatumHash(bytes.fromhex(d[1]))
        elif d[0] == 'int':
            datum = d[1]
        elif d[0] == 'bytes':
            datum = bytes.fromhex(d[1])
        elif d[0] == 'dict':
            datum = {k: v for k, v in d[1]}
        if datum is not None:
            dbytes = cbor2.dumps(datum, default=default_encoder)
    s = c.get('script')
    if s:
        if s[0] == 'plutus2':
            script = PlutusV2Script(bytes.fromhex(s[1]))
        elif s[0] == 'plutus1':
            script = PlutusV1Script(bytes.fromhex(s[1]))
        elif s[0] == 'native':
            script = ScriptPubkey(VerificationKeyHash(bytes.fromhex(s[1])))
        sbytes = cbor2.dumps(_Script(script), default=default_encoder)
    return datum_hash, datum, script, dbytes, sbytes


def snap_output(o):
    return (o.address.to_primitive().hex(), o.amount.coin, dump_ma(o.amount.multi_asset), repr(o.datum_hash), repr(o.datum),
            repr(o.script), o.post_alonzo, id(o.amount), id(o.amount.multi_asset))


def k_minada(c):
    ctx = long_lived(Ctx, c['cpb'], 5000, pp=c.get('pp'))
    dh, dt, sc, dbytes, sbytes = mk_datum_script(c)
    o = TransactionOutput(addr_of(c['addr']), mk_val(c['amount']), datum_hash=dh, datum=dt, script=sc,
                          post_alonzo=bool(c.get('post_alonzo')))
    own = o.to_cbor().hex()
    mapform = TransactionOutput(o.address, deepcopy(o.amount), dh, dt, sc, True)
    if mapform.amount.coin == 0:
        mapform.amount.coin = 1000000
    # entry point: the utility itself, or the public dispatcher min_lovelace(context, output=...)
    util = (lambda out: min_lovelace(ctx, output=out)) if c.get('entry') == 'dispatch' else \
        (lambda out: min_lovelace_post_alonzo(out, ctx))
    before = snap_output(o)
    r1 = util(o)
    after = snap_output(o)
    r2 = util(o)
    return {'ok': r1, 'second': r2, 'unchanged': before == after and own == o.to_cbor().hex(), 'own': own,
            'map': mapform.to_cbor().hex(), 'dbytes': dbytes.hex() if dbytes is not None else None,
            'sbytes': sbytes.hex() if sbytes is not None else None}


def dump_out(o):
    return [o.address.to_primitive().hex(), dump_val(o.amount)]


def k_add(c):
    ctx = long_lived(Ctx, c['cpb'], c['mvs'], pp=c.get('pp'))
    b = prep_builder(c, ctx)
    addr = addr_of(c['addr'])
    fee1 = b._estimate_fee()
    b.fee = 0
    r = guarded(lambda: (b._add_change_and_fee(addr, merge_change=c['merge']), [dump_out(o) for o in b.outputs])[1])
    r['fee1'] = fee1
    r['fee2'] = b.fee
    r['deposit'] = b._get_total_key_deposit() + b._get_total_proposal_deposit() + (b.donation or 0)
    return r


def k_ser(c):
    addr = addr_of(c['addr'])
    seq = bool(c.get('seq'))
    if seq:
        # sequence on ONE object: the outputs are first built with the absolute values and serialized (valid), then edited
        # IN PLACE below the output (amount.coin = .., amount.multi_asset[p][n] = ..) into the scenario's values and
        # serialized again: whatever validate() remembered must not survive the edit
        outs = [TransactionOutput(addr, mk_val([abs(v[0]), [[p, [[n, abs(q)] for n, q in names]] for p, names in v[1]]]))
                for v in c['values']]
    else:
        outs = [TransactionOutput(addr, mk_val(v)) for v in c['values']]
    level = c['level']
    inp = TransactionInput(TransactionId(b'\x07' * 32), 0)

    def run():
        if level == 0:
            return [o.to_cbor().hex() for o in outs][-1]
        if level == 1:
            return [UTxO(inp, o).to_cbor().hex() for o in outs][-1]
        if level == 2:
            return TransactionBody(inputs=[inp], outputs=outs, fee=170000).to_cbor().hex()
        if level == 3:
            return TransactionBody(inputs=[inp], outputs=[], fee=170000, collateral=[inp],
                                   collateral_return=outs[0]).to_cbor().hex()
        body = TransactionBody(inputs=[inp], outputs=outs, fee=170000)
        return Transaction(body, TransactionWitnessSet()).to_cbor().hex()
    if seq:
        first = guarded(run)
        for o, v in zip(outs, c['values']):
            if v[0] < 0 and not v[1] and c.get('bare_int'):
                o.amount = v[0]                 # a bare (negative) int where a Value belongs
                continue
            o.amount.coin = v[0]
            for p, names in v[1]:
                for n, q in names:
                    o.amount.multi_asset[pol(p)][AssetName(bytes.fromhex(n))] = q
        r = guarded(run)
        r['first'] = first
        return r
    r = guarded(run)
    return r


def k_build(c):
    utxos = [mk_utxo(u) for u in c['pool']]
    ctx = long_lived(Ctx, c['cpb'], c['mvs'], utxos, pp=c.get('pp'))
    b = TransactionBuilder(ctx)
    for i in c['explicit']:
        b.add_input(utxos[i])
    for a in c.get('input_addresses', []):
        b.add_input_address(addr_of(a))
    for o in c['outputs']:
        b.add_output(TransactionOutput(addr_of(o[0]), mk_val(o[1])))
    nreq = len(b.outputs)
    pool_before = [u.to_cbor().hex() for u in utxos]

    def run():
        body = b.build(change_address=addr_of(c['addr']), merge_change=c['merge'])
        by_in = {(u.input.transaction_id.payload, u.input.index): u for u in utxos}
        ins = [by_in[(i.transaction_id.payload, i.index)] for i in body.inputs]
        raw = body.to_cbor()
        return {'outs': [o.to_cbor().hex() for o in body.outputs], 'fee': body.fee,
                'ins': [dump_val(u.output.amount) for u in ins], 'nreq': nreq, 'body_len': len(raw),
                'decoded_same': TransactionBody.from_cbor(raw).to_cbor() == raw}
    r = guarded(run)
    r['pool_unchanged'] = pool_before == [u.to_cbor().hex() for u in utxos]
    return r


KINDS = {'pack': k_pack, 'ovf': k_ovf, 'calc': k_calc, 'minada': k_minada, 'add': k_add, 'ser': k_ser, 'build': k_build}


def handler(case, payload):
    return KINDS[case['kind']](case)


if __name__ == '__main__':
    main(handler)
