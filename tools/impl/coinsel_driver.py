"""Drives the real LargestFirstSelector / RandomImproveMultiAsset (pycardano/coinselection.py) on a
literal pool and request with a fake ChainContext.

case = {alg: 'lf' | 'ri' (injected generator iter(stream)) | 'rb' (built-in random.randint, outcomes from stream),
        pool: [[coin, ma], ...], outs: [[coin, ma], ...], lim: int | None, fee: bool, minchg: bool,
        stream: [int, ...], ctx: {a, b, cpb, ex}}            ma = [[policy_hex, [[name_hex, qty], ...]], ...]
result = {res: ['ok', [pool index, ...], [coin, ma]] | ['err', kind],
          fee: the number max_tx_fee(context) (0 when fee is off), mc: what min_lovelace_post_alonzo returned (or None),
          topup: the change of the first phase was below mc,
          pool_after: [[coin, ma], ...], same_objs: the list still holds the very same UTxO objects with the same inputs}
"""
from _pre import *
from fractions import Fraction
import pycardano.coinselection as CS
import pycardano.utils as U
from pycardano import (Address, Asset, AssetName, MultiAsset, ScriptHash, TransactionInput, TransactionOutput,
                       UTxO, Value)
from pycardano.backend.base import ChainContext, GenesisParameters, ProtocolParameters
from pycardano.network import Network

ADDR = Address.from_primitive("addr_test1vr2p8st5t5cxqglyjky7vk98k7jtfhdpvhl4e97cezuhn0cqcexl7")


class StreamOut(Exception):
    """the finite stream of random outcomes fed to the built-in random path ran out (harness artefact)"""


class FakeRandom:
    def __init__(self, stream):
        self.it = iter(stream)

    def randint(self, a, b):
        r = next(self.it, None)
        if r is None:
            raise StreamOut()
        return a + r % (b - a + 1)


class Ctx(ChainContext):
    def __init__(self, a, b, cpb, ex):
        self._pp = ProtocolParameters(
            min_fee_constant=b, min_fee_coefficient=a, max_block_size=73728, max_tx_size=16384,
            max_block_header_size=1100, key_deposit=2000000, pool_deposit=500000000, pool_influence=Fraction(3, 10),
            treasury_expansion=Fraction(1, 5), monetary_expansion=Fraction(3, 1000), decentralization_param=Fraction(0),
            extra_entropy="", protocol_major_version=8, protocol_minor_version=0, min_utxo=1000000,
            min_pool_cost=340000000, price_mem=Fraction(577, 10000) if ex else Fraction(0),
            price_step=Fraction(721, 10000000) if ex else Fraction(0), max_tx_ex_mem=10000000,
            max_tx_ex_steps=10000000000, max_block_ex_mem=50000000, max_block_ex_steps=40000000000,
            max_val_size=5000, collateral_percent=150, max_collateral_inputs=3, coins_per_utxo_word=34482,
            coins_per_utxo_byte=cpb, cost_models={},
            min_fee_reference_scripts={"base": 44, "range": 25600, "multiplier": 1.2},
            maximum_reference_scripts_size={"bytes": 200000})

    @property
    def protocol_param(self):
        return self._pp

    @property
    def genesis_param(self):
        raise NotImplementedError()

    @property
    def network(self):
        return Network.TESTNET

    @property
    def epoch(self):
        return 300

    @property
    def last_block_slot(self):
        return 2000


SHARE = [False]      # per case: policies of one bundle whose literals are equal hold THE SAME Asset object


def mk_ma(lit):
    ma = MultiAsset()
    seen = {}
    for p, names in lit:
        key = json.dumps(names)
        if SHARE[0] and key in seen:
            a = seen[key]
        else:
            a = Asset()
            for n, q in names:
                a[AssetName(bytes.fromhex(n))] = q
            seen[key] = a
        ma[pol(p)] = a
    return ma


def dump_ma(ma):
    return [[p.payload.hex(), [[n.payload.hex(), q] for n, q in a.data.items()]] for p, a in ma.data.items()]


def dump_val(v):
    return [v.coin, dump_ma(v.multi_asset)]


KINDS = {'InsufficientUTxOBalanceException', 'MaxInputCountExceededException', 'InputUTxODepletedException',
         'UTxOSelectionException', 'IndexError', 'KeyError', 'InvalidDataException', 'StreamOut'}


def handler(case, payload):
    SHARE[0] = bool(case.get('share'))
    c = case['ctx']
    ctx = long_lived(Ctx, c['a'], c['b'], c['cpb'], c['ex'])
    pool = [wire(UTxO(TransactionInput.from_primitive([bytes([7]) * 32, i]), TransactionOutput(ADDR, Value(v[0], mk_ma(v[1])))))
            for i, v in enumerate(case['pool'])]
    outs = [TransactionOutput(ADDR, Value(v[0], mk_ma(v[1]))) for v in case['outs']]
    before_objs = list(pool)
    before_inputs = [(u.input.transaction_id.payload, u.input.index, bytes(u.output.address)) for u in pool]
    # the numbers the selectors obtain from the context, computed here by the real functions
    fee = U.max_tx_fee(ctx) if case['fee'] else 0
    recorded, below = [], []
    real_min = U.min_lovelace_post_alonzo

    def min_wrapper(output, context):
        r = real_min(output, context)
        recorded.append(r)
        below.append(output.amount.coin < r)          # the selector will try a min-change top-up
        return r

    saved = (CS.min_lovelace_post_alonzo, CS.random)
    CS.min_lovelace_post_alonzo = min_wrapper
    try:
        if case['alg'] == 'lf':
            sel = CS.LargestFirstSelector()
        elif case['alg'] == 'ri':
            sel = CS.RandomImproveMultiAsset(random_generator=iter(case['stream']))
        else:
            CS.random = FakeRandom(case['stream'])
            sel = CS.RandomImproveMultiAsset()
        try:
            selected, change = sel.select(pool, outs, ctx, case['lim'], case['fee'], case['minchg'])
            idx = []
            for u in selected:
                hit = [i for i, w in enumerate(before_objs) if w is u]
                idx.append(hit[0] if hit else -1)
            res = ['ok', idx, dump_val(change)]
        except Exception as e:
            n = type(e).__name__
            res = ['err', n if n in KINDS else 'Other:' + n]
    finally:
        CS.min_lovelace_post_alonzo, CS.random = saved
    same_objs = (len(pool) == len(before_objs) and all(a is b for a, b in zip(pool, before_objs))
                 and before_inputs == [(u.input.transaction_id.payload, u.input.index, bytes(u.output.address)) for u in pool])
    return {'res': res, 'fee': fee, 'mc': recorded[0] if recorded else None, 'mc_calls': len(recorded), 'topup': bool(below and below[0]),
            'pool_after': [dump_val(u.output.amount) for u in pool], 'same_objs': same_objs}


if __name__ == '__main__':
    main(handler)
