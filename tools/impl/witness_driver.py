"""C10 driver: prepares a REAL TransactionBuilder from a scenario description and returns
  * slice level: every _*_vkey_hashes() collector, _build_required_vkeys(), _witness_count(),
    _build_fake_vkey_witnesses() of the prepared builder (before build);
  * end to end: build_and_sign(signing keys, force_skeys, auto_required_signers) -> tx.to_cbor(), and
    _build_required_vkeys() after the build.
Scenario format: see tools/props/c10.py (gen_scenario).  A native script handed to the builder (entry of 'attached') reaches it
as a script object (via=witness), through a separate UTxO that carries it (via=ref: add_script_input(u, script=<UTxO>),
add_minting_script / add_withdrawal_script / add_certificate_script(<UTxO>)), in the output of the spent UTxO itself (via=self),
or by the builder's own search of the context at the script address (via=lookup); 'extra_refs' are UTxOs written to
builder.reference_inputs directly.
Plutus scripts (entries of 'plutus': how = input / mint / withdrawal / cert, language version, script bytes, explicit execution
units) are handed over as script objects (via=witness) or through a separate UTxO that carries them (via=ref).  build() may
extend the transaction itself: 'input_addresses' / 'potential' feed coin selection (needed when 'outputs' ask for more than
the explicit inputs hold), and when the scenario gives no collateral the builder picks it from the inputs, the potential
inputs or the wallet at 'collateral_change' (default: the change address).  The builder's inputs / collaterals after the
build are returned next to the transaction."""
from _pre import *
from pycardano import (Address, PointerAddress, Network, TransactionBuilder, TransactionInput, TransactionOutput, TransactionId,
                       UTxO, Value, MultiAsset, Asset, AssetName, VerificationKeyHash, ScriptHash, PoolKeyHash,
                       ScriptPubkey, ScriptAll, ScriptAny, ScriptNofK, InvalidBefore, InvalidHereAfter,
                       Withdrawals, ProtocolParameters, GenesisParameters, ChainContext,
                       PlutusV1Script, PlutusV2Script, PlutusV3Script, PlutusData, Redeemer, ExecutionUnits, datum_hash,
                       script_hash, SigningKey, ExtendedSigningKey, PaymentSigningKey, StakeSigningKey, StakePoolSigningKey,
                       PaymentExtendedSigningKey, StakeExtendedSigningKey)
from pycardano.certificate import (
    StakeCredential, DRepCredential, DRep, DRepKind, Anchor, StakeRegistration, StakeDeregistration, StakeDelegation,
    PoolRegistration, PoolRetirement, StakeRegistrationConway, StakeDeregistrationConway, VoteDelegation,
    StakeAndVoteDelegation, StakeRegistrationAndDelegation, StakeRegistrationAndVoteDelegation,
    StakeRegistrationAndDelegationAndVoteDelegation, AuthCommitteeHotCertificate, ResignCommitteeColdCertificate,
    RegDRepCert, UnregDRepCertificate, UpdateDRepCertificate)
from pycardano.governance import Voter, VoterType, GovActionId, Vote
from pycardano.hash import VrfKeyHash, RewardAccountHash, AnchorDataHash
from pycardano.pool_params import PoolParams
from fractions import Fraction

NET = Network.TESTNET


class Ctx(ChainContext):
    def __init__(self, utxos_by_addr):
        self._u = utxos_by_addr
        self._pp = ProtocolParameters(
            min_fee_constant=155381, min_fee_coefficient=44, max_block_size=73728, max_tx_size=16384,
            max_block_header_size=1100, key_deposit=2000000, pool_deposit=500000000, pool_influence=0.3,
            treasury_expansion=0.2, monetary_expansion=0.003, decentralization_param=0, extra_entropy="",
            protocol_major_version=9, protocol_minor_version=0, min_utxo=1000000, min_pool_cost=340000000,
            price_mem=Fraction(577, 10000), price_step=Fraction(721, 10000000), max_tx_ex_mem=10000000, max_tx_ex_steps=10000000000,
            max_block_ex_mem=50000000, max_block_ex_steps=40000000000, max_val_size=5000, collateral_percent=150,
            max_collateral_inputs=3, coins_per_utxo_word=34482, coins_per_utxo_byte=4310, cost_models={},
            min_fee_reference_scripts={"base": 15, "range": 25600, "multiplier": 1.2},
            maximum_reference_scripts_size={"bytes": 200000})
        self._gp = GenesisParameters(
            active_slots_coefficient=0.05, update_quorum=5, max_lovelace_supply=45000000000000000,
            network_magic=1, epoch_length=432000, system_start=1506203091, slots_per_kes_period=129600,
            slot_length=1, max_kes_evolutions=62, security_param=2160)

    @property
    def protocol_param(self):
        return self._pp

    @property
    def genesis_param(self):
        return self._gp

    @property
    def network(self):
        return NET

    @property
    def epoch(self):
        return 300

    @property
    def last_block_slot(self):
        return 2000

    def _utxos(self, address):
        return list(self._u.get(address, []))

    def submit_tx_cbor(self, cbor):
        pass

    def evaluate_tx_cbor(self, cbor):
        return {}


def H(x):
    return bytes.fromhex(x)


def mk_ns(j):
    k = j[0]
    if k == 'pk':
        return ScriptPubkey(VerificationKeyHash(H(j[1])))
    if k == 'all':
        return ScriptAll([mk_ns(x) for x in j[1]])
    if k == 'any':
        return ScriptAny([mk_ns(x) for x in j[1]])
    if k == 'nofk':
        return ScriptNofK(j[1], [mk_ns(x) for x in j[2]])
    if k == 'before':
        return InvalidBefore(j[1])
    if k == 'after':
        return InvalidHereAfter(j[1])
    raise ValueError(k)


PLUTUS_CLS = {1: PlutusV1Script, 2: PlutusV2Script, 3: PlutusV3Script}


def mk_plutus(ver, body_hex):
    return PLUTUS_CLS[ver](H(body_hex))


def cred_obj(c):
    return VerificationKeyHash(H(c[1])) if c[0] == 'k' else ScriptHash(H(c[1]))


def stake_cred(c):
    return StakeCredential(cred_obj(c))


def drep_cred(c):
    return DRepCredential(cred_obj(c))


POOL = PoolKeyHash(b'\x11' * 28)
ANCHOR = Anchor(url='https://x.y', data_hash=AnchorDataHash(b'\x22' * 32))
DREP = DRep(DRepKind.ALWAYS_ABSTAIN)


def mk_cert(c):
    code = c['code']
    if code == 0:
        return StakeRegistration(stake_cred(c['cred']))
    if code == 1:
        return StakeDeregistration(stake_cred(c['cred']))
    if code == 2:
        return StakeDelegation(stake_cred(c['cred']), POOL)
    if code == 3:
        pp = PoolParams(operator=PoolKeyHash(H(c['operator'])), vrf_keyhash=VrfKeyHash(b'\x33' * 32), pledge=10 ** 8,
                        cost=340000000, margin=Fraction(1, 50),
                        reward_account=RewardAccountHash(b'\xe0' + b'\x44' * 28),
                        pool_owners=[VerificationKeyHash(H(o)) for o in c['owners']], relays=[], pool_metadata=None)
        return PoolRegistration(pp)
    if code == 4:
        return PoolRetirement(PoolKeyHash(H(c['pool'])), 400)
    if code == 7:
        return StakeRegistrationConway(stake_cred(c['cred']), 2000000)
    if code == 8:
        return StakeDeregistrationConway(stake_cred(c['cred']), 2000000)
    if code == 9:
        return VoteDelegation(stake_cred(c['cred']), DREP)
    if code == 10:
        return StakeAndVoteDelegation(stake_cred(c['cred']), POOL, DREP)
    if code == 11:
        return StakeRegistrationAndDelegation(stake_cred(c['cred']), POOL, 2000000)
    if code == 12:
        return StakeRegistrationAndVoteDelegation(stake_cred(c['cred']), DREP, 2000000)
    if code == 13:
        return StakeRegistrationAndDelegationAndVoteDelegation(stake_cred(c['cred']), POOL, DREP, 2000000)
    if code == 14:
        return AuthCommitteeHotCertificate(stake_cred(c['cold']), stake_cred(c['hot']))
    if code == 15:
        return ResignCommitteeColdCertificate(stake_cred(c['cold']), ANCHOR if c.get('anchor') else None)
    if code == 16:
        return RegDRepCert(drep_cred(c['cred']), 500000000, ANCHOR if c.get('anchor') else None)
    if code == 17:
        return UnregDRepCertificate(drep_cred(c['cred']), 500000000)
    if code == 18:
        return UpdateDRepCertificate(drep_cred(c['cred']), ANCHOR if c.get('anchor') else None)
    raise ValueError(code)


ORD_CLS = {'plain': SigningKey, 'payment': PaymentSigningKey, 'stake': StakeSigningKey, 'pool': StakePoolSigningKey}
EXT_CLS = {'plain': ExtendedSigningKey, 'payment': PaymentExtendedSigningKey, 'stake': StakeExtendedSigningKey}


def mk_key(k):
    cls = (ORD_CLS if k['kind'] == 'ord' else EXT_CLS)[k['cls']]
    return cls(H(k['payload']))


def hexset(s):
    return sorted(x.payload.hex() for x in s)


def prepare(sc):
    attached = sc.get('attached', [])
    att_scripts = [mk_ns(a['ns']) for a in attached]
    utxos = []
    by_addr = {}
    for u in sc['utxos']:
        pay = u['pay']
        if pay[0] == 'att':                                  # older replay files
            pay_part = att_scripts[pay[1]].hash()
        else:
            pay_part = cred_obj(pay)
        st = None
        if u.get('stake'):
            st = PointerAddress(*u['stake'][1:]) if u['stake'][0] == 'ptr' else cred_obj(u['stake'])
        addr = Address(pay_part, st, network=NET)
        amount = Value(u['coin'])
        if u.get('tokens'):
            amount = Value(u['coin'], MultiAsset({ScriptHash(H(p)): Asset({AssetName(H(n)): q}) for p, n, q in u['tokens']}))
        kw = {}
        if u.get('script') is not None:
            kw['script'] = mk_ns(u['script'])
        elif u.get('pscript') is not None:
            kw['script'] = mk_plutus(*u['pscript'])
        if u.get('datum') == 'hash':
            kw['datum_hash'] = datum_hash(PlutusData())
        elif u.get('datum') == 'inline':
            kw['datum'] = PlutusData()
        out = TransactionOutput(addr, amount, **kw)
        x = wire(UTxO(TransactionInput(TransactionId(H(u['txid'])), u['ix']), out))
        utxos.append(x)
        by_addr.setdefault(str(addr), []).append(x)
    ctx = long_lived(Ctx, by_addr)
    b = TransactionBuilder(ctx)
    def supplied(i):
        """what is passed as `script`: the object, or the UTxO that carries it"""
        a = attached[i]
        return utxos[a['ref_utxo']] if a.get('via', 'witness') == 'ref' else att_scripts[i]
    att_inputs = {a['utxo']: i for i, a in enumerate(attached) if a['how'] == 'input'}
    plutus = sc.get('plutus', [])
    pl_inputs = {a['utxo']: a for a in plutus if a['how'] == 'input'}

    def pl_supplied(a):
        return utxos[a['ref_utxo']] if a['via'] == 'ref' else mk_plutus(a['ver'], a['body'])

    def pl_redeemer(a):
        return Redeemer(PlutusData(), ExecutionUnits(a['mem'], a['steps']))
    for i in sc['inputs']:
        if i in pl_inputs:
            a = pl_inputs[i]
            datum = PlutusData() if sc['utxos'][i].get('datum') == 'hash' else None
            b.add_script_input(utxos[i], script=pl_supplied(a), datum=datum, redeemer=pl_redeemer(a))
        elif i in att_inputs:
            a = attached[att_inputs[i]]
            via = a.get('via', 'witness')
            if via == 'ref':
                b.add_script_input(utxos[i], script=utxos[a['ref_utxo']])
            elif via == 'lookup' or (via == 'self' and not a.get('pass_obj')):
                b.add_script_input(utxos[i])
            else:
                b.add_script_input(utxos[i], script=att_scripts[att_inputs[i]])
        else:
            b.add_input(utxos[i])
    for i in sc.get('extra_refs', []):
        b.reference_inputs.add(utxos[i])
    for a in sc.get('input_addresses', []):
        b.add_input_address(Address(cred_obj(a), network=NET))
    for i in sc.get('potential', []):
        b.potential_inputs.append(utxos[i])
    for o in sc.get('outputs', []):
        b.add_output(TransactionOutput(Address(cred_obj(o[0]), network=NET), o[1]))
    for i in sc['collateral']:
        b.collaterals.append(utxos[i])
    if sc['required_signers'] is not None:
        b.required_signers = [VerificationKeyHash(H(h)) for h in sc['required_signers']]
    if sc['native_scripts'] is not None:
        b.native_scripts = [mk_ns(n) for n in sc['native_scripts']]
    if sc['certs']:
        b.certificates = [mk_cert(c) for c in sc['certs']]
    wd = {}
    for w in sc['withdrawals']:
        wd[bytes(Address(staking_part=cred_obj(w['cred']), network=NET))] = w['coin']
    for i, a in enumerate(attached):
        if a['how'] == 'mint':
            b.add_minting_script(supplied(i))
            ma = b.mint or MultiAsset()
            ma += MultiAsset({att_scripts[i].hash(): Asset({AssetName(b'T%d' % i): 1})})
            b.mint = ma
        elif a['how'] == 'withdrawal':
            b.add_withdrawal_script(supplied(i))
            wd[bytes(Address(staking_part=att_scripts[i].hash(), network=NET))] = 1000000
        elif a['how'] == 'cert':
            if not b.certificates:
                b.certificates = []
            b.certificates.append(StakeDelegation(StakeCredential(att_scripts[i].hash()), POOL))
            b.add_certificate_script(supplied(i))
    for i, a in enumerate(plutus):
        scr = mk_plutus(a['ver'], a['body'])
        h = script_hash(scr)
        if a['how'] == 'mint':
            b.add_minting_script(pl_supplied(a), pl_redeemer(a))
            ma = b.mint or MultiAsset()
            ma += MultiAsset({h: Asset({AssetName(b'P%d' % i): 1})})
            b.mint = ma
        elif a['how'] == 'withdrawal':
            b.add_withdrawal_script(pl_supplied(a), pl_redeemer(a))
            wd[bytes(Address(staking_part=h, network=NET))] = 1000000
        elif a['how'] == 'cert':
            if not b.certificates:
                b.certificates = []
            b.certificates.append(StakeDelegation(StakeCredential(h), POOL))
            b.add_certificate_script(pl_supplied(a), pl_redeemer(a))
    if wd:
        b.withdrawals = Withdrawals(wd)
    for v in sc['voters']:
        vt = {'cc': VoterType.COMMITTEE_HOT, 'drep': VoterType.DREP, 'spo': VoterType.STAKING_POOL}[v['kind']]
        for n in range(v.get('votes', 1)):
            b.add_vote(Voter(cred_obj(v['cred']), vt), GovActionId(TransactionId(bytes([n + 1]) * 32), n), Vote.YES)
    if sc.get('witness_override') is not None:
        b.witness_override = sc['witness_override']
    return b


def outpoints(l):
    return [[u.input.transaction_id.payload.hex(), u.input.index] for u in l]


def handler(sc, payload):
    out = {}
    b = prepare(sc)
    if sc.get('prebuild') and sc.get('sign', True) and sc['required_signers'] is not None:
        # the builder has been used before: a first build_and_sign with MORE required signers (two co-signers who then
        # dropped out), then required_signers is set to the scenario's list; everything below is the second use
        saved_outputs = list(b.outputs)
        try:
            extra = [VerificationKeyHash(bytes([0xC0 + k]) * 28) for k in range(2)]
            b.required_signers = [VerificationKeyHash(H(h)) for h in sc['required_signers']] + extra
            kw0 = {}
            if sc.get('collateral_change') is not None:
                kw0['collateral_change_address'] = Address(cred_obj(sc['collateral_change']), network=NET)
            b.build_and_sign([mk_key(sc['keys'][i]) for i in sc['supplied']],
                             change_address=Address(cred_obj(sc['change']), network=NET), force_skeys=sc['force'], **kw0)
        except Exception:
            pass
        b.outputs[:] = saved_outputs          # build() appended its change outputs to the builder's list: the caller takes them out
        b.required_signers = [VerificationKeyHash(H(h)) for h in sc['required_signers']]
    pp = b.context.protocol_param
    rs = pp.min_fee_reference_scripts
    assert float(rs['base']).is_integer() and float(rs['range']).is_integer()
    out['pp'] = [pp.min_fee_coefficient, pp.min_fee_constant, Fraction(pp.price_mem).numerator, Fraction(pp.price_mem).denominator,
                 Fraction(pp.price_step).numerator, Fraction(pp.price_step).denominator, int(rs['base']), int(rs['range'])]
    pre_inputs, pre_cols = outpoints(b.inputs), outpoints(b.collaterals)
    out['slice'] = {
        'required_signers': hexset(b._required_signer_vkey_hashes()),
        'inputs': hexset(b._input_vkey_hashes()),
        'certs': hexset(b._certificate_vkey_hashes()),
        'votes': hexset(b._vote_vkey_hashes()),
        'withdrawals': hexset(b._withdrawal_vkey_hashes()),
        'native': hexset(b._native_scripts_vkey_hashes()),
        'required': hexset(b._build_required_vkeys()),
        'witness_count': b._witness_count(),
        'fake': [[w.vkey.payload.hex(), w.signature.hex()] for w in b._build_fake_vkey_witnesses()],
        'all_scripts': sorted(script_hash(x).payload.hex() for x in b.all_scripts),
        'scripts': sorted(script_hash(x).payload.hex() for x in b.scripts),
    }
    if sc.get('sign', True):
        keys = [mk_key(sc['keys'][i]) for i in sc['supplied']]
        change = Address(cred_obj(sc['change']), network=NET)
        try:
            kw = {}
            if sc.get('auto') is not None:
                kw['auto_required_signers'] = sc['auto']
            if sc.get('collateral_change') is not None:
                kw['collateral_change_address'] = Address(cred_obj(sc['collateral_change']), network=NET)
            if sc.get('merge'):
                kw['merge_change'] = True        # the change is folded into the output that already pays the change address
            tx = b.build_and_sign(keys, change_address=change, force_skeys=sc['force'], **kw)
            out['tx'] = tx.to_cbor().hex()
            out['sel_inputs'] = [x for x in outpoints(b.inputs) if x not in pre_inputs]
            out['sel_collateral'] = [x for x in outpoints(b.collaterals) if x not in pre_cols]
            out['req_post'] = hexset(b._build_required_vkeys())
            out['n_fake_post'] = len(b._build_fake_vkey_witnesses())
            out['n_inputs'] = len(tx.transaction_body.inputs)
        except Exception as e:
            import traceback
            out['err'] = err_kind(e)
            out['err_msg'] = (str(e) or traceback.format_exc())[-300:]
    return out


if __name__ == '__main__':
    main(handler)
