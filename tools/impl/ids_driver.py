"""C17 driver: computes, on the REAL pycardano objects, every identifier the library offers together with
the bytes the library serializes for the object.  All byte strings travel as hex.

case kinds (field k):
  tx      {body: {...}, decoded: bool}            -> tx, body, id_body, id_tx   (+ same_bytes for decoded)
  datum   {form, d}                               -> ws, out, direct|None, id
  aux     {era, md, ns, ps, decoded}              -> tx, direct, id
  build   {aux: None | {era, md, ns, ps}, n_out}  -> aux_in|None, tx
  key     {cls, payload, from_sk}                 -> ext, payload, cb, id, nx_payload, nx_id
  native  {s}                                     -> cb, id, id_sh, ws, out, ma
  plutus  {v, sb}                                 -> id, id_psh, id_raw, ws, out, ma
  addr    {script, net, stake}                    -> addr, bech, stake_bytes
  finger  {p, n, form}                            -> fp
  gate    {scripts, pay, addr_script, stake, own, offer, ctx, datum_hash, inline, datum}
                                                  -> res: ['accept', script index, ref id|None] | ['refuse', kind]
  seq     {kind: body|aux|native|datum, origin, <initial object>, ops: [...]}
          ONE object lives through the operations (identifier reads, in-place edits, deep copy, re-encoding, re-wrap);
                                                  -> init, steps: [{after, obs+cont (reads), val (edits carrying an object)}]
"""
from _pre import *
import cbor2
from dataclasses import dataclass
from fractions import Fraction
from typing import Dict, List
from pycardano import (Address, Asset, AssetName, MultiAsset, ScriptHash, TransactionBody, TransactionInput,
                       TransactionOutput, TransactionWitnessSet, Transaction, UTxO, Value, VerificationKeyHash,
                       DatumHash, TransactionBuilder, PointerAddress, AuxiliaryDataHash)
from pycardano.backend.base import ChainContext, GenesisParameters, ProtocolParameters
from pycardano.network import Network
from pycardano.plutus import (PlutusData, RawPlutusData, PlutusV1Script, PlutusV2Script, PlutusV3Script, datum_hash,
                              script_hash, plutus_script_hash)
from pycardano.nativescript import (NativeScript, ScriptPubkey, ScriptAll, ScriptAny, ScriptNofK, InvalidBefore,
                                    InvalidHereAfter)
from pycardano.metadata import Metadata, ShelleyMarryMetadata, AlonzoMetadata, AuxiliaryData
from pycardano.serialization import IndefiniteList, RawCBOR, ByteString, NonEmptyOrderedSet, OrderedSet, default_encoder
from pycardano.cip.cip14 import encode_asset
import pycardano.key as K

H = bytes.fromhex
PV = {1: PlutusV1Script, 2: PlutusV2Script, 3: PlutusV3Script}
NET = {0: Network.TESTNET, 1: Network.MAINNET}


# ---------------------------------------------------------------- object builders
def mk_native(t):
    k = t[0]
    if k == 'pk':
        return ScriptPubkey(VerificationKeyHash(H(t[1])))
    if k == 'all':
        return ScriptAll([mk_native(x) for x in t[1]])
    if k == 'any':
        return ScriptAny([mk_native(x) for x in t[1]])
    if k == 'nofk':
        return ScriptNofK(t[1], [mk_native(x) for x in t[2]])
    if k == 'before':
        return InvalidBefore(t[1])
    if k == 'after':
        return InvalidHereAfter(t[1])
    raise ValueError(k)


def mk_script(d):
    if d[0] == 'native':
        return mk_native(d[1])
    if d[0] == 'plutus':
        return PV[d[1]](H(d[2]))
    if d[0] == 'raw':
        return H(d[1])
    raise ValueError(d[0])


@dataclass
class DA(PlutusData):
    CONSTR_ID = 0
    a: int
    b: bytes


@dataclass
class DB(PlutusData):
    CONSTR_ID = 1
    x: DA
    l: List[int]
    d: Dict[int, bytes]


@dataclass
class DC(PlutusData):
    CONSTR_ID = 130
    n: int
    y: DA


@dataclass
class DU(PlutusData):
    CONSTR_ID = 9


@dataclass
class DL(PlutusData):
    CONSTR_ID = 2
    b: ByteString


def mk_prim(t):
    """generic datum tree -> Python primitive accepted as a datum"""
    k = t[0]
    if k == 'int':
        return t[1]
    if k == 'bytes':
        return H(t[1])
    if k == 'list':
        return [mk_prim(x) for x in t[1]]
    if k == 'ilist':
        return IndefiniteList([mk_prim(x) for x in t[1]])
    if k == 'map':
        return {mk_prim(a): mk_prim(b) for a, b in t[1]}
    if k == 'constr':
        tag = 121 + t[1] if t[1] < 7 else 1280 + t[1] - 7
        return cbor2.CBORTag(tag, [mk_prim(x) for x in t[2]])
    raise ValueError(k)


def mk_typed(t):
    k = t[0]
    if k == 'DA':
        return DA(t[1], H(t[2]))
    if k == 'DB':
        return DB(mk_typed(t[1]), list(t[2]), {a: H(b) for a, b in t[3]})
    if k == 'DC':
        return DC(t[1], mk_typed(t[2]))
    if k == 'DU':
        return DU()
    if k == 'DL':
        return DL(ByteString(H(t[1])))
    raise ValueError(k)


from dataclasses import dataclass as _dataclass
from pycardano.plutus import PlutusData as _PlutusData


@_dataclass(unsafe_hash=True)
class _KeyCls(_PlutusData):
    CONSTR_ID = 0
    a: int
    b: bytes


def mk_datum(form, d):
    if form == 'objkeydict':
        # a bare dict datum keyed by a constructor WITH fields (Map Credential Integer): hashed directly, shipped nested
        return {_KeyCls(d[0], H(d[1])): d[2]}
    if form == 'typed':
        return mk_typed(d)
    if form == 'raw':
        return RawPlutusData(mk_prim(d))
    if form == 'prim':
        return mk_prim(d)
    if form == 'rawbytes':
        return RawCBOR(H(d))
    if form == 'rawcbor':
        return RawCBOR(cbor2.dumps(mk_prim(d), default=default_encoder))
    raise ValueError(form)


def mk_md(t):
    k = t[0]
    if k == 'int':
        return t[1]
    if k == 'str':
        return t[1]
    if k == 'bytes':
        return H(t[1])
    if k == 'list':
        return [mk_md(x) for x in t[1]]
    if k == 'map':
        return {mk_md(a): mk_md(b) for a, b in t[1]}
    raise ValueError(k)


def mk_aux(a):
    md = Metadata({lab: mk_md(v) for lab, v in a['md']})
    ns = [mk_native(x) for x in a['ns']]
    if a['era'] == 'shelley':
        return AuxiliaryData(md)
    if a['era'] == 'allegra':
        return AuxiliaryData(ShelleyMarryMetadata(md, ns if (ns or a.get('ns_present')) else None))
    kw = {}
    if a.get('md_present', True):
        kw['metadata'] = md
    if ns:
        kw['native_scripts'] = ns
    for v, key in ((1, 'plutus_v1_scripts'), (2, 'plutus_v2_scripts'), (3, 'plutus_v3_scripts')):
        l = [PV[v](H(x)) for vv, x in a['ps'] if vv == v]
        if l:
            kw[key] = l
    return AuxiliaryData(AlonzoMetadata(**kw))


KEY_ADDR = Address(VerificationKeyHash(bytes(range(28))), network=Network.TESTNET)


def mk_value(v):
    coin, ma = v
    if not ma:
        return Value(coin)
    return Value(coin, MultiAsset({ScriptHash(H(p)): Asset({AssetName(H(n)): q for n, q in names}) for p, names in ma}))


def mk_addr(a):
    pay = a['pay']
    pp = None if pay is None else (VerificationKeyHash(H(pay[1])) if pay[0] == 'key' else ScriptHash(H(pay[1])))
    st = a.get('stake')
    sp = None if st is None else (VerificationKeyHash(H(st[1])) if st[0] == 'key' else
                                  ScriptHash(H(st[1])) if st[0] == 'script' else PointerAddress(*st[1]))
    return Address(pp, sp, network=NET[a['net']])


def mk_output(o):
    kw = {}
    if o.get('dh'):
        kw['datum_hash'] = DatumHash(H(o['dh']))
    if o.get('datum') is not None:
        kw['datum'] = mk_datum(*o['datum'])
    if o.get('script') is not None:
        kw['script'] = mk_script(o['script'])
    if o.get('post_alonzo'):
        kw['post_alonzo'] = True
    return TransactionOutput(mk_addr(o['addr']), mk_value(o['value']), **kw)


def mk_body(b):
    kw = {}
    ins = [TransactionInput.from_primitive([H(t), i]) for t, i in b['inputs']]
    for k in ('ttl', 'validity_start', 'total_collateral', 'current_treasury_value', 'donation'):
        if b.get(k) is not None:
            kw[k] = b[k]
    if b.get('mint'):
        kw['mint'] = MultiAsset({ScriptHash(H(p)): Asset({AssetName(H(n)): q for n, q in names}) for p, names in b['mint']})
    if b.get('aux_hash'):
        kw['auxiliary_data_hash'] = AuxiliaryDataHash(H(b['aux_hash']))
    if b.get('required_signers'):
        kw['required_signers'] = [VerificationKeyHash(H(x)) for x in b['required_signers']]
    if b.get('collateral'):
        kw['collateral'] = [TransactionInput.from_primitive([H(t), i]) for t, i in b['collateral']]
    if b.get('reference_inputs'):
        kw['reference_inputs'] = [TransactionInput.from_primitive([H(t), i]) for t, i in b['reference_inputs']]
    if b.get('network_id') is not None:
        kw['network_id'] = NET[b['network_id']]
    if b.get('script_data_hash'):
        from pycardano.hash import ScriptDataHash
        kw['script_data_hash'] = ScriptDataHash(H(b['script_data_hash']))
    if b.get('withdrawals'):
        from pycardano.transaction import Withdrawals
        kw['withdraws'] = Withdrawals({H(a): q for a, q in b['withdrawals']})
    if b.get('update'):
        kw['update'] = [{H(g): {k: v for k, v in prm} for g, prm in b['update']['props']}, b['update']['epoch']]
    inputs = ins if b.get('inputs_as_list') else OrderedSet(ins, use_tag=not b.get('no_tag'))
    return TransactionBody(inputs=inputs, outputs=[mk_output(o) for o in b['outputs']], fee=b['fee'], **kw)


# ---------------------------------------------------------------- chain context
class Ctx(ChainContext):
    def __init__(self, utxos_by_addr):
        self._u = utxos_by_addr
        self._pp = ProtocolParameters(
            min_fee_constant=155381, min_fee_coefficient=44, max_block_size=73728, max_tx_size=16384,
            max_block_header_size=1100, key_deposit=2000000, pool_deposit=500000000, pool_influence=Fraction(3, 10),
            treasury_expansion=Fraction(1, 5), monetary_expansion=Fraction(3, 1000), decentralization_param=Fraction(0),
            extra_entropy="", protocol_major_version=8, protocol_minor_version=0, min_utxo=1000000,
            min_pool_cost=340000000, price_mem=Fraction(577, 10000), price_step=Fraction(721, 10000000),
            max_tx_ex_mem=10000000, max_tx_ex_steps=10000000000, max_block_ex_mem=50000000,
            max_block_ex_steps=40000000000, max_val_size=5000, collateral_percent=150, max_collateral_inputs=3,
            coins_per_utxo_word=34482, coins_per_utxo_byte=4310, cost_models={},
            min_fee_reference_scripts={"base": 44, "range": 25600, "multiplier": 1.2},
            maximum_reference_scripts_size={"bytes": 200000})

    @property
    def protocol_param(self):
        return self._pp

    @property
    def genesis_param(self):
        raise NotImplementedError()

    @property
    def network(self):
        return Network.TESTNET

    @property
    def epoch(self):
        return 300

    @property
    def last_block_slot(self):
        return 2000

    def _utxos(self, address):
        return list(self._u.get(address, []))

    def submit_tx_cbor(self, cbor):
        pass

    def evaluate_tx_cbor(self, cbor):
        return {}


def txin(i):
    return TransactionInput.from_primitive([i.to_bytes(32, 'big'), i % 3])


# ---------------------------------------------------------------- handlers
def h_tx(c):
    body = mk_body(c['body'])
    tx = Transaction(body, TransactionWitnessSet())
    if c.get('decoded'):
        orig = tx.to_cbor()
        try:
            tx = Transaction.from_cbor(orig)
        except Exception as e:                 # decoding is C01/C03; not an identifier question
            return {'decode_err': err_kind(e)}
        body = tx.transaction_body
        same = tx.to_cbor() == orig
    else:
        same = None
    return {'tx': tx.to_cbor().hex(), 'body': body.to_cbor().hex(), 'id_body': body.id.payload.hex(),
            'id_hash': body.hash().hex(), 'id_tx': tx.id.payload.hex(), 'same_bytes': same}


def h_datum(c):
    d = mk_datum(c['form'], c['d'])
    ws = TransactionWitnessSet(plutus_data=[d])
    out = TransactionOutput(KEY_ADDR, Value(2000000), datum=d)
    direct = d.to_cbor().hex() if hasattr(d, 'to_cbor') else None
    return {'ws': ws.to_cbor().hex(), 'out': out.to_cbor().hex(), 'direct': direct, 'id': datum_hash(d).payload.hex()}


def h_aux(c):
    aux = mk_aux(c)
    body = TransactionBody(inputs=[txin(1)], outputs=[TransactionOutput(KEY_ADDR, Value(2000000))], fee=170000,
                           auxiliary_data_hash=aux.hash())
    tx = Transaction(body, TransactionWitnessSet(), True, aux)
    if c.get('decoded'):
        try:
            tx = Transaction.from_cbor(tx.to_cbor())
        except Exception as e:
            return {'decode_err': err_kind(e)}
        aux = tx.auxiliary_data
    return {'tx': tx.to_cbor().hex(), 'direct': aux.to_cbor().hex(), 'id': aux.hash().payload.hex()}


def h_build(c):
    sk = K.PaymentSigningKey(bytes([7]) * 32)
    vk = sk.to_verification_key()
    addr = Address(vk.hash(), network=Network.TESTNET)
    utxos = [UTxO(txin(10 + i), TransactionOutput(addr, Value(5000000 + 1000000 * i))) for i in range(3)]
    ctx = Ctx({str(addr): utxos})
    b = TransactionBuilder(ctx)
    b.add_input_address(addr)
    for i in range(c.get('n_out', 1)):
        b.add_output(TransactionOutput(KEY_ADDR, Value(1500000 + i)))
    aux_in = None
    if c.get('aux') is not None:
        b.auxiliary_data = mk_aux(c['aux'])
        aux_in = b.auxiliary_data.to_cbor().hex()
    try:
        tx = b.build_and_sign([sk], change_address=addr)
    except Exception as e:
        return {'err': err_kind(e)}
    return {'aux_in': aux_in, 'tx': tx.to_cbor().hex(), 'id_tx': tx.id.payload.hex()}


def h_outdatum(c):
    """add_output(out, datum=D2, add_datum_to_witness=True): `out` is a fresh output (route 0), an output object that another
    builder already locked with datum D1 (route 1: a template re-used), or an output decoded from CBOR that carries the hash
    of D1 (route 2)"""
    sk = K.PaymentSigningKey(bytes([7]) * 32)
    vk = sk.to_verification_key()
    addr = Address(vk.hash(), network=Network.TESTNET)
    utxos = [UTxO(txin(10 + i), TransactionOutput(addr, Value(9000000 + 1000000 * i))) for i in range(3)]
    d1, d2 = mk_datum(c['form1'], c['d1']), mk_datum(c['form2'], c['d2'])
    out = TransactionOutput(KEY_ADDR, Value(2500000))
    if c['route'] == 1:
        TransactionBuilder(Ctx({str(addr): utxos})).add_output(out, datum=d1, add_datum_to_witness=True)
    elif c['route'] == 2:
        out = TransactionOutput.from_cbor(TransactionOutput(KEY_ADDR, Value(2500000), datum_hash=datum_hash(d1)).to_cbor())
    b = TransactionBuilder(Ctx({str(addr): utxos}))
    b.add_input_address(addr)
    try:
        b.add_output(out, datum=d2, add_datum_to_witness=True)
        tx = b.build_and_sign([sk], change_address=addr)
    except Exception as e:
        return {'err': err_kind(e)}
    import cbor2
    from pycardano.serialization import default_encoder
    own = d2.to_cbor() if hasattr(d2, 'to_cbor') else cbor2.dumps(d2, default=default_encoder)
    return {'tx': tx.to_cbor().hex(), 'd2': own.hex()}


def h_key(c):
    cls = getattr(K, c['cls'])
    ext = issubclass(cls, K.ExtendedVerificationKey)
    if c.get('from_sk'):
        if ext:
            skcls = getattr(K, c['cls'].replace('Verification', 'Signing'))
            vk0 = skcls(H(c['payload'])).to_verification_key()
        else:
            skcls = getattr(K, c['cls'].replace('Verification', 'Signing'))
            vk0 = skcls(H(c['payload'])).to_verification_key()
        vk = cls(vk0.payload)
        via = vk0.hash().payload.hex()
    else:
        vk = cls(H(c['payload']))
        via = None
    r = {'ext': ext, 'payload': vk.payload.hex(), 'cb': vk.to_cbor().hex(), 'id': vk.hash().payload.hex(), 'via_sk': via}
    if ext:
        nx = vk.to_non_extended()
        r['nx_payload'] = nx.payload.hex(); r['nx_id'] = nx.hash().payload.hex()
    else:
        r['nx_payload'] = r['payload']; r['nx_id'] = r['id']
    # a restored key hashes the same
    r['id_restored'] = cls.from_cbor(vk.to_cbor()).hash().payload.hex()
    return r


def script_views(s):
    kw = {}
    if isinstance(s, NativeScript):
        kw['native_scripts'] = [s]
    else:
        kw[{1: 'plutus_v1_script', 2: 'plutus_v2_script', 3: 'plutus_v3_script'}[s.version]] = [s]
    ws = TransactionWitnessSet(**kw)
    out = TransactionOutput(KEY_ADDR, Value(3000000), script=s)
    ma = MultiAsset({script_hash(s): Asset({AssetName(b'tok'): 1})})
    return {'ws': ws.to_cbor().hex(), 'out': out.to_cbor().hex(), 'ma': ma.to_cbor().hex()}


def h_native(c):
    s = mk_native(c['s'])
    r = {'cb': s.to_cbor().hex(), 'id': s.hash().payload.hex(), 'id_sh': script_hash(s).payload.hex()}
    r.update(script_views(s))
    return r


def h_plutus(c):
    s = PV[c['v']](H(c['sb']))
    r = {'id': script_hash(s).payload.hex(), 'id_psh': plutus_script_hash(s).payload.hex(),
         'id_raw': script_hash(bytes(s)).payload.hex()}
    r.update(script_views(s))
    return r


def h_addr(c):
    s = mk_script(c['script'])
    st = c.get('stake')
    sp = None if st is None else (VerificationKeyHash(H(st[1])) if st[0] == 'key' else
                                  ScriptHash(H(st[1])) if st[0] == 'script' else PointerAddress(*st[1]))
    a = Address(script_hash(s), sp, network=NET[c['net']])
    sb = b'' if sp is None else (sp.encode() if isinstance(sp, PointerAddress) else sp.payload)
    return {'addr': bytes(a).hex(), 'bech': a.encode(), 'prim': a.to_primitive().hex(), 'stake_bytes': sb.hex(),
            'type': a.address_type.name}


def h_finger(c):
    p, n = H(c['p']), H(c['n'])
    if c['form'] == 'obj':
        return {'fp': encode_asset(ScriptHash(p), AssetName(n))}
    if c['form'] == 'bytes':
        return {'fp': encode_asset(p, n)}
    return {'fp': encode_asset(p.hex(), n.hex())}


def h_gate(c):
    scripts = [mk_script(d) for d in c['scripts']]

    def idx_of(s):
        for i, x in enumerate(scripts):
            if x is s:
                return i
        for i, x in enumerate(scripts):
            if type(x) is type(s) and x == s:
                return i
        return None

    pay = ScriptHash(H(c['pay'])) if c['addr_script'] else VerificationKeyHash(H(c['pay']))
    st = c.get('stake')
    sp = None if st is None else (VerificationKeyHash(H(st[1])) if st[0] == 'key' else ScriptHash(H(st[1])))
    addr = Address(pay, sp, network=Network.TESTNET)

    def out_with(si, **kw):
        if si is not None:
            kw['script'] = scripts[si]
        return TransactionOutput(addr, Value(4000000), **kw)

    okw = {}
    if c.get('datum_hash'):
        okw['datum_hash'] = DatumHash(H(c['datum_hash']))
    if c.get('inline') is not None:
        okw['datum'] = mk_datum(*c['inline'])
    utxo = UTxO(txin(c['id']), out_with(c.get('own'), **okw))
    ctx_utxos = [UTxO(txin(r['id']), out_with(r['script'])) for r in c['ctx']]
    ctx = Ctx({str(addr): ctx_utxos})
    off = c.get('offer')
    if off is None:
        arg = None
    elif off[0] == 'script':
        arg = scripts[off[1]]
    elif off[0] == 'ref':
        if off[1]['id'] == c['id']:
            arg = utxo
        else:
            arg = UTxO(txin(off[1]['id']), TransactionOutput(KEY_ADDR, Value(9000000),
                       **({'script': scripts[off[1]['script']]} if off[1]['script'] is not None else {})))
    else:
        raise ValueError(off[0])
    datum = mk_datum(*c['datum']) if c.get('datum') is not None else None
    b = TransactionBuilder(ctx)
    try:
        b.add_script_input(utxo, arg, datum, None)
    except Exception as e:
        return {'res': ['refuse', err_kind(e)], 'pay': bytes(addr.payment_part).hex(),
                'in_inputs': utxo in b.inputs, 'recorded': utxo in b._inputs_to_scripts}
    rec = b._inputs_to_scripts.get(utxo)
    refs = [u for u in b.reference_inputs]
    ref_ids = [int.from_bytes(u.input.transaction_id.payload, 'big') if isinstance(u, UTxO) else None for u in refs]
    return {'res': ['accept', idx_of(rec), ref_ids[0] if ref_ids else None], 'n_refs': len(refs),
            'pay': bytes(addr.payment_part).hex(), 'in_inputs': utxo in b.inputs,
            'datum_recorded': (datum is not None and len(b.datums) == 1) or (datum is None and len(b.datums) == 0)}


# ---------------------------------------------------------------- operation sequences on one living object
import copy as _copy

BODY_INT = ('ttl', 'validity_start', 'fee', 'total_collateral', 'donation', 'current_treasury_value')


def _body_val(field, v):
    from pycardano.hash import ScriptDataHash
    if field in BODY_INT:
        return v
    if field == 'script_data_hash':
        return ScriptDataHash(H(v))
    if field == 'auxiliary_data_hash':
        return AuxiliaryDataHash(H(v))
    if field == 'network_id':
        return NET[v]
    if field == 'required_signers':
        return [VerificationKeyHash(H(x)) for x in v]
    if field in ('collateral', 'reference_inputs'):
        return [TransactionInput.from_primitive([H(t), i]) for t, i in v]
    raise ValueError(field)


def _built_tx(c):
    sk = K.PaymentSigningKey(bytes([7]) * 32)
    addr = Address(sk.to_verification_key().hash(), network=Network.TESTNET)
    utxos = [UTxO(txin(10 + i), TransactionOutput(addr, Value(5000000 + 1000000 * i))) for i in range(3)]
    b = TransactionBuilder(Ctx({str(addr): utxos}))
    b.add_input_address(addr)
    for i in range(c.get('n_out', 1)):
        b.add_output(TransactionOutput(KEY_ADDR, Value(1500000 + i)))
    if c.get('aux') is not None:
        b.auxiliary_data = mk_aux(c['aux'])
    if c.get('ttl') is not None:
        b.ttl = c['ttl']
    return b.build_and_sign([sk], change_address=addr)


def seq_body(c, prog):
    sk = K.PaymentSigningKey(bytes([9]) * 32)
    if c['origin'] == 'builder':
        tx = _built_tx(c['build'])
    else:
        tx = Transaction(mk_body(c['body']), TransactionWitnessSet())
        if c['origin'] == 'decoded':
            tx = Transaction.from_cbor(tx.to_cbor())
    init = tx.transaction_body.to_cbor().hex()
    steps = prog['steps']
    for o in c['ops']:
        body = tx.transaction_body
        st = {}
        t = o[0]
        prog['op'] = t
        prog['copied'] = prog['copied'] or t == 'copy'
        if t == 'read':
            st['cont'] = tx.to_cbor().hex()                      # what would be shipped at this very moment
            got = body.hash() if o[1] == 0 else body.id.payload if o[1] == 1 else tx.id.payload
            st['obs'] = bytes(got).hex()
        elif t == 'set':
            setattr(body, o[1], _body_val(o[1], o[2]))
        elif t == 'del':
            setattr(body, o[1], None)
        elif t == 'append_output':
            body.outputs.append(mk_output(o[1]))
            st['val'] = mk_output(o[1]).to_cbor().hex()          # a fresh, standalone serialization of the same output
        elif t == 'append_input':
            body.inputs.append(TransactionInput.from_primitive([H(o[1][0]), o[1][1]]))
        elif t == 'coin':                                        # fee bump style: an amount adjusted in place
            body.outputs[o[1]].amount.coin = o[2]
            st['val'] = mk_output(o[3]).to_cbor().hex()
        elif t == 'out_replace':
            body.outputs[o[1]] = mk_output(o[2])
            st['val'] = mk_output(o[2]).to_cbor().hex()
        elif t == 'reenc':
            tx = Transaction.from_cbor(tx.to_cbor())
        elif t == 'copy':
            tx = _copy.deepcopy(tx)
        elif t == 'rewrap':
            tx = Transaction(tx.transaction_body, TransactionWitnessSet(), tx.valid, tx.auxiliary_data)
        elif t == 'neutral':                                     # re-sign: a new witness set over the current body
            from pycardano.witness import VerificationKeyWitness
            tx.transaction_witness_set = TransactionWitnessSet(
                vkey_witnesses=[VerificationKeyWitness(sk.to_verification_key(), sk.sign(body.hash()))])
        else:
            raise ValueError(t)
        st['after'] = tx.transaction_body.to_cbor().hex()
        steps.append(st)
    return {'init': init, 'steps': steps}


def _aux_md(aux):
    d = aux.data
    return d if isinstance(d, Metadata) else d.metadata


def seq_aux(c, prog):
    aux = mk_aux(c['aux'])
    if c['origin'] == 'decoded':
        aux = AuxiliaryData.from_cbor(aux.to_cbor())

    def container():
        body = TransactionBody(inputs=[txin(1)], outputs=[TransactionOutput(KEY_ADDR, Value(2000000))], fee=170000,
                               auxiliary_data_hash=AuxiliaryDataHash(bytes(32)))
        return Transaction(body, TransactionWitnessSet(), True, aux).to_cbor().hex()
    init = aux.to_cbor().hex()
    steps = prog['steps']
    for o in c['ops']:
        st = {}
        t = o[0]
        prog['op'] = t
        prog['copied'] = prog['copied'] or t == 'copy'
        if t == 'read':
            st['cont'] = container(); st['obs'] = aux.hash().payload.hex()
        elif t == 'md_set':
            _aux_md(aux)[o[1]] = mk_md(o[2])
            st['val'] = cbor2.dumps(mk_md(o[2]), default=default_encoder).hex()
        elif t == 'md_del':
            del _aux_md(aux)[o[1]]
        elif t == 'ns_append':
            aux.data.native_scripts.append(mk_native(o[1]))
        elif t == 'ns_set':
            aux.data.native_scripts = [mk_native(x) for x in o[1]]
        elif t == 'reenc':
            aux = AuxiliaryData.from_cbor(aux.to_cbor())
        elif t == 'copy':
            aux = _copy.deepcopy(aux)
        else:
            raise ValueError(t)
        st['after'] = aux.to_cbor().hex()
        steps.append(st)
    return {'init': init, 'steps': steps}


def _n_node(s, path):
    for i in path:
        s = s.native_scripts[i]
    return s


def seq_native(c, prog):
    s = mk_native(c['s'])
    if c['origin'] == 'decoded':
        s = NativeScript.from_cbor(s.to_cbor())
    init = s.to_cbor().hex()
    steps = prog['steps']
    for o in c['ops']:
        st = {}
        t = o[0]
        prog['op'] = t
        prog['copied'] = prog['copied'] or t == 'copy'
        if t == 'read':
            st['cont'] = TransactionWitnessSet(native_scripts=[s]).to_cbor().hex()
            st['obs'] = (s.hash() if o[1] == 0 else script_hash(s)).payload.hex()
        elif t == 'n_append':
            _n_node(s, o[1]).native_scripts.append(mk_native(o[2]))
        elif t == 'n_child':
            _n_node(s, o[1]).native_scripts[o[2]] = mk_native(o[3])
        elif t == 'n_set_n':
            _n_node(s, o[1]).n = o[2]
        elif t == 'n_set_slot':
            nd = _n_node(s, o[1])
            if isinstance(nd, InvalidBefore):
                nd.before = o[2]
            else:
                nd.after = o[2]
        elif t == 'n_set_kh':
            _n_node(s, o[1]).key_hash = VerificationKeyHash(H(o[2]))
        elif t == 'reenc':
            s = NativeScript.from_cbor(s.to_cbor())
        elif t == 'copy':
            s = _copy.deepcopy(s)
        else:
            raise ValueError(t)
        st['after'] = s.to_cbor().hex()
        steps.append(st)
    return {'init': init, 'steps': steps}


def seq_datum(c, prog):
    d = mk_typed(c['d'])
    if c['origin'] == 'decoded':
        d = type(d).from_cbor(d.to_cbor())
    init = d.to_cbor().hex()
    steps = prog['steps']
    for o in c['ops']:
        st = {}
        t = o[0]
        prog['op'] = t
        prog['copied'] = prog['copied'] or t == 'copy'
        if t == 'read':
            st['cont'] = TransactionWitnessSet(plutus_data=[d]).to_cbor().hex()
            st['obs'] = (datum_hash(d) if o[1] == 0 else d.hash()).payload.hex()
        elif t == 'd_set':
            nd = d
            for a in o[1]:
                nd = getattr(nd, a)
            setattr(nd, o[2], H(o[3]) if o[2] == 'b' else o[3])
        elif t == 'reenc':
            d = type(d).from_cbor(d.to_cbor())
        elif t == 'copy':
            d = _copy.deepcopy(d)
        else:
            raise ValueError(t)
        st['after'] = d.to_cbor().hex()
        steps.append(st)
    return {'init': init, 'steps': steps}


def h_seq(c):
    prog = {'steps': [], 'op': 'init', 'copied': False}
    try:
        return {'body': seq_body, 'aux': seq_aux, 'native': seq_native, 'datum': seq_datum}[c['kind']](c, prog)
    except Exception as e:
        # an exception in the middle of a life; the harness decides (by operation and kind) whether it is a documented
        # exclusion (decoding failed: C01/C03; a deep copy that lost its OrderedSet elements) or a failure of the run
        import traceback
        return {'seq_err': err_kind(e), 'at': len(prog['steps']), 'op': prog['op'], 'copied': prog['copied'],
                'detail': f'{type(e).__name__}: {e}'[:300], 'tb': traceback.format_exc()[-1200:]}


HANDLERS = {'seq': h_seq, 'tx': h_tx, 'datum': h_datum, 'aux': h_aux, 'build': h_build, 'outdatum': h_outdatum, 'key': h_key, 'native': h_native,
            'plutus': h_plutus, 'addr': h_addr, 'finger': h_finger, 'gate': h_gate}


def handler(case, payload):
    try:
        return HANDLERS[case['k']](case)
    except AssertionError:
        raise


main(handler)
