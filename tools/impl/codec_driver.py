"""Generates ledger objects through the public constructors (seeded), serializes / deserializes them with
the real code and reports: the object as a value tree (custom classes as opaque leaves holding their own
primitive), to_cbor bytes, whether from_cbor(to_cbor(x)) == x and re-encodes to the same bytes."""
from _pre import *
import dataclasses, enum, random, typing
from fractions import Fraction
import cbor2
from pycardano import *
from pycardano import serialization as S
from pycardano.serialization import (ArrayCBORSerializable, CBORSerializable, CodedSerializable, DictCBORSerializable,
                                     MapCBORSerializable, OrderedSet, NonEmptyOrderedSet, IndefiniteList, default_encoder)
from pycardano.hash import ConstrainedBytes
from pycardano.key import Key
import pycardano.transaction as T, pycardano.certificate as CERT, pycardano.governance as GOV, pycardano.witness as W
import pycardano.metadata as MD, pycardano.nativescript as NS, pycardano.pool_params as PP, pycardano.plutus as PL
import pycardano.key as K, pycardano.hash as H, pycardano.address as A, pycardano.network as NW

MODS = [T, CERT, GOV, W, MD, NS, PP, PL, K, H, A, NW]
CLASSES = {}
for m in MODS:
    for n, c in vars(m).items():
        if isinstance(c, type) and issubclass(c, CBORSerializable) and c.__module__ == m.__name__:
            CLASSES[n] = c

INTS = [0, 1, 2, 23, 24, 255, 256, 65535, 65536, 2**32 - 1, 2**32, 2**63 - 1, 2**64 - 1]
SMALL = [0, 1, 2, 5, 23, 24, 100, 1000]
ADDRS = ["addr_test1vrm9x2zsux7va6w892g38tvchnzahvcd9tykqf3ygnmwtaqyfg52x",
         "addr1qx2fxv2umyhttkxyxp8x0dlpdt3k6cwng5pxj3jhsydzer3n0d3vllmyqwsx5wktcd8cc3sq835lu7drv2xwl2wywfgse35a3x",
         "stake1u9ylzsgxaa6xctf4juup682ar3juj85n8tx3hthnljg47zctvm3rc",
         "addr_test1wzpzc4l7v2w3f5hjqyqqz0tk9v2dgjfxgnwx7eqv8uk4sggxwdaps"]


class Gen:
    def __init__(self, seed, opaque):
        self.r = random.Random(seed)
        self.opaque = set(opaque)
        self.depth = 0
        self.flags = []

    def b(self, n):
        return bytes(self.r.getrandbits(8) for _ in range(n))

    def integer(self, big=True):
        return self.r.choice(INTS if big and self.r.random() < 0.7 else SMALL)

    def text(self):
        return self.r.choice(['', 'a', 'https://x.io', 'ü', 'x' * 24])

    def address(self):
        return Address.from_primitive(self.r.choice(ADDRS))

    def asset(self):
        a = Asset()
        for _ in range(self.r.randint(1, 3)):
            a[AssetName(self.b(self.r.choice([0, 1, 5, 32])))] = self.r.choice([1, 2, 24, 2**32, 2**63 - 1])
        return a

    def multiasset(self, negative=False):
        m = MultiAsset()
        for _ in range(self.r.randint(1, 3)):
            a = self.asset()
            if negative:
                for k in list(a):
                    if self.r.random() < 0.5:
                        a[k] = -a[k]
            m[ScriptHash(self.b(28))] = a
        return m

    def value(self):
        return Value(self.integer(), self.multiasset() if self.r.random() < 0.6 else MultiAsset())

    def native_script(self, d=0):
        k = self.r.randint(0, 5 if d < 2 else 0)
        if k == 0 or d >= 2:
            return self.r.choice([ScriptPubkey(VerificationKeyHash(self.b(28))), InvalidBefore(self.integer()),
                                  InvalidHereAfter(self.integer())])
        subs = [self.native_script(d + 1) for _ in range(self.r.randint(0, 3))]
        return self.r.choice([ScriptAll(subs), ScriptAny(subs), ScriptNofK(self.r.randint(0, 3), subs)])

    def plutus_script(self):
        return self.r.choice([PlutusV1Script, PlutusV2Script, PlutusV3Script])(self.b(self.r.choice([1, 10, 70])))

    def datum(self):
        return self.r.choice([0, 5, b'', b'ab', {}, {1: 2}, RawPlutusData(cbor2.CBORTag(121, [1, b'x'])),
                              RawPlutusData(cbor2.CBORTag(122, [])), IndefiniteList([1, 2]), 2**64])

    def output(self):
        kind = self.r.randint(0, 5)
        a, v = self.address(), self.value()
        if kind == 0:
            return TransactionOutput(a, v)
        if kind == 1:
            return TransactionOutput(a, v, datum_hash=DatumHash(self.b(32)))
        if kind == 2:
            return TransactionOutput(a, v, datum=self.datum())
        if kind == 3:
            return TransactionOutput(a, v, script=self.r.choice([self.native_script(), self.plutus_script()]))
        if kind == 4:
            return TransactionOutput(a, v, datum=self.datum(), script=self.plutus_script())
        return TransactionOutput(a, v, post_alonzo=True)

    def credential(self, cls):
        return cls(self.r.choice([VerificationKeyHash, ScriptHash])(self.b(28)))

    def special(self, name):
        r = self.r
        if name == 'Address':
            return self.address()
        if name == 'PointerAddress':
            return PointerAddress(r.choice([0, 127, 128, 2**21]), r.choice([0, 1, 300]), r.choice([0, 5]))
        if name == 'TransactionOutput':
            return self.output()
        if name == 'Value':
            return Value(self.integer(), self.multiasset() if r.random() < 0.7 else MultiAsset())
        if name == 'MultiAsset':
            return self.multiasset(negative=r.random() < 0.3)
        if name == 'Asset':
            return self.asset()
        if name in ('StakeCredential', 'DRepCredential', 'CommitteeColdCredential'):
            return self.credential(CLASSES[name])
        if name == 'DRep':
            k = r.choice(list(DRepKind))
            if k == DRepKind.VERIFICATION_KEY_HASH:
                return DRep(k, VerificationKeyHash(self.b(28)))
            if k == DRepKind.SCRIPT_HASH:
                return DRep(k, ScriptHash(self.b(28)))
            return DRep(k)
        if name == 'Voter':
            vt = r.choice(list(VoterType))
            cred = VerificationKeyHash(self.b(28)) if vt == VoterType.STAKING_POOL or r.random() < 0.5 else ScriptHash(self.b(28))
            return Voter(cred, vt)
        if name == 'VotingProcedure':
            return VotingProcedure(r.choice(list(Vote)), self.make(Anchor) if r.random() < 0.5 else None)
        if name == 'GovActionId':
            return GovActionId(TransactionId(self.b(32)), r.choice([0, 1, 255, 256, 65535]))
        if name == 'VerificationKeyWitness':
            kcls = r.choice([VerificationKey, VerificationKey, PaymentVerificationKey, StakeVerificationKey])
            if kcls is not VerificationKey:
                self.flags.append('typed_vkey')     # the role of a key is not on the wire (known finding C01 witness-key-retyped)
            return VerificationKeyWitness(kcls(self.b(32)), self.b(64))
        if name == 'PoolRegistration':
            return PoolRegistration(self.make(PoolParams))
        if name == 'SingleHostAddr':
            return SingleHostAddr(r.choice([None, 3001]), r.choice([None, '192.168.0.1', '8.8.8.8']),
                                  r.choice([None, '::1', '2001:db8::1']))
        if name == 'SingleHostName':
            return SingleHostName(r.choice([None, 3001]), r.choice(['relay.io', 'a.b']))
        if name == 'MultiHostName':
            return MultiHostName(r.choice(['relay.io', 'a.b']))
        if name == 'PoolId':
            return PoolId(str(PoolKeyHash(self.b(28)).payload.hex())) if False else PoolId('pool1pu5jlj4q9w9jlxeu370a3c9myx47md5j5m2str0naunn2q3lkdy')
        if name in ('NativeScript', 'ScriptPubkey', 'ScriptAll', 'ScriptAny', 'ScriptNofK', 'InvalidBefore', 'InvalidHereAfter'):
            for _ in range(50):
                s = self.native_script()
                if name == 'NativeScript' or type(s).__name__ == name:
                    return s
            return {'ScriptPubkey': ScriptPubkey(VerificationKeyHash(self.b(28))), 'ScriptAll': ScriptAll([]), 'ScriptAny': ScriptAny([]),
                    'ScriptNofK': ScriptNofK(1, []), 'InvalidBefore': InvalidBefore(1), 'InvalidHereAfter': InvalidHereAfter(2)}[name]
        if name == 'AuxiliaryData':
            k = r.randint(0, 2)
            md = Metadata({r.choice([0, 674, 2**32]): r.choice([1, 'x', b'ab', [1, 'y'], {'k': 1}]) for _ in range(r.randint(0, 2))})
            if k == 0:
                return AuxiliaryData(md)
            if k == 1:
                return AuxiliaryData(ShelleyMarryMetadata(md, [self.native_script()] if r.random() < 0.5 else None))
            return AuxiliaryData(AlonzoMetadata(md if r.random() < 0.7 else None,
                                                [self.native_script()] if r.random() < 0.5 else None,
                                                [PlutusV1Script(self.b(3))] if r.random() < 0.3 else None,
                                                [PlutusV2Script(self.b(3))] if r.random() < 0.3 else None,
                                                [PlutusV3Script(self.b(3))] if r.random() < 0.3 else None))
        if name == 'AlonzoMetadata':
            return self.special('AuxiliaryData').data if False else AlonzoMetadata(Metadata({1: 2}), [self.native_script()])
        if name == 'RawPlutusData':
            return RawPlutusData(r.choice([cbor2.CBORTag(121, [1, b'x']), cbor2.CBORTag(122, []), 5, b'ab', {1: 2}]))
        if name == 'Redeemer':
            red = Redeemer(r.choice([5, b'x', RawPlutusData(cbor2.CBORTag(121, [])), [1]]), ExecutionUnits(self.integer(), self.integer()))
            red.tag = r.choice(list(RedeemerTag)); red.index = r.choice(SMALL)
            return red
        if name == 'RedeemerKey':
            return RedeemerKey(r.choice(list(RedeemerTag)), r.choice(SMALL))
        if name == 'RedeemerValue':
            return RedeemerValue(r.choice([5, b'x', RawPlutusData(cbor2.CBORTag(121, []))]), ExecutionUnits(self.integer(), self.integer()))
        if name == 'RedeemerMap':
            m = RedeemerMap()
            for _ in range(r.randint(1, 3)):
                m[self.special('RedeemerKey')] = self.special('RedeemerValue')
            return m
        if name == '_Script':
            return T._Script(r.choice([self.native_script(), self.plutus_script()]))
        if name == '_ScriptRef':
            return T._ScriptRef(self.special('_Script'))
        if name == '_DatumOption':
            return T._DatumOption(r.choice([DatumHash(self.b(32)), self.datum()]))
        if name == 'TransactionWitnessSet':
            return TransactionWitnessSet(
                vkey_witnesses=[self.special('VerificationKeyWitness') for _ in range(r.randint(1, 2))] if r.random() < 0.7 else None,
                native_scripts=[self.native_script()] if r.random() < 0.4 else None,
                plutus_v1_script=[PlutusV1Script(self.b(4))] if r.random() < 0.3 else None,
                plutus_data=[RawPlutusData(cbor2.CBORTag(121, [1])), 5] if r.random() < 0.3 else None,
                redeemer=r.choice([None, [self.special('Redeemer')], self.special('RedeemerMap')]),
                plutus_v2_script=[PlutusV2Script(self.b(4))] if r.random() < 0.3 else None,
                plutus_v3_script=[PlutusV3Script(self.b(4))] if r.random() < 0.3 else None)
        if name == 'Metadata':
            return Metadata({r.choice([0, 1, 674, 65536, 2**32]): r.choice([1, 'x', b'ab', [1, 'y'], {'k': 1}]) for _ in range(r.randint(0, 3))})
        if name == 'HardForkInitiationAction':
            return HardForkInitiationAction(self.special('GovActionId') if r.random() < 0.5 else None, (r.randint(1, 10), r.choice([0, 1, 24])))
        if name in ('PlutusData', 'Unit', 'CostModels', 'Key', 'ConstrainedBytes', 'UTxO'):
            return None if name != 'UTxO' else UTxO(TransactionInput(TransactionId(self.b(32)), r.choice(SMALL)), self.output())
        if name == 'ProtocolParamUpdate':
            kw = {}
            for f in dataclasses.fields(ProtocolParamUpdate):
                if f.name == 'cost_models':
                    if r.random() < 0.08:
                        kw[f.name] = {1: [1, 2, 3]}
                        self.flags = ['cost_models']
                    continue
                if r.random() < 0.7:
                    continue
                kw[f.name] = self.of_type(typing.get_type_hints(ProtocolParamUpdate)[f.name], f)
            return ProtocolParamUpdate(**kw)
        return NotImplemented

    def of_type(self, t, f=None):
        r = self.r
        if t is typing.Any:
            return r.choice([1, b'x', 'y', [1, 2], None]) if f is None or f.name != 'update' else None
        if t is int:
            return self.integer()
        if t is bytes:
            return self.b(r.choice([0, 1, 29, 64]))
        if t is str:
            return self.text()
        if t is bool:
            return r.random() < 0.5
        if t is type(None):
            return None
        if t is Fraction:
            return Fraction(r.choice([0, 1, 3, 577]), r.choice([1, 2, 10000]))
        origin, args = typing.get_origin(t), typing.get_args(t)
        if origin is typing.Union:
            opts = list(args)
            if type(None) in opts and f is not None and r.random() < 0.5:
                return None
            pick = r.choice(opts)
            return self.of_type(pick, f)
        if origin is tuple:
            return tuple(self.of_type(a) for a in args)
        if origin is list:
            return [self.of_type(args[0]) for _ in range(r.choice([0, 1, 2, 3, 3, 2, 1, 24 if self.depth < 3 else 2]))]
        if origin is dict:
            return {self.of_type(args[0]): self.of_type(args[1]) for _ in range(r.randint(0, 2))}
        if origin in (OrderedSet, NonEmptyOrderedSet):
            n = r.choice([1, 2, 3]) if origin is NonEmptyOrderedSet else r.choice([0, 1, 2])
            return origin([self.of_type(args[0]) for _ in range(n)], use_tag=r.random() < 0.7)
        if isinstance(t, type):
            if issubclass(t, CBORSerializable):
                return self.make(t)
            if issubclass(t, enum.Enum):
                return r.choice(list(t))
            if issubclass(t, bytes):
                return t(self.b(5))
        raise ValueError(f'generator: type {t!r}')

    def make(self, cls):
        self.depth += 1
        try:
            name = cls.__name__
            sp = self.special(name)
            if sp is None:
                raise ValueError('not generated: ' + name)
            if sp is not NotImplemented:
                return sp
            if issubclass(cls, ConstrainedBytes):
                return cls(self.b(self.r.randint(cls.MIN_SIZE, cls.MAX_SIZE)))
            if issubclass(cls, Key):
                return cls(self.b(64 if 'Extended' in name and 'Signing' not in name else (96 if 'Extended' in name else 32)))
            if issubclass(cls, enum.Enum):
                return self.r.choice(list(cls))
            if issubclass(cls, DictCBORSerializable):
                d = cls()
                for _ in range(self.r.randint(0, 3) if self.depth < 5 else 0):
                    d[self.of_dict_type(cls.KEY_TYPE)] = self.of_dict_type(cls.VALUE_TYPE)
                return d
            if dataclasses.is_dataclass(cls):
                hints = typing.get_type_hints(cls)
                args = {}
                for f in dataclasses.fields(cls):
                    if not f.init:
                        continue
                    has_default = f.default is not dataclasses.MISSING or f.default_factory is not dataclasses.MISSING
                    if has_default and (self.r.random() < 0.4 or self.depth > 4):
                        continue
                    args[f.name] = self.of_type(hints[f.name], f)
                return cls(**args)
            raise ValueError('generator: class ' + name)
        finally:
            self.depth -= 1

    def of_dict_type(self, t):
        if t is int:
            return self.integer()
        if t is bytes:
            return bytes([0xe0]) + self.b(28)
        if isinstance(t, type) and issubclass(t, CBORSerializable):
            return self.make(t)
        return self.r.choice([1, 'x'])


def prim_hex(obj):
    """the primitive of an opaque leaf, as CBOR bytes"""
    return cbor2.dumps(obj, default=default_encoder).hex()


def to_pv(x, opaque, declared_any=False):
    if x is None:
        return ['none']
    if declared_any:
        return ['any', prim_hex(x)]
    if isinstance(x, bool):
        return ['bool', x]
    if isinstance(x, int) and not isinstance(x, enum.Enum):
        return ['int', x]
    if isinstance(x, Fraction):
        return ['frac', x.numerator, x.denominator]
    if isinstance(x, CBORSerializable):
        name = type(x).__name__
        if name in opaque:
            return ['opq', name, prim_hex(x)]
        if isinstance(x, ConstrainedBytes):
            return ['cb', name, x.payload.hex()]
        if isinstance(x, enum.Enum):
            return ['enum', name, x.value]
        if isinstance(x, OrderedSet):
            return ['set', bool(x._use_tag), [to_pv(e, opaque) for e in x]]
        if isinstance(x, DictCBORSerializable):
            kt_any = not (isinstance(type(x).KEY_TYPE, type) and type(x).KEY_TYPE is not typing.Any) and False
            return ['dict', name, [[to_pv(k, opaque), to_pv(v, opaque, declared_any=(type(x).VALUE_TYPE is typing.Any))] for k, v in x.data.items()]]
        if dataclasses.is_dataclass(x):
            hints = typing.get_type_hints(type(x))
            return ['obj', name, [to_pv(getattr(x, f.name), opaque, declared_any=(hints[f.name] is typing.Any))
                                  for f in dataclasses.fields(x) if f.init]]
        raise ValueError('to_pv: ' + name)
    if isinstance(x, bytes):
        return ['bytes', bytes(x).hex()]
    if isinstance(x, str):
        return ['str', x.encode().hex()]
    if isinstance(x, (list, tuple)):
        return ['list', [to_pv(e, opaque) for e in x]]
    if isinstance(x, dict):
        return ['mapt', [[to_pv(k, opaque), to_pv(v, opaque)] for k, v in x.items()]]
    raise ValueError('to_pv: ' + repr(type(x)))


def skip_item(bs, pos):
    """own length-walking CBOR skipper (no cbor2): returns the position after the item starting at pos"""
    ib = bs[pos]; major, ai = ib >> 5, ib & 31
    pos += 1
    if ai < 24:
        arg = ai
    elif ai in (24, 25, 26, 27):
        n = 1 << (ai - 24); arg = int.from_bytes(bs[pos:pos + n], 'big'); pos += n
    elif ai == 31:
        arg = None
    else:
        raise ValueError('bad additional info')
    if major in (0, 1, 7):
        return pos
    if major in (2, 3):
        if arg is None:
            while bs[pos] != 0xff:
                pos = skip_item(bs, pos)
            return pos + 1
        return pos + arg
    if major in (4, 5):
        if arg is None:
            while bs[pos] != 0xff:
                pos = skip_item(bs, pos)
                if major == 5:
                    pos = skip_item(bs, pos)
            return pos + 1
        for _ in range(arg * (2 if major == 5 else 1)):
            pos = skip_item(bs, pos)
        return pos
    if major == 6:
        return skip_item(bs, pos)
    raise ValueError('major')


def walk(bs, pos, feats):
    """structural walk (no cbor2): records tag-258 sets and indefinite-length arrays, also inside tag-24 embedded CBOR"""
    ib = bs[pos]; major, ai = ib >> 5, ib & 31
    pos += 1
    if ai < 24:
        arg = ai
    elif ai in (24, 25, 26, 27):
        n = 1 << (ai - 24); arg = int.from_bytes(bs[pos:pos + n], 'big'); pos += n
    elif ai == 31:
        arg = None
    else:
        raise ValueError('bad additional info')
    if major in (0, 1, 7):
        return pos, None
    if major in (2, 3):
        if arg is None:
            feats.add('chunked-bytes')
            while bs[pos] != 0xff:
                pos, _ = walk(bs, pos, feats)
            return pos + 1, None
        return pos + arg, (bs[pos:pos + arg] if major == 2 else None)
    if major in (4, 5):
        if arg is None:
            feats.add('indefinite-list' if major == 4 else 'indefinite-map')
            while bs[pos] != 0xff:
                pos, _ = walk(bs, pos, feats)
                if major == 5:
                    pos, _ = walk(bs, pos, feats)
            return pos + 1, ('n', 99)
        for _ in range(arg * (2 if major == 5 else 1)):
            pos, _ = walk(bs, pos, feats)
        return pos, ('n', arg)
    if major == 6:
        end, inner = walk(bs, pos, feats)
        if arg == 258:
            feats.add('tagged-set')
            if isinstance(inner, tuple) and inner[1] >= 2:
                feats.add('tagged-set-2plus')
        if arg == 24 and isinstance(inner, (bytes, bytearray)) and inner:
            try:
                walk(bytes(inner), 0, feats)
            except Exception:
                pass
        return end, None
    raise ValueError('major')


def features(bs):
    feats = set()
    walk(bs, 0, feats)
    return sorted(feats)


def c03_case(case, payload):
    import hashlib
    g = Gen(case['seed'], [])
    tx = None
    for attempt in range(8):
        try:
            tx = g.make(Transaction)
            bs = tx.to_cbor()
            break
        except Exception as e:
            tx = None; last = f'{type(e).__name__}: {e}'
    if tx is None:
        return {'skip': last}
    start = 1 if bs[0] < 0x98 else 2
    end = skip_item(bs, start)
    body = bs[start:end]
    out = {'tx': bs.hex(), 'body_start': start, 'body_end': end, 'features': features(body), 'flags': g.flags,
           'expected_id': hashlib.blake2b(body, digest_size=32).hexdigest()}
    try:
        t = Transaction.from_cbor(bs)
        out['decode'] = 'ok'
        out['body_reenc'] = t.transaction_body.to_cbor().hex()
        out['id'] = t.id.payload.hex()
        out['tx_reenc_same'] = t.to_cbor() == bs
    except Exception as e:
        out['decode'] = err_kind(e); out['decode_msg'] = str(e)[:120]
    return out


def c03_raw(case, payload):
    """a transaction given as WIRE BYTES (produced by the Coq reference encoder, not by pycardano): decode, re-encode the body,
    compare with the body slice cut out by the own walker; id versus BLAKE2b-256 of the slice"""
    import hashlib
    bs = bytes.fromhex(case['tx'])
    start = 1 if bs[0] < 0x98 else 2
    end = skip_item(bs, start)
    body = bs[start:end]
    out = {'tx': bs.hex(), 'body_start': start, 'body_end': end, 'features': features(body), 'tx_features': features(bs), 'flags': [],
           'expected_id': hashlib.blake2b(body, digest_size=32).hexdigest()}
    try:
        t = Transaction.from_cbor(bs)
        out['decode'] = 'ok'
        out['body_reenc'] = t.transaction_body.to_cbor().hex()
        out['id'] = t.id.payload.hex()
        out['tx_reenc_same'] = t.to_cbor() == bs
    except Exception as e:
        out['decode'] = err_kind(e); out['decode_msg'] = str(e)[:160]
    return out


def handler(case, payload):
    if case.get('mode') == 'c03':
        return c03_case(case, payload)
    if case.get('mode') == 'c03raw':
        return c03_raw(case, payload)
    opaque = payload['opaque']
    cls = CLASSES[case['cls']]
    g = Gen(case['seed'], opaque)
    obj = None
    last = None
    for attempt in range(6):
        try:
            obj = g.make(cls)
            break
        except Exception as e:                      # constructor refused the random arguments: try again
            last = f'{type(e).__name__}: {e}'
    if obj is None:
        return {'skip': last}
    out = {'cls': case['cls'], 'flags': g.flags}
    try:
        bs = obj.to_cbor()
    except Exception as e:
        return {'skip': 'to_cbor: ' + err_kind(e) + ' ' + str(e)[:100]}
    out['cbor'] = bs.hex()
    try:
        out['pv'] = to_pv(obj, opaque)
    except Exception as e:
        out['pv_error'] = str(e)[:200]
    try:
        back = cls.from_cbor(bs)
        out['decode'] = 'ok'
        try:
            out['eq'] = bool(back == obj)
        except Exception as e:
            out['eq'] = False; out['eq_err'] = err_kind(e)
        try:
            out['reenc'] = back.to_cbor().hex()
        except Exception as e:
            out['reenc'] = '!' + err_kind(e)
        out['same_class'] = type(back) is type(obj)
    except Exception as e:
        out['decode'] = err_kind(e)
        out['decode_msg'] = str(e)[:160]
    return out


if __name__ == '__main__':
    main(handler)
