"""Common preamble of the implementation drivers (run under /venv/bin/python, PYTHONPATH=/repo)."""
import json, os, sys
if os.environ.get('VERIF_CBOR_BACKEND', 'py') == 'py':
    sys.modules['_cbor2'] = None          # force the pure-Python cbor2 that pycardano patches
sys.path.insert(0, os.environ.get('PYTHONPATH', '/repo').split(':')[0])
import pycardano  # noqa
from pycardano.logging import logger
logger.setLevel(100)

ERR_KINDS = ['DeserializeException', 'InvalidDataException', 'InvalidArgumentException',
             'UTxOSelectionException', 'InsufficientUTxOBalanceException', 'MaxInputCountExceededException',
             'InputUTxODepletedException', 'InvalidTransactionException', 'TransactionBuilderException',
             'InvalidAddressInputException', 'DecodingException', 'InvalidKeyTypeException',
             'SerializeException', 'AssertionError', 'ValueError', 'TypeError', 'KeyError', 'IndexError',
             'OverflowError', 'TypeCheckError']


def err_kind(e):
    n = type(e).__name__
    return n if n in ERR_KINDS else 'Other:' + n


def wire(obj):
    """An object as a chain backend hands it over: for one object in three (chosen by its own bytes, so a replay makes the same
    choice) the result of decoding its CBOR instead of the object constructed in Python -- only when the decoded object compares
    equal, prints alike (same iteration order of its maps: the models follow insertion order) and re-encodes to the same bytes, so
    that both are the same value by the library's own account."""
    import hashlib
    try:
        raw = obj.to_cbor()
        if hashlib.sha256(raw).digest()[0] % 3:
            return obj
        back = type(obj).from_cbor(raw)
        if back == obj and repr(back) == repr(obj) and back.to_cbor() == raw:
            return back
    except Exception:
        pass
    return obj


_KEYN = [0]


def pol(h):
    """28 bytes as a policy key.  One content, three spellings: ScriptHash (what decoding yields), PolicyId and PolicyHash (the
    exported aliases a caller writes); the class walks through them key by key, restarting with every case (so that a replay of
    one case makes the same choices).  The models see the bytes."""
    from pycardano.hash import ScriptHash, PolicyId, PolicyHash
    _KEYN[0] += 1
    return (ScriptHash, ScriptHash, PolicyId, ScriptHash, PolicyHash)[_KEYN[0] % 5](bytes.fromhex(h) if isinstance(h, str) else h)


_LIVE, _COUNT = {}, [0]


def long_lived(cls, *args, **kw):
    """A chain context object that outlives one transaction: two cases out of three re-use ONE instance per driver process
    and re-initialise it in place (new protocol parameters after an epoch boundary / governance action, new ledger state),
    the third gets a fresh instance.  Whatever the library remembers per context object (memo tables keyed on the context,
    attributes it hangs on it) survives from one case to the next and must not leak a stale answer."""
    _COUNT[0] += 1
    if cls not in _LIVE:
        _LIVE[cls] = cls(*args, **kw)
        return _LIVE[cls]
    if _COUNT[0] % 3 == 0:
        return cls(*args, **kw)
    obj = _LIVE[cls]
    obj.__init__(*args, **kw)
    return obj


def _install_trace():
    """T3 (tools/lib/fingerprints.py): `reach` = which pycardano functions the cases call; `lines` = which lines of the
    CHANGED functions they execute.  Only code of the repository under test is looked at."""
    sp = os.environ.get('VERIF_TRACE')
    if not sp or not os.path.exists(sp):
        return None
    spec = json.load(open(sp))
    real = {}

    def rp(fn):
        r = real.get(fn)
        if r is None:
            r = real[fn] = os.path.realpath(fn)
        return r
    if spec['mode'] == 'reach':
        root = os.path.join(spec['root'], 'pycardano') + os.sep
        seen = {}

        def prof(frame, event, arg):
            if event == 'call':
                co = frame.f_code
                fn = rp(co.co_filename)
                if fn.startswith(root):
                    seen.setdefault(fn, set()).add(co.co_qualname)
        sys.setprofile(prof)
        return ('reach', seen, spec)
    funcs = {f: [tuple(r) for r in rs] for f, rs in spec['funcs'].items()}
    hits = {}

    def local(frame, event, arg):
        if event == 'line':
            d = hits.setdefault(rp(frame.f_code.co_filename), {})
            d[frame.f_lineno] = d.get(frame.f_lineno, 0) + 1
        return local

    def glob_(frame, event, arg):
        co = frame.f_code
        rs = funcs.get(rp(co.co_filename))
        if rs is None:
            return None
        ln = co.co_firstlineno
        for lo, hi in rs:
            if lo <= ln <= hi:
                return local
        return None
    sys.settrace(glob_)
    return ('lines', hits, spec)


def _finish_trace(st):
    if st is None:
        return
    mode, data, spec = st
    sys.settrace(None); sys.setprofile(None)
    out = {'lines': {}, 'reach': {}}
    if mode == 'reach':
        out['reach'] = {f: sorted(q) for f, q in data.items()}
    else:
        out['lines'] = {f: {str(k): v for k, v in d.items()} for f, d in data.items()}
    with open(os.path.join(spec['out'], f'hits_{os.getpid()}.json'), 'w') as f:
        json.dump(out, f)


def main(handler):
    payload = json.loads(sys.stdin.read())
    _tr = _install_trace()
    try:
        _main(handler, payload)
    finally:
        _finish_trace(_tr)


def _main(handler, payload):
    results = []
    for c in payload['cases']:
        try:
            _KEYN[0] = len(json.dumps(c, sort_keys=True, default=str))
            results.append(handler(c, payload))
        except Exception as e:                                  # driver-level failure: report, do not hide
            import traceback
            results.append({'driver_error': f'{type(e).__name__}: {e}', 'tb': traceback.format_exc()[-1500:]})
    sys.stdout.write('\n' + json.dumps({'results': results}) + '\n')
