"""Common preamble of the implementation drivers (run under /venv/bin/python, PYTHONPATH=/repo)."""
import json, os, sys
if os.environ.get('VERIF_CBOR_BACKEND', 'py') == 'py':
    sys.modules['_cbor2'] = None          # force the pure-Python cbor2 that pycardano patches
sys.path.insert(0, os.environ.get('PYTHONPATH', '/repo').split(':')[0])
import pycardano  # noqa
from pycardano.logging import logger
logger.setLevel(100)

ERR_KINDS = ['DeserializeException', 'InvalidDataException', 'InvalidArgumentException',
             'UTxOSelectionException', 'InsufficientUTxOBalanceException', 'MaxInputCountExceededException',
             'InputUTxODepletedException', 'InvalidTransactionException', 'TransactionBuilderException',
             'InvalidAddressInputException', 'DecodingException', 'InvalidKeyTypeException',
             'SerializeException', 'AssertionError', 'ValueError', 'TypeError', 'KeyError', 'IndexError',
             'OverflowError', 'TypeCheckError']


def err_kind(e):
    n = type(e).__name__
    return n if n in ERR_KINDS else 'Other:' + n


_LIVE, _COUNT = {}, [0]


def long_lived(cls, *args, **kw):
    """A chain context object that outlives one transaction: two cases out of three re-use ONE instance per driver process
    and re-initialise it in place (new protocol parameters after an epoch boundary / governance action, new ledger state),
    the third gets a fresh instance.  Whatever the library remembers per context object (memo tables keyed on the context,
    attributes it hangs on it) survives from one case to the next and must not leak a stale answer."""
    _COUNT[0] += 1
    if cls not in _LIVE:
        _LIVE[cls] = cls(*args, **kw)
        return _LIVE[cls]
    if _COUNT[0] % 3 == 0:
        return cls(*args, **kw)
    obj = _LIVE[cls]
    obj.__init__(*args, **kw)
    return obj


def main(handler):
    payload = json.loads(sys.stdin.read())
    results = []
    for c in payload['cases']:
        try:
            results.append(handler(c, payload))
        except Exception as e:                                  # driver-level failure: report, do not hide
            import traceback
            results.append({'driver_error': f'{type(e).__name__}: {e}', 'tb': traceback.format_exc()[-1500:]})
    sys.stdout.write('\n' + json.dumps({'results': results}) + '\n')
