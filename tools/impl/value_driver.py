"""Runs value programs (see coq/theories/ValueHeap.v: hop) on the real Asset/MultiAsset/Value classes."""
from _pre import *
from copy import deepcopy
from pycardano import Asset, AssetName, MultiAsset, ScriptHash, Value


SHARE = [False]      # per case: policies of one bundle whose literals are equal hold THE SAME Asset object


def mk_ma(lit):
    ma = MultiAsset()
    seen = {}
    for p, names in lit:
        key = json.dumps(names)
        if SHARE[0] and key in seen:
            a = seen[key]
        else:
            a = Asset()
            for n, q in names:
                a[AssetName(bytes.fromhex(n))] = q
            seen[key] = a
        ma[pol(p)] = a
    return ma


def dump_ma(ma):
    return [[p.payload.hex(), [[n.payload.hex(), q] for n, q in a.data.items()]] for p, a in ma.data.items()]


def crit(c):
    k = c[0]
    if k == 'pos':
        return lambda p, n, v: v > 0
    if k == 'ge':
        return lambda p, n, v: v >= c[1]
    if k == 'policy':
        return lambda p, n, v: p.payload == bytes.fromhex(c[1])
    if k == 'namelen':
        return lambda p, n, v: len(n.payload) == c[1]
    raise ValueError(k)


def dict_case(case):
    """map-like classes of the property: built in the given insertion order, in reverse order with a delete / re-insert,
    and through decode / encode"""
    from pycardano import (Metadata, Withdrawals, RedeemerMap, RedeemerKey, RedeemerValue, RedeemerTag, ExecutionUnits,
                           GovActionIdToVotingProcedure, GovActionId, VotingProcedure, Vote, VotingProcedures, Voter,
                           VoterType, TransactionId, VerificationKeyHash, ScriptHash)
    from pycardano.governance import TreasuryWithdrawal
    out = {}
    kind = case['dict']
    if kind == 'metadata':
        d = Metadata()
        for k, v in case['entries']:
            d[k] = v
    elif kind == 'withdrawals':
        d = Withdrawals()
        for k, v in case['entries']:
            d[bytes.fromhex(k)] = v
    elif kind == 'treasury':
        d = TreasuryWithdrawal()
        for k, v in case['entries']:
            d[bytes.fromhex(k)] = v
    elif kind == 'redeemers':
        d = RedeemerMap()
        for (tag, ix), (data, mem, steps) in case['entries']:
            d[RedeemerKey(RedeemerTag(tag), ix)] = RedeemerValue(data, ExecutionUnits(mem, steps))
    elif kind == 'votes':
        d = GovActionIdToVotingProcedure()
        for (txid, ix), vote in case['entries']:
            d[GovActionId(TransactionId(bytes.fromhex(txid)), ix)] = VotingProcedure(Vote(vote), None)
    elif kind == 'voters':
        d = VotingProcedures()
        for (code, h), vote in case['entries']:
            cred = (VerificationKeyHash if code in (0, 2, 4) else ScriptHash)(bytes.fromhex(h))
            vt = {0: VoterType.COMMITTEE_HOT, 1: VoterType.COMMITTEE_HOT, 2: VoterType.DREP, 3: VoterType.DREP,
                  4: VoterType.STAKING_POOL}[code]
            inner = GovActionIdToVotingProcedure()
            inner[GovActionId(TransactionId(bytes(32)), 0)] = VotingProcedure(Vote(vote), None)
            d[Voter(cred, vt)] = inner
    else:
        raise ValueError(kind)
    out['cbor'] = d.to_cbor().hex()
    # second history: build in reverse order, then delete and re-insert the first key
    d2 = type(d)()
    for k, v in reversed(list(d.data.items())):
        d2[k] = v
    if len(d2):
        k0 = next(iter(d2.data)); v0 = d2[k0]; del d2[k0]; d2[k0] = v0
    out['cbor2'] = d2.to_cbor().hex()
    out['rt'] = type(d).from_cbor(d.to_cbor()).to_cbor().hex()
    # third history: encodes interleaved with in-place operations that reach the underlying dict without item assignment
    # (the methods DictCBORSerializable forwards to .data): whatever an earlier encode remembered must not survive an edit
    items = list(d.data.items())
    d3 = type(d)()
    half = len(items) // 2
    for k, v in items[half:]:
        d3[k] = v
    d3.to_cbor()
    for j, (k, v) in enumerate(items[:half]):
        how = (j + len(items)) % 3
        if how == 0:
            d3.update({k: v})
        elif how == 1:
            d3.setdefault(k, v)
        else:
            d3.data[k] = v
        d3.to_cbor()
    if items:
        k0, v0 = items[-1]
        d3.pop(k0)
        d3.to_cbor()
        d3.update({k0: v0})
    out['cbor3'] = d3.to_cbor().hex()
    # fourth history: a larger map shrinks to the content (stale entries must not reappear), then is cleared and refilled
    d4 = type(d)()
    for k, v in items:
        d4[k] = v
    extra = [(k, v) for k, v in list(d2.data.items())[:1]]
    d4.to_cbor()
    for k, v in items[:1]:
        d4.pop(k)
        d4.to_cbor()
        d4[k] = v
    if len(items) >= 2:
        k1, v1 = items[1]
        del d4[k1]
        d4.to_cbor()
        d4.setdefault(k1, v1)
    out['cbor4'] = d4.to_cbor().hex()
    # fifth history: a deep copy is edited in place, nested containers included; the ORIGINAL must still encode its own content
    d5 = deepcopy(d)

    def scribble(v):
        if isinstance(v, list):
            for x in v:
                scribble(x)
            v.append(99)
        elif isinstance(v, dict):
            for x in v.values():
                scribble(x)
            v[98] = 99
    for k, v in list(d5.data.items()):
        scribble(v)
    if items:
        d5.pop(items[0][0])
    d5.to_cbor()
    out['cbor5'] = d.to_cbor().hex()
    return out


def handler(case, payload):
    if 'dict' in case:
        return dict_case(case)
    SHARE[0] = bool(case.get('share'))
    xs, obs = [], []
    for op in case['ops']:
        k = op[0]
        if k == 'new':
            xs.append(Value(op[1], mk_ma(op[2])))
        elif k == 'alias':
            xs.append(xs[op[1]])
        elif k == 'share':
            xs.append(Value(op[2], xs[op[1]].multi_asset))
        elif k == 'add':
            xs.append(xs[op[1]] + xs[op[2]])
        elif k == 'sub':
            xs.append(xs[op[1]] - xs[op[2]])
        elif k == 'union':
            xs.append(xs[op[1]].union(xs[op[2]]))
        elif k == 'addint':
            xs.append(xs[op[1]] + op[2])
        elif k == 'iadd':
            x = xs[op[1]]
            x += xs[op[2]]
            assert x is xs[op[1]]
        elif k == 'maiadd':
            m = xs[op[1]].multi_asset
            m += xs[op[2]].multi_asset
            assert m is xs[op[1]].multi_asset
        elif k == 'setitem':
            ma = xs[op[1]].multi_asset
            p, n = pol(op[2]), AssetName(bytes.fromhex(op[3]))
            if p not in ma:
                ma[p] = Asset()
            ma[p][n] = op[4]
        elif k == 'filter':
            xs.append(Value(xs[op[1]].coin, xs[op[1]].multi_asset.filter(crit(op[2]))))
        elif k == 'normalize':
            xs[op[1]].multi_asset.normalize()
        elif k == 'eq':
            obs.append(['b', bool(xs[op[1]] == xs[op[2]])]); continue
        elif k == 'le':
            obs.append(['b', bool(xs[op[1]] <= xs[op[2]])]); continue
        elif k == 'lt':
            obs.append(['b', bool(xs[op[1]] < xs[op[2]])]); continue
        elif k == 'count':
            obs.append(['i', xs[op[1]].multi_asset.count(crit(op[2]))]); continue
        elif k == 'ge':
            obs.append(['b', bool(xs[op[1]] >= xs[op[2]])]); continue
        elif k == 'gt':
            obs.append(['b', bool(xs[op[1]] > xs[op[2]])]); continue
        elif k == 'male':
            obs.append(['b', bool(xs[op[1]].multi_asset <= xs[op[2]].multi_asset)]); continue
        elif k == 'mage':
            obs.append(['b', bool(xs[op[1]].multi_asset >= xs[op[2]].multi_asset)]); continue
        elif k in ('ale', 'age', 'aiadd'):
            ma, mb, p = xs[op[1]].multi_asset, xs[op[3]].multi_asset, pol(op[2])
            if p in ma.data and p in mb.data:
                if k == 'ale':
                    obs.append(['b', bool(ma[p] <= mb[p])]); continue
                if k == 'age':
                    obs.append(['b', bool(ma[p] >= mb[p])]); continue
                ma[p] += mb[p]
        else:
            raise ValueError(k)
        obs.append(['n'])
    snap = [[x.coin, dump_ma(x.multi_asset)] for x in xs]
    cbors = []
    for x in xs:
        try:
            cbors.append(x.to_cbor().hex())
        except Exception as e:
            cbors.append('!' + err_kind(e))
    # decode(encode(x)) for the last variable: the decode/encode step of C04 histories
    rt = None
    if xs and not cbors[-1].startswith('!'):
        try:
            y = Value.from_cbor(bytes.fromhex(cbors[-1]))
            rt = [y.coin, dump_ma(y.multi_asset)] if isinstance(y, Value) else ['!notvalue']
        except Exception as e:
            rt = ['!' + err_kind(e)]
    snap2 = [[x.coin, dump_ma(x.multi_asset)] for x in xs]
    return {'obs': obs, 'snap': snap, 'cbor': cbors, 'rt': rt, 'ser_pure': snap == snap2}


if __name__ == '__main__':
    main(handler)
