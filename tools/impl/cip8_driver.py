"""Runs the REAL pycardano.cip.cip8.sign / verify (see coq/theories/Cip8.v for the model).

case = {'op': 'sign', 'kind': 'pay'|'stake'|'xpay'|'xstake', 'sk': hex payload, 'attach': bool, 'net': 0|1, 'msg': str}
         -> {'sig': hex, 'key': hex|None}            (or {'exc': kind})
case = {'op': 'verify', 'vs': [[sig_hex, key_hex|None, attach|None], ...]}
         -> {'out': [outcome, ...]}  outcome = ['ok', verified, message_utf8_hex, header_byte, pay_hex|None, stake]
                                              | ['exc', exception class name, short text]
            stake = None | hex | [slot, tx_index, cert_index]
Exceptions raised by the code under test are results, never crashes of the driver."""
from _pre import *
from pycardano.cip import cip8
from pycardano.address import PointerAddress
from pycardano.key import PaymentSigningKey, StakeSigningKey, PaymentExtendedSigningKey, StakeExtendedSigningKey
from pycardano.network import Network

KINDS = {'pay': PaymentSigningKey, 'stake': StakeSigningKey,
         'xpay': PaymentExtendedSigningKey, 'xstake': StakeExtendedSigningKey}


def exc(e):
    return ['exc', type(e).__name__, str(e)[:80]]


def respell(h, how):
    """the same bytes in another spelling bytes.fromhex accepts: upper case, alternating case, blanks between bytes"""
    if h is None or not how:
        return h
    if how == 'upper':
        return h.upper()
    if how == 'mixed':
        return ''.join(ch.upper() if i % 3 == 0 else ch for i, ch in enumerate(h))
    if how == 'spaced':
        return ' '.join(h[i:i + 2] for i in range(0, len(h), 2))
    raise ValueError(how)


def do_sign(c):
    key = KINDS[c['kind']](bytes.fromhex(c['sk']))
    if c.get('warm'):
        # the SAME key object has signed before, for the other network and the other key-carrying mode: whatever sign()
        # remembers per key must not leak into this signature
        try:
            cip8.sign('warm-up', key, attach_cose_key=not c['attach'], network=Network(1 - c['net']))
        except Exception:
            pass
    try:
        r = cip8.sign(c['msg'], key, attach_cose_key=c['attach'], network=Network(c['net']))
    except Exception as e:
        return {'exc': type(e).__name__, 'detail': str(e)[:200]}
    if c['attach']:
        if not isinstance(r, dict):
            return {'exc': 'NotADict', 'detail': repr(r)[:200]}
        return {'sig': r.get('signature'), 'key': r.get('key')}
    if not isinstance(r, str):
        return {'exc': 'NotAStr', 'detail': repr(r)[:200]}
    return {'sig': r, 'key': None}


def do_verify_one(sig, key, attach, spell=None):
    sig, key = respell(sig, spell), respell(key, spell)
    sm = sig if key is None else {'signature': sig, 'key': key}
    before = dict(sm) if isinstance(sm, dict) else sm
    try:
        # the SAME object is verified twice (a stored wallet response checked again): the second verdict is reported
        try:
            cip8.verify(sm) if attach is None else cip8.verify(sm, attach_cose_key=attach)
        except BaseException:
            pass
        if sm != before:
            return ['exc', 'CallerObjectModified', 'verify() changed the message object it was given']
        r = cip8.verify(sm) if attach is None else cip8.verify(sm, attach_cose_key=attach)
    except BaseException as e:                       # AssertionError, nacl/cryptography errors, ...
        if isinstance(e, (KeyboardInterrupt, SystemExit)):
            raise
        return exc(e)
    a = r['signing_address']
    pay = a.payment_part
    stk = a.staking_part
    if isinstance(stk, PointerAddress):
        stk_j = [stk.slot, stk.tx_index, stk.cert_index]
    else:
        stk_j = None if stk is None else bytes(stk).hex()
    v = r['verified']
    return ['ok', bool(v) if isinstance(v, (bool, int)) else repr(v), r['message'].encode('utf-8').hex(),
            a.header_byte.hex(), None if pay is None else bytes(pay).hex(), stk_j]


def handler(case, payload):
    if case['op'] == 'sign':
        return do_sign(case)
    if case['op'] == 'verify':
        return {'out': [do_verify_one(*v) for v in case['vs']]}
    raise ValueError(case['op'])


if __name__ == '__main__':
    main(handler)
