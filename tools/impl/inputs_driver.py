"""C09 driver: replays a history of input registrations and build() calls on the real
pycardano.TransactionBuilder with a fake ChainContext, wrapping the selector objects from outside to
record what every selector call received and returned.

case = {utxos: [[txid_hex, index, payload_id], ...]          model table (distinct triples)
        payloads: [[addr_idx, coin, ma], ...]                payload id -> output contents
        inst: [[utxo_idx, form], ...]                        Python objects; form 0 legacy, 1 post_alonzo=True,
                                                             2 decoded with UTxO.from_cbor from the map form
        ctx: [[addr_idx, [inst_idx, ...]], ...]              what context.utxos(address) returns
        selectors: None (builder default) | [{k: ri|rb|lf|all|fail|crash, stream: [...], lim: int|None}, ...]
        stream: [...]                                        outcomes of the built-in random source (rb / default)
        items: [[ctxset, addr_idx, [inst..]]  (from now on context.utxos(address) returns this NEW list)
                | [psin, inst]  (add_script_input of a UTxO at the Plutus script address with script, datum, redeemer + units)
                | [in, inst] | [sin, inst] | [pot, inst] | [exc, inst] | [setexc, [inst..]] | [addr, addr_idx, as_str]
                | [out, addr_idx, coin, ma] | [build, {change: addr_idx|None, merge: bool}]]}
result = {builds: [{exp, pot, exc, addrs, nsel, calls: [[pool, [ok, [..]] | [fail, kind] | [crash, kind]]],
                    out: [ok, after, [[txid_hex, index], ...]] | [err, code, kind, after], snap: bool, snap_diff}],
          eqhash_ok: bool}      UTxOs are reported as indices into `utxos` (object identity -> instance -> utxo)
"""
from _pre import *
import hashlib
import builtins
from fractions import Fraction
import pycardano.coinselection as CS
from pycardano import (Address, Asset, AssetName, ExecutionUnits, MultiAsset, PlutusV2Script, Redeemer, ScriptHash,
                       ScriptPubkey, TransactionBuilder, TransactionInput, TransactionOutput, UTxO, Value,
                       VerificationKeyHash, datum_hash, plutus_script_hash)
from pycardano.backend.base import ChainContext, ProtocolParameters
from pycardano.coinselection import LargestFirstSelector, RandomImproveMultiAsset, UTxOSelector
from pycardano.exception import UTxOSelectionException
from pycardano.network import Network

KEYHASHES = [VerificationKeyHash(bytes([k]) * 28) for k in (0x11, 0x22, 0x33, 0x44)]
NATIVE = ScriptPubkey(KEYHASHES[0])
PLUTUS = PlutusV2Script(bytes.fromhex('4e4d01000033222220051200120011'))
PLUTUS_DATUM = 42
ADDRS = [Address(KEYHASHES[0], network=Network.TESTNET),
         Address(KEYHASHES[1], network=Network.TESTNET),
         Address(KEYHASHES[2], KEYHASHES[3], network=Network.TESTNET),
         Address(KEYHASHES[3], network=Network.TESTNET),
         Address(NATIVE.hash(), network=Network.TESTNET),          # index 4: native-script address
         Address(plutus_script_hash(PLUTUS), network=Network.TESTNET)]   # index 5: Plutus V2 script address
SCRIPT_ADDR = 4
PLUTUS_ADDR = 5


class SelectorCrash(Exception):
    """what the 'crash' selector raises: not a UTxOSelectionException"""


class StreamOut(Exception):
    """the finite stream for the built-in random source ran out (harness artefact)"""


class FakeRandom:
    def __init__(self, stream):
        self.it = iter(stream)

    def randint(self, a, b):
        r = next(self.it, None)
        if r is None:
            raise StreamOut()
        return a + r % (b - a + 1)


class Ctx(ChainContext):
    def __init__(self, lists):
        self.lists = lists            # str(address) -> list object (returned as is, so a mutation would show)
        self._pp = ProtocolParameters(
            min_fee_constant=155381, min_fee_coefficient=44, max_block_size=73728, max_tx_size=16384,
            max_block_header_size=1100, key_deposit=2000000, pool_deposit=500000000, pool_influence=Fraction(3, 10),
            treasury_expansion=Fraction(1, 5), monetary_expansion=Fraction(3, 1000), decentralization_param=Fraction(0),
            extra_entropy="", protocol_major_version=8, protocol_minor_version=0, min_utxo=1000000,
            min_pool_cost=340000000, price_mem=Fraction(577, 10000), price_step=Fraction(721, 10000000),
            max_tx_ex_mem=10000000, max_tx_ex_steps=10000000000, max_block_ex_mem=50000000,
            max_block_ex_steps=40000000000, max_val_size=5000, collateral_percent=150, max_collateral_inputs=3,
            coins_per_utxo_word=34482, coins_per_utxo_byte=4310, cost_models={},
            min_fee_reference_scripts={"base": 44, "range": 25600, "multiplier": 1.2},
            maximum_reference_scripts_size={"bytes": 200000})

    @property
    def protocol_param(self):
        return self._pp

    @property
    def genesis_param(self):
        raise NotImplementedError()

    @property
    def network(self):
        return Network.TESTNET

    @property
    def epoch(self):
        return 300

    @property
    def last_block_slot(self):
        return 2000

    def utxos(self, address):
        return self.lists.get(str(address), [])


def mk_ma(lit):
    ma = MultiAsset()
    for p, names in lit:
        a = Asset()
        for n, q in names:
            a[AssetName(bytes.fromhex(n))] = q
        ma[pol(p)] = a
    return ma


def dump_ma(ma):
    return [[p.payload.hex(), [[n.payload.hex(), q] for n, q in a.data.items()]] for p, a in ma.data.items()]


def mk_utxo(tab, payloads, form):
    txid, ix, pl = tab
    a, coin, ma = payloads[pl]
    u = UTxO(TransactionInput.from_primitive([bytes.fromhex(txid), ix]),
             TransactionOutput(ADDRS[a], Value(coin, mk_ma(ma)), post_alonzo=(form != 0),
                               datum_hash=datum_hash(PLUTUS_DATUM) if a == PLUTUS_ADDR else None))
    if form == 2:
        u = UTxO.from_cbor(u.to_cbor())
    return u


def snap_obj(u):
    o = u.output
    amt = o.amount
    return (u.to_cbor().hex(), u.input.transaction_id.payload.hex(), u.input.index, bytes(o.address).hex(),
            amt.coin, json.dumps(dump_ma(amt.multi_asset)), repr(o.datum_hash), repr(o.datum), repr(o.script),
            o.post_alonzo, id(u.input), id(o), id(amt), id(amt.multi_asset))


class Rec(UTxOSelector):
    """records what the wrapped selector received and returned; optionally fixes max_input_count"""

    def __init__(self, inner, lim, log, ident):
        self.inner, self.lim, self.log, self.ident = inner, lim, log, ident

    def select(self, utxos, outputs, context, max_input_count=None, include_max_fee=True, respect_min_utxo=True):
        entry = [[self.ident(u) for u in utxos], None]
        self.log.append(entry)
        given = list(utxos)
        try:
            sel, chg = self.inner.select(utxos, outputs, context,
                                         self.lim if self.lim is not None else max_input_count,
                                         include_max_fee, respect_min_utxo)
        except UTxOSelectionException as e:
            entry[1] = ['fail', err_kind(e)]
            raise
        except Exception as e:
            entry[1] = ['crash', type(e).__name__]
            raise
        entry[1] = ['ok', [self.ident(u) for u in sel]]
        if len(given) != len(utxos) or any(a is not b for a, b in zip(given, utxos)):
            entry[1] = ['crash', 'pool-list-modified']          # reported, never expected
        return sel, chg


class TakeAll(UTxOSelector):
    def select(self, utxos, outputs, context, max_input_count=None, include_max_fee=True, respect_min_utxo=True):
        return list(utxos), Value()


class AlwaysFail(UTxOSelector):
    def select(self, utxos, outputs, context, max_input_count=None, include_max_fee=True, respect_min_utxo=True):
        raise UTxOSelectionException("user-defined selector gives up")


class Crash(UTxOSelector):
    def select(self, utxos, outputs, context, max_input_count=None, include_max_fee=True, respect_min_utxo=True):
        raise SelectorCrash("boom")


def mk_selector(s):
    k = s['k']
    if k == 'ri':
        return RandomImproveMultiAsset(random_generator=iter(s.get('stream') or [0]))
    if k == 'rb':
        return RandomImproveMultiAsset()
    if k == 'lf':
        return LargestFirstSelector()
    if k == 'all':
        return TakeAll()
    if k == 'fail':
        return AlwaysFail()
    if k == 'crash':
        return Crash()
    raise ValueError(k)


def handler(case, payload):
    tab, payloads = case['utxos'], case['payloads']
    objs = [mk_utxo(tab[ui], payloads, form) for ui, form in case['inst']]
    inst_ui = [ui for ui, _ in case['inst']]
    by_id = {id(o): inst_ui[k] for k, o in enumerate(objs)}
    unknown = [0]

    def ident(o):
        if id(o) in by_id:
            return by_id[id(o)]
        unknown[0] += 1
        return 4000 + unknown[0]

    # == / hash of the generated objects mean what the model says (payload id <-> output up to ==)
    eqhash_ok = True
    for i in range(len(objs)):
        for j in range(i, len(objs)):
            same = tab[inst_ui[i]] == tab[inst_ui[j]]
            if (objs[i] == objs[j]) != same or (same and builtins.hash(objs[i]) != builtins.hash(objs[j])):
                eqhash_ok = False
    lists = {}
    for a, members in case['ctx']:
        lists[str(ADDRS[a])] = [objs[k] for k in members]
    ctx = Ctx(lists)
    addr_id = {str(a): k for k, a in enumerate(ADDRS)}

    log = []
    if case.get('selectors') is None:
        b = TransactionBuilder(ctx)
        b.utxo_selectors = [Rec(s, None, log, ident) for s in b.utxo_selectors]
    else:
        b = TransactionBuilder(ctx, utxo_selectors=[Rec(mk_selector(s), s.get('lim'), log, ident)
                                                    for s in case['selectors']])
    caller_lists = []                 # list objects handed to the builder by the caller (excluded_inputs = l)
    builds = []
    saved_random = CS.random
    CS.random = FakeRandom(case.get('stream') or [])
    try:
        for it in case['items']:
            k = it[0]
            if k == 'in':
                b.add_input(objs[it[1]])
            elif k == 'sin':
                b.add_script_input(objs[it[1]], script=NATIVE)
            elif k == 'psin':
                b.add_script_input(objs[it[1]], script=PLUTUS, datum=PLUTUS_DATUM,
                                   redeemer=Redeemer(7, ExecutionUnits(1000000, 300000000)))
            elif k == 'ctxset':
                lists[str(ADDRS[it[1]])] = [objs[x] for x in it[2]]
            elif k == 'pot':
                b.potential_inputs.append(objs[it[1]])
            elif k == 'exc':
                b.excluded_inputs.append(objs[it[1]])
            elif k == 'setexc':
                l = [objs[x] for x in it[1]]
                caller_lists.append(l)
                b.excluded_inputs = l
            elif k == 'addr':
                b.add_input_address(str(ADDRS[it[1]]) if it[2] else ADDRS[it[1]])
            elif k == 'out':
                b.add_output(TransactionOutput(ADDRS[it[1]], Value(it[2], mk_ma(it[3]))))
            elif k == 'build':
                def snapshot():
                    return ([snap_obj(o) for o in objs],
                            [id(x) for x in b.potential_inputs], [id(x) for x in b.excluded_inputs],
                            [[id(x) for x in l] for l in caller_lists],
                            {a: [id(x) for x in l] for a, l in lists.items()},
                            id(b.potential_inputs), id(b.excluded_inputs))
                rec = {'exp': [ident(o) for o in b.inputs], 'pot': [ident(o) for o in b.potential_inputs],
                       'exc': [ident(o) for o in b.excluded_inputs],
                       'addrs': [addr_id.get(str(a), 99) for a in b.input_addresses],
                       'nsel': len(b.utxo_selectors)}
                before = snapshot()
                n0 = len(log)
                opt = it[1]
                try:
                    body = b.build(change_address=None if opt.get('change') is None else ADDRS[opt['change']],
                                   merge_change=bool(opt.get('merge')))
                    out = ['ok', [ident(o) for o in b.inputs],
                           [[i.transaction_id.payload.hex(), i.index] for i in body.inputs]]
                    # the serialized body carries the same list
                    from pycardano import TransactionBody
                    rt = TransactionBody.from_cbor(body.to_cbor())
                    if [[i.transaction_id.payload.hex(), i.index] for i in rt.inputs] != out[2]:
                        out[2] = out[2] + [['ff' * 32, 999999]]          # makes the comparison fail visibly
                except Exception as e:
                    kind = err_kind(e)
                    calls = log[n0:]
                    if calls and calls[-1][1] and calls[-1][1][0] == 'crash':
                        code = 2
                    elif type(e).__name__ == 'TransactionBuilderException':
                        code = 0
                    elif type(e).__name__ == 'UTxOSelectionException':
                        code = 1
                    else:
                        code = 3
                    out = ['err', code, kind, [ident(o) for o in b.inputs]]
                after = snapshot()
                rec['calls'] = [[c[0], c[1] or ['crash', 'no-result']] for c in log[n0:]]
                rec['out'] = out
                rec['snap'] = before == after
                if not rec['snap']:
                    rec['snap_diff'] = [k for k in range(len(before)) if before[k] != after[k]]
                builds.append(rec)
            else:
                raise ValueError(k)
    finally:
        CS.random = saved_random
    # the key OrderedSet files a reference under (str(item)), per row of the table; 64 bits of its digest
    def okey(inp):
        return int.from_bytes(hashlib.sha256(str(inp).encode()).digest()[:8], 'big')
    keys = [okey(TransactionInput.from_primitive([bytes.fromhex(t), i])) for t, i, _ in tab]
    keys_inst_ok = all(okey(o.input) == keys[inst_ui[k]] for k, o in enumerate(objs))
    return {'builds': builds, 'eqhash_ok': eqhash_ok, 'keys': keys, 'keys_inst_ok': keys_inst_ok}


if __name__ == '__main__':
    main(handler)
