"""Runs C16 cases on the REAL pycardano.crypto.bip32.HDWallet and pycardano.key.ExtendedSigningKey.

case = {'origin': {'kind': 'entropy'|'mnemonic'|'raw', ...}, 'ops': [['derive', index, private, hardened] |
        ['path', string, private]], 'msg': hex}
result = {'recs': [[code, [hex fields]], ...], 'nacl_ok': bool, ...}: one record for the root wallet, one per
operation until the first exception, then three records for the LAST wallet reached: ExtendedSigningKey
.from_hdwallet payload, its signature of msg, its verification key (extended, non-extended).
code 0 = returned; otherwise the kind of exception (see CODE).  Only the `mnemonic` package is used besides
pycardano (entropy -> words; word-list decoding inside from_mnemonic is an oracle of the check)."""
from _pre import *
from mnemonic import Mnemonic
from nacl import bindings
import nacl.exceptions
from pycardano.crypto.bip32 import HDWallet, BIP32ED25519PublicKey
from pycardano.exception import InvalidKeyTypeException
from pycardano.key import PaymentExtendedSigningKey, ExtendedSigningKey


def code(e):
    if isinstance(e, InvalidKeyTypeException):
        return 7
    if isinstance(e, AssertionError):
        return 2
    if isinstance(e, OverflowError):
        return 3
    if isinstance(e, RuntimeError):
        return 4
    if isinstance(e, TypeError):
        return 5
    if isinstance(e, IndexError):
        return 6
    if isinstance(e, ValueError):
        return 1
    return 50


def snap(w):
    xp = w.xprivate_key
    return [w.root_xprivate_key.hex(), w.root_public_key.hex(), w.root_chain_code.hex(),
            '00' if xp is None else '01', '' if xp is None else bytes(xp).hex(),
            bytes(w.public_key).hex(), bytes(w.chain_code).hex(), w._path.encode('ascii').hex()]


def handler(case, payload):
    o = case['origin']
    out = {'recs': [], 'nacl_ok': False, 'errs': []}
    recs = out['recs']
    try:
        if o['kind'] == 'entropy':
            w = HDWallet.from_entropy(o['entropy'], o['passphrase'])
        elif o['kind'] == 'mnemonic':
            words = Mnemonic(o.get('lang', 'english')).to_mnemonic(bytes.fromhex(o['entropy']))
            out['words'] = words
            out['is_mnemonic'] = HDWallet.is_mnemonic(words)
            w = HDWallet.from_mnemonic(words, o['passphrase'])
            out['entropy_seen'] = w._entropy
        else:
            b = lambda k: bytes.fromhex(o[k])
            w = HDWallet(root_xprivate_key=b('root_xprv'), root_public_key=b('root_pub'), root_chain_code=b('root_cc'),
                         xprivate_key=None if o['xprv'] is None else b('xprv'), public_key=b('pub'),
                         chain_code=b('cc'), path='m')
    except Exception as e:
        recs.append([code(e), []])
        out['errs'].append(f'{type(e).__name__}: {e}'[:120])
        return out
    recs.append([0, snap(w)])
    for op in case['ops']:
        if case.get('siblings'):
            # OTHER children are derived from the same node object first (a public soft child, a private child, a path
            # below it) and thrown away: deriving must not change the node it starts from
            for args in ((3, False, False), (1, True, False), (2, True, True)):
                try:
                    w.derive(args[0], private=args[1], hardened=args[2])
                except Exception:
                    pass
            try:
                w.derive_from_path('m/0/1', private=False)
            except Exception:
                pass
        try:
            if op[0] == 'derive':
                # the same call in its three spellings: keywords, the documented positional order (index, private, hardened),
                # and defaults left out where the argument equals the documented default (private=True, hardened=False)
                sp = (op[1] + len(case['ops'])) % 3
                if sp == 0:
                    w2 = w.derive(op[1], private=op[2], hardened=op[3])
                elif sp == 1:
                    w2 = w.derive(op[1], op[2], op[3])
                elif op[2] is True and op[3] is False:
                    w2 = w.derive(op[1])
                elif op[3] is False:
                    w2 = w.derive(op[1], op[2])
                else:
                    w2 = w.derive(op[1], op[2], hardened=op[3])
            else:
                w2 = w.derive_from_path(op[1], private=op[2])
        except Exception as e:
            recs.append([code(e), []])
            out['errs'].append(f'{type(e).__name__}: {e}'[:120])
            break
        w = w2
        recs.append([0, snap(w)])
    msg = bytes.fromhex(case['msg'])
    try:
        esk = PaymentExtendedSigningKey.from_hdwallet(w)
        recs.append([0, [esk.payload.hex()]])
    except Exception as e:
        recs += [[code(e), []], [99, []], [99, []]]
        return out
    try:
        sig = esk.sign(msg)
        recs.append([0, [sig.hex()]])
    except Exception as e:
        sig = None
        recs.append([code(e), []])
    vk = esk.to_verification_key()
    vk32 = vk.to_non_extended()
    recs.append([0, [vk.payload.hex(), vk32.payload.hex()]])
    if sig is not None:
        try:
            out['nacl_ok'] = bindings.crypto_sign_open(sig + msg, vk32.payload) == msg
            BIP32ED25519PublicKey(vk32.payload, vk.payload[32:]).verify(sig, msg)
        except Exception as e:
            out['nacl_ok'] = False
            out['errs'].append(f'verify: {type(e).__name__}')
    return out


if __name__ == '__main__':
    main(handler)
