"""T1 — schema translator. Run under /venv/bin/python with PYTHONPATH=<repo>.
Imports pycardano FROM THE WORKING TREE, walks every CBORSerializable subclass of the ledger modules and
prints a JSON description (class kind, ordered fields with resolved type annotations, metadata keys,
codes, size limits, KEY/VALUE types, overridden codec methods with a normalised-AST digest).
Fail-closed: an unknown structural construct raises."""
import ast, dataclasses, enum, hashlib, inspect, json, os, sys, textwrap, typing
from fractions import Fraction

if os.environ.get('VERIF_CBOR_BACKEND', 'py') == 'py':
    sys.modules['_cbor2'] = None
import pycardano  # noqa
from pycardano.serialization import (ArrayCBORSerializable, CBORSerializable, CodedSerializable, DictCBORSerializable,
                                     MapCBORSerializable, OrderedSet, NonEmptyOrderedSet, IndefiniteList, ByteString, RawCBOR)
from pycardano.hash import ConstrainedBytes
from pycardano.key import Key
import pycardano.transaction, pycardano.certificate, pycardano.governance, pycardano.witness, pycardano.metadata
import pycardano.nativescript, pycardano.pool_params, pycardano.plutus, pycardano.key, pycardano.hash, pycardano.address
import pycardano.network

MODS = [pycardano.transaction, pycardano.certificate, pycardano.governance, pycardano.witness, pycardano.metadata,
        pycardano.nativescript, pycardano.pool_params, pycardano.plutus, pycardano.key, pycardano.hash,
        pycardano.address, pycardano.network]
CODEC_METHODS = ('to_primitive', 'to_shallow_primitive', 'from_primitive', '__post_init__', 'validate', '__eq__')


class Norm(ast.NodeTransformer):
    """normalise: drop docstrings and annotations so that comments/doc edits do not change the digest"""
    def visit_FunctionDef(self, node):
        self.generic_visit(node)
        if node.body and isinstance(node.body[0], ast.Expr) and isinstance(getattr(node.body[0], 'value', None), ast.Constant) \
                and isinstance(node.body[0].value.value, str):
            node.body = node.body[1:] or [ast.Pass()]
        node.returns = None
        for a in node.args.args + node.args.kwonlyargs:
            a.annotation = None
        return node

    def visit_AnnAssign(self, node):
        self.generic_visit(node)
        if node.value is None:
            return None
        return ast.Assign(targets=[node.target], value=node.value, lineno=0)


def digest(fn):
    try:
        src = textwrap.dedent(inspect.getsource(fn))
    except (OSError, TypeError):
        return 'nosource'
    tree = Norm().visit(ast.parse(src))
    return hashlib.sha256(ast.dump(tree, include_attributes=False).encode()).hexdigest()[:12]


def ty(t):
    if t is typing.Any:
        return ['any']
    if t is int:
        return ['int']
    if t is bytes:
        return ['bytes']
    if t is str:
        return ['str']
    if t is bool:
        return ['bool']
    if t is type(None):
        return ['none']
    if t is Fraction:
        return ['frac']
    if t is dict or t is typing.Dict:
        return ['unknown', 'bare dict']
    if t is list or t is typing.List:
        return ['unknown', 'bare list']
    origin = typing.get_origin(t)
    args = typing.get_args(t)
    if origin is typing.Union:
        return ['union', [ty(a) for a in args]]
    if origin is list:
        return ['list', ty(args[0])] if len(args) == 1 else ['unknown', repr(t)]
    if origin is dict:
        return ['dict', ty(args[0]), ty(args[1])] if len(args) == 2 else ['unknown', repr(t)]
    if origin is tuple:
        if args and args[-1] is not Ellipsis:
            return ['tuple', [ty(a) for a in args]]
        return ['unknown', 'tuple']
    if origin is typing.ClassVar:
        return ['classvar']
    if origin is NonEmptyOrderedSet:
        return ['set', True, ty(args[0])]
    if origin is OrderedSet:
        return ['set', False, ty(args[0])]
    if inspect.isclass(t):
        if t is IndefiniteList:
            return ['indef']
        if t is ByteString:
            return ['bytestring']
        if t is RawCBOR:
            return ['rawcbor']
        if issubclass(t, CBORSerializable):
            return ['cls', t.__name__]
        if issubclass(t, enum.Enum):
            return ['enum', t.__name__]
        if issubclass(t, bytes):
            return ['pybytes', t.__name__]
        if t.__module__.startswith('cbor2'):
            return ['cbortag']
    raise ValueError(f'T1: unsupported annotation {t!r}')


def self_assignments(fn):
    """{attr: [constants or 'expr']} for every `self.attr = ...` in the function (used for init=False fields
    that __post_init__ / __init__ recomputes: the encode-side tables treat them as computed, not constant)"""
    try:
        src = textwrap.dedent(inspect.getsource(fn))
    except (OSError, TypeError):
        return {}
    out = {}
    for node in ast.walk(ast.parse(src)):
        if isinstance(node, ast.Assign):
            for t in node.targets:
                if isinstance(t, ast.Attribute) and isinstance(t.value, ast.Name) and t.value.id == 'self':
                    v = node.value
                    if isinstance(v, ast.Constant) and (v.value is None or isinstance(v.value, int)):
                        out.setdefault(t.attr, []).append(v.value)
                    else:
                        out.setdefault(t.attr, []).append('expr')
    return out


def class_kind(c):
    own = [m for m in CODEC_METHODS if m in vars(c)]
    if issubclass(c, ConstrainedBytes):
        return 'cbytes'
    if issubclass(c, Key):
        return 'key'
    if issubclass(c, enum.Enum):
        return 'cborenum'
    if issubclass(c, CodedSerializable):
        return 'coded'
    if issubclass(c, ArrayCBORSerializable):
        return 'array'
    if issubclass(c, MapCBORSerializable):
        return 'map'
    if issubclass(c, DictCBORSerializable):
        return 'dict'
    return 'other'


def describe(c):
    d = {'name': c.__name__, 'module': c.__module__.split('.')[-1], 'kind': class_kind(c)}
    # codec methods defined by the class itself or inherited from a non-framework base
    custom = {}
    for m in CODEC_METHODS:
        for base in c.__mro__:
            if base in (CBORSerializable, ArrayCBORSerializable, MapCBORSerializable, DictCBORSerializable,
                        CodedSerializable, ConstrainedBytes, Key, object, enum.Enum, list, OrderedSet, NonEmptyOrderedSet):
                break
            if m in vars(base):
                f = vars(base)[m]
                f = getattr(f, '__func__', f)
                f = getattr(f, '__wrapped__', f)
                if m == '__eq__' and dataclasses.is_dataclass(base) and 'dataclass' in repr(getattr(f, '__qualname__', '')) or \
                        (m == '__eq__' and getattr(f, '__qualname__', '').startswith('__create_fn__')):
                    break       # dataclass-generated __eq__
                custom[m] = digest(f)
                break
    d['custom'] = custom
    assigns = {}
    for m in ('__post_init__', '__init__'):
        for base in c.__mro__:
            if base in (CBORSerializable, ArrayCBORSerializable, MapCBORSerializable, DictCBORSerializable,
                        CodedSerializable, ConstrainedBytes, Key, object, enum.Enum, list, OrderedSet, NonEmptyOrderedSet):
                break
            if m in vars(base) and not (m == '__init__' and dataclasses.is_dataclass(base)
                                        and getattr(vars(base)[m], '__qualname__', '').startswith('__create_fn__')):
                for k, v in self_assignments(vars(base)[m]).items():
                    assigns.setdefault(k, []).extend(v)
                break
    d['self_assign'] = assigns
    if dataclasses.is_dataclass(c):
        hints = typing.get_type_hints(c)
        fs = []
        for f in dataclasses.fields(c):
            md = dict(f.metadata)
            unknown = set(md) - {'key', 'optional', 'object_hook'}
            if unknown:
                raise ValueError(f'T1: unknown field metadata {unknown} in {c.__name__}.{f.name}')
            if f.default is not dataclasses.MISSING:
                dflt = f.default
                if isinstance(dflt, enum.Enum):
                    dflt = ['enum', dflt.value]
                elif dflt is None or isinstance(dflt, (int, bool)):
                    dflt = ['const', dflt]
                else:
                    raise ValueError(f'T1: default {dflt!r} of {c.__name__}.{f.name}')
            elif f.default_factory is not dataclasses.MISSING:
                dflt = ['factory', getattr(f.default_factory, '__name__', 'fn')]
            else:
                dflt = ['required']
            key = md.get('key', None)
            if key is not None and not isinstance(key, (int, str)):
                raise ValueError(f'T1: key {key!r}')
            eq_cmp = f.compare
            fs.append({'name': f.name, 'ty': ty(hints[f.name]), 'init': f.init, 'optional': bool(md.get('optional')),
                       'key': key, 'hook': 'object_hook' in md, 'default': dflt, 'compare': eq_cmp})
        d['fields'] = fs
    if d['kind'] == 'cbytes':
        d['min'], d['max'] = c.MIN_SIZE, c.MAX_SIZE
    if d['kind'] == 'key':
        d['key_type'], d['key_desc'] = getattr(c, 'KEY_TYPE', ''), getattr(c, 'DESCRIPTION', '')
    if d['kind'] == 'cborenum':
        d['values'] = {m.name: m.value for m in c}
    if d['kind'] == 'dict':
        def kv(t):
            if t is typing.Any:
                return ['any']
            if inspect.isclass(t) and t in (int, bytes, str, dict):
                return {int: ['int'], bytes: ['bytes'], str: ['str'], dict: ['unknown', 'bare dict']}[t]
            if inspect.isclass(t) and issubclass(t, CBORSerializable):
                return ['cls', t.__name__]
            if getattr(t, '__origin__', None) is type:     # the default Type[Any]
                return ['any']
            raise ValueError(f'T1: KEY/VALUE type {t!r} of {c.__name__}')
        d['key_ty'], d['val_ty'] = kv(c.KEY_TYPE), kv(c.VALUE_TYPE)
    if hasattr(c, 'TAG') and isinstance(getattr(c, 'TAG'), int):
        d['tag'] = c.TAG
    for attr in ('_CODE', '_TYPE'):
        v = vars(c).get(attr, None)
        if isinstance(v, int):
            d[attr] = v
    return d


def main():
    classes = {}
    for m in MODS:
        for n, c in vars(m).items():
            if inspect.isclass(c) and issubclass(c, CBORSerializable) and c.__module__ == m.__name__:
                classes[n] = describe(c)
    enums = {}
    for m in MODS:
        for n, c in vars(m).items():
            if inspect.isclass(c) and issubclass(c, enum.Enum) and not issubclass(c, CBORSerializable) and c.__module__ == m.__name__:
                enums[n] = {mm.name: mm.value for mm in c}
    # framework functions whose behaviour the generic interpreter models by hand: fingerprints
    from pycardano import serialization as S
    framework = {
        'default_encoder': digest(S.default_encoder),
        '_restore_typed_primitive': digest(S._restore_typed_primitive),
        '_restore_dataclass_field': digest(S._restore_dataclass_field),
        'CBORSerializable.to_primitive': digest(S.CBORSerializable.to_primitive),
        'CBORSerializable.validate': digest(S.CBORSerializable.validate),
        'CBORSerializable.from_cbor': digest(S.CBORSerializable.from_cbor.__func__),
        'Array.to_shallow_primitive': digest(S.ArrayCBORSerializable.to_shallow_primitive),
        'Array.from_primitive': digest(S.ArrayCBORSerializable.from_primitive.__func__.__wrapped__),
        'Map.to_shallow_primitive': digest(S.MapCBORSerializable.to_shallow_primitive),
        'Map.from_primitive': digest(S.MapCBORSerializable.from_primitive.__func__.__wrapped__),
        'Dict.to_shallow_primitive': digest(S.DictCBORSerializable.to_shallow_primitive),
        'Dict.from_primitive': digest(S.DictCBORSerializable.from_primitive.__func__.__wrapped__),
        'Coded.from_primitive': digest(S.CodedSerializable.from_primitive.__func__.__wrapped__),
        'OrderedSet.to_shallow_primitive': digest(S.OrderedSet.to_shallow_primitive),
        'OrderedSet.from_primitive': digest(S.OrderedSet.from_primitive.__func__),
        'OrderedSet.append': digest(S.OrderedSet.append),
        'NonEmptyOrderedSet.from_primitive': digest(S.NonEmptyOrderedSet.from_primitive.__func__),
        'limit_primitive_type': digest(S.limit_primitive_type),
        'decode_array': digest(S.decode_array),
        'ConstrainedBytes.from_primitive': digest(ConstrainedBytes.from_primitive.__func__.__wrapped__),
        'ConstrainedBytes.__init__': digest(ConstrainedBytes.__init__),
    }
    unions = {}
    from pycardano import certificate, governance
    unions['Certificate'] = [a.__name__ for a in typing.get_args(certificate.Certificate)]
    if hasattr(governance, 'GovAction'):
        unions['GovAction'] = [a.__name__ for a in typing.get_args(governance.GovAction)]
    print(json.dumps({'classes': classes, 'enums': enums, 'framework': framework, 'unions': unions}, indent=1, sort_keys=True))


if __name__ == '__main__':
    main()
