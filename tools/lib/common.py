"""Shared machinery of the /verif checks: paths, Coq build/run, Coq literal printing,
implementation-driver invocation, evidence and verdict handling."""
import fcntl, hashlib, json, os, re, subprocess, sys, time

VERIF = os.path.dirname(os.path.dirname(os.path.dirname(os.path.abspath(__file__))))
REPO = os.environ.get('VERIF_REPO', '/repo')
COQ = os.path.join(VERIF, 'coq')
WORK = os.path.join(VERIF, 'work')
IMPL_PY = '/venv/bin/python'
NPROC = 16
QFLAGS = ['-Q', os.path.join(COQ, 'theories'), 'PyC',
          '-Q', os.path.join(COQ, 'gen'), 'PyCGen',
          '-Q', os.path.join(COQ, 'props'), 'PyCProps']

FORBIDDEN = re.compile(r'\b(Admitted|admit|Axiom|Axioms|Parameter|Parameters|Conjecture|Conjectures|'
                       r'Admit Obligations|bypass_check)\b|Unset Guard|Unset Positivity|Unset Universe Checking|'
                       r'type-in-type|impredicative-set|native_compute')


def sh(cmd, timeout=None, cwd=None, env=None, input=None):
    t0 = time.time()
    try:
        r = subprocess.run(cmd, cwd=cwd, env=env, input=input, capture_output=True, text=True, timeout=timeout)
        return r.returncode, r.stdout, r.stderr, time.time() - t0
    except subprocess.TimeoutExpired as e:
        return 124, (e.stdout or b'').decode() if isinstance(e.stdout, bytes) else (e.stdout or ''), 'TIMEOUT', time.time() - t0


# ---------------------------------------------------------------- Coq build
def _strip_comments(text):
    out, depth, i = [], 0, 0
    while i < len(text):
        if text.startswith('(*', i):
            depth += 1; i += 2
        elif text.startswith('*)', i) and depth:
            depth -= 1; i += 2
        else:
            if not depth:
                out.append(text[i])
            i += 1
    return ''.join(out)


def guard_grep():
    """No Admitted/admit/Axiom/Parameter/... anywhere in the development (comments ignored)."""
    bad = []
    for sub in ('theories', 'props', 'gen'):
        d = os.path.join(COQ, sub)
        if not os.path.isdir(d):
            continue
        for fn in sorted(os.listdir(d)):
            if fn.endswith('.v'):
                txt = _strip_comments(open(os.path.join(d, fn)).read())
                for m in FORBIDDEN.finditer(txt):
                    bad.append(f'{sub}/{fn}: {m.group(0)}')
    pj = os.path.join(COQ, '_CoqProject')
    if os.path.exists(pj) and re.search(r'type-in-type|impredicative-set', open(pj).read()):
        bad.append('_CoqProject: forbidden flag')
    return bad


def _write_if_changed(path, text):
    if os.path.exists(path) and open(path).read() == text:
        return False
    os.makedirs(os.path.dirname(path), exist_ok=True)
    with open(path, 'w') as f:
        f.write(text)
    return True


def write_gen(name, text):
    """Write a regenerated Coq file (coq/gen/<name>.v) only when its content changed."""
    return _write_if_changed(os.path.join(COQ, 'gen', name + '.v'), text)


class BuildLock:
    def __enter__(self):
        os.makedirs(COQ, exist_ok=True)
        self.f = open(os.path.join(COQ, '.build.lock'), 'w')
        fcntl.flock(self.f, fcntl.LOCK_EX)
        return self

    def __exit__(self, *a):
        fcntl.flock(self.f, fcntl.LOCK_UN)
        self.f.close()


def coq_project():
    files = []
    for sub in ('theories', 'gen', 'props'):
        d = os.path.join(COQ, sub)
        os.makedirs(d, exist_ok=True)
        files += [f'{sub}/{fn}' for fn in sorted(os.listdir(d)) if fn.endswith('.v')]
    text = '-Q theories PyC\n-Q gen PyCGen\n-Q props PyCProps\n' + '\n'.join(files) + '\n'
    changed = _write_if_changed(os.path.join(COQ, '_CoqProject'), text)
    if changed or not os.path.exists(os.path.join(COQ, 'Makefile')):
        rc, out, err, _ = sh(['coq_makefile', '-f', '_CoqProject', '-o', 'Makefile'], cwd=COQ, timeout=120)
        if rc:
            raise RuntimeError('coq_makefile failed: ' + err)


def coq_make(targets, timeout=1500):
    """Full .vo build of the given targets (and what they depend on). Returns (ok, log, seconds)."""
    with BuildLock():
        coq_project()
        rc, out, err, dt = sh(['make', '-j', str(NPROC)] + list(targets), cwd=COQ, timeout=timeout)
    return rc == 0, out + err, dt


def coqc_file(path, timeout=900):
    """Compile one file outside the Makefile (cases files, property files when capturing output)."""
    rc, out, err, dt = sh(['coqc'] + QFLAGS + [path], timeout=timeout, cwd=os.path.dirname(path))
    return rc == 0, out, err, dt


def compile_props(pid):
    """(Re)compile props/<pid>.v directly to capture the Print Assumptions output.
    Returns dict(ok, theorems=[names], assumptions={name: text}, log)."""
    path = os.path.join(COQ, 'props', pid + '.v')
    src = _strip_comments(open(path).read())
    theorems = re.findall(r'\b(?:Theorem|Corollary)\s+([A-Za-z0-9_\']+)', src)
    with BuildLock():
        ok, out, err, dt = coqc_file(path)
    assumptions = {}
    # output blocks: "Closed under the global context" or "Axioms:\n..." in order of Print Assumptions commands
    printed = re.findall(r'Print Assumptions\s+([A-Za-z0-9_\']+)', src)
    blocks = re.split(r'(?=Closed under the global context|Axioms:)', out)
    blocks = [b.strip() for b in blocks if b.strip().startswith(('Closed under', 'Axioms:'))]
    for name, blk in zip(printed, blocks):
        assumptions[name] = blk
    return dict(ok=ok, theorems=theorems, printed=printed, assumptions=assumptions, log=(out + err)[-4000:], wall=dt)


# ---------------------------------------------------------------- Coq literals
def cz(n):
    return f'({n})%Z' if n < 0 else f'{n}%Z'


def cn(n):
    assert n >= 0
    return f'{n}%N'


def cnat(n):
    assert 0 <= n < 5000
    return f'{n}%nat'


def chx(b):
    return f'(hx "{bytes(b).hex()}")'


def cbool(b):
    return 'true' if b else 'false'


def cstr(s):
    assert all(32 <= ord(c) < 127 for c in s)
    return '"' + s.replace('"', '""') + '"'


def clist(items):
    return '[' + '; '.join(items) + ']'


def cpair(a, b):
    return f'({a}, {b})'


def copt(x):
    return 'None' if x is None else f'(Some {x})'


def parse_nat_lists(out):
    """All '= [..]' results of `Eval vm_compute in (... : list nat)` in order."""
    flat = re.sub(r'\s+', ' ', out)
    res = []
    for m in re.finditer(r'= (\[[^\]]*\]|nil)(?:%nat)? : list nat', flat):
        body = m.group(1)
        if body == 'nil' or body == '[]':
            res.append([])
        else:
            res.append([int(x.replace('%nat', '')) for x in body.strip('[]').split(';') if x.strip()])
    return res


def run_cases(pid, shards, header, timeout=2400):
    """shards: list of Coq source bodies (strings) each ending with Eval commands that print list nat.
    Compiles them in parallel under work/<pid>/; returns list of (ok, [lists], log)."""
    d = os.path.join(WORK, pid)
    os.makedirs(d, exist_ok=True)
    for fn in os.listdir(d):
        if fn.startswith('cases_'):
            os.remove(os.path.join(d, fn))
    paths = []
    for i, body in enumerate(shards):
        p = os.path.join(d, f'cases_{i}.v')
        with open(p, 'w') as f:
            f.write(header + '\n' + body + '\n')
        paths.append(p)
    procs = []
    results = [None] * len(paths)
    pending = list(enumerate(paths))
    running = []
    t0 = time.time()
    while pending or running:
        while pending and len(running) < NPROC:
            i, p = pending.pop(0)
            pr = subprocess.Popen(['coqc'] + QFLAGS + [p], cwd=d, stdout=subprocess.PIPE, stderr=subprocess.PIPE, text=True)
            pr._t0 = time.time()                    # the limit is per cases file, from ITS start (a loaded machine or a
            running.append((i, pr))                 # thorough run with hundreds of files must not time out as a whole)
        still = []
        for i, pr in running:
            if pr.poll() is None:
                if time.time() - pr._t0 > timeout:
                    pr.kill()
                    results[i] = (False, [], 'TIMEOUT')
                else:
                    still.append((i, pr))
            else:
                out, err = pr.communicate()
                results[i] = (pr.returncode == 0, parse_nat_lists(out), (out + err)[-3000:])
        running = still
        if running:
            time.sleep(0.05)
    return results


# ---------------------------------------------------------------- implementation driver
def impl_env(hashseed='0', backend='py'):
    env = dict(os.environ)
    env['PYTHONPATH'] = REPO
    env['PYTHONHASHSEED'] = str(hashseed)
    env['VERIF_CBOR_BACKEND'] = backend
    env['PYCARDANO_VERIF'] = '1'
    env.pop('PYTHONSTARTUP', None)
    return env


def run_impl(driver, payload, timeout=1800, hashseed='0', backend='py', nshards=None):
    """Run tools/impl/<driver>.py under /venv/bin/python against /repo with a JSON payload
    {"cases": [...], ...}; cases are sharded over processes. Returns the list of results in order."""
    cases = payload['cases']
    n = nshards or min(NPROC, max(1, len(cases) // 50))
    shards = [cases[i::n] for i in range(n)]
    procs = []
    for sh_cases in shards:
        pl = dict(payload); pl['cases'] = sh_cases
        pr = subprocess.Popen([IMPL_PY, os.path.join(VERIF, 'tools', 'impl', driver + '.py')],
                              stdin=subprocess.PIPE, stdout=subprocess.PIPE, stderr=subprocess.PIPE,
                              text=True, env=impl_env(hashseed, backend), cwd=VERIF)
        procs.append((pr, json.dumps(pl)))
    outs = []
    import threading
    def feed(pr, data, slot):
        try:
            o, e = pr.communicate(data, timeout=timeout)
        except subprocess.TimeoutExpired:
            pr.kill(); o, e = '', 'TIMEOUT'
        slot.append((pr.returncode, o, e))
    threads, slots = [], []
    for pr, data in procs:
        slot = []; slots.append(slot)
        th = threading.Thread(target=feed, args=(pr, data, slot)); th.start(); threads.append(th)
    for th in threads:
        th.join()
    results = [None] * len(cases)
    for k, slot in enumerate(slots):
        rc, o, e = slot[0]
        if rc != 0:
            raise RuntimeError(f'implementation driver {driver} failed (rc={rc}): {e[-2000:]}')
        lines = [l for l in o.split('\n') if l.startswith('{"results"')]
        res = json.loads(lines[-1])['results']
        for j, r in enumerate(res):
            results[k + j * n] = r
    return results


# ---------------------------------------------------------------- findings / verdict / evidence
def known_findings(pid):
    p = os.path.join(VERIF, 'known_findings.json')
    if not os.path.exists(p):
        return []
    return [f for f in json.load(open(p))['findings'] if f['property'] == pid and f.get('status') == 'known']


def canon_hash(obj):
    return hashlib.sha256(json.dumps(obj, sort_keys=True, default=str).encode()).hexdigest()[:16]


def write_replay(pid, obj):
    d = os.path.join(VERIF, 'replays')
    os.makedirs(d, exist_ok=True)
    p = os.path.join(d, f'{pid}-{canon_hash(obj)}.json')
    with open(p, 'w') as f:
        json.dump(obj, f, indent=1, default=str)
    return p


def write_evidence(pid, tier, seed, level, coverage, assumptions, wall, violations):
    d = os.path.join(VERIF, 'evidence')
    os.makedirs(d, exist_ok=True)
    ev = dict(property_id=pid, tier=tier, seed=seed, level=level, coverage=coverage,
              assumptions=assumptions, wall_s=round(wall, 2), violations=violations)
    with open(os.path.join(d, pid + '.json'), 'w') as f:
        json.dump(ev, f, indent=1, default=str)
    return ev
