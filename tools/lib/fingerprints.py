"""T3 — fingerprints of the hand-modelled code and the changed-code coverage gate.

The hand-written Coq models were validated against ONE source text.  `tools/translate/fingerprints.json` records, for every
function / method of pycardano (normalised AST digest + source lines), that text; `tools/translate/reach/<PID>.json` records
which of those functions the property's own correspondence run executes on the recorded tree (its slice of the library).

On every run of a check:
  * the current digests of the functions in the property's slice are compared with the recorded ones (comments, docstrings
    and formatting do not count: the digest is over the AST);
  * a changed function is NOT a violation.  It (a) escalates the correspondence run (more cases), and (b) arms the coverage
    gate: the implementation drivers trace the changed functions (sys.settrace, restricted to them) and report which of the
    CHANGED lines (new or modified statements; for pure deletions: the function entry) the generated cases executed;
  * a changed line that no case executes means the model/implementation comparison says nothing about the new code: the tie is
    reported as unchecked (kind 'coverage' in check.py -> search, then VIOLATION ... no-failing-input-found);
  * when every changed line is exercised and model, implementation and oracle agree on all (escalated) cases, the check passes:
    a behaviour-preserving rewrite raises no alarm.

Recording (deliberate, after the models were re-validated):  python3 tools/record_fingerprints.py [PID ...]
"""
import ast, difflib, glob, hashlib, json, os, tempfile

VERIF = os.path.dirname(os.path.dirname(os.path.dirname(os.path.abspath(__file__))))
FP_FILE = os.path.join(VERIF, 'tools', 'translate', 'fingerprints.json')
REACH_DIR = os.path.join(VERIF, 'tools', 'translate', 'reach')


class _Norm(ast.NodeTransformer):
    """docstrings out; everything else (names, constants, structure, annotations) counts"""

    def _strip(self, node):
        self.generic_visit(node)
        b = node.body
        if b and isinstance(b[0], ast.Expr) and isinstance(getattr(b[0], 'value', None), ast.Constant) and isinstance(b[0].value.value, str):
            node.body = b[1:] or [ast.Pass()]
        return node

    visit_FunctionDef = visit_AsyncFunctionDef = visit_ClassDef = visit_Module = _strip


def _functions(tree):
    """[(qualname, node)] for every def, nested ones included (qualname as code.co_qualname spells it)"""
    out = []

    def walk(node, prefix, in_func):
        for ch in ast.iter_child_nodes(node):
            if isinstance(ch, (ast.FunctionDef, ast.AsyncFunctionDef)):
                q = prefix + ch.name
                out.append((q, ch))
                walk(ch, q + '.<locals>.', True)
            elif isinstance(ch, ast.ClassDef):
                walk(ch, prefix + ch.name + '.', in_func)
            else:
                walk(ch, prefix, in_func)
    walk(tree, '', False)
    return out


class _NoDefs(ast.NodeTransformer):
    """function bodies out (they have their own entries); decorators, signatures and everything declared beside them stay"""

    def _f(self, node):
        node.body = [ast.Pass()]
        return node

    visit_FunctionDef = visit_AsyncFunctionDef = _f


def _decls(tree):
    """[(key, digest)] of what is NOT inside a function body: per class its body (fields, defaults, metadata, class attributes,
    decorators, bases, method signatures) and the module's own statements (constants, imports, __all__)"""
    out = []

    def dg(node):
        n = _NoDefs().visit(_Norm().visit(ast.parse(ast.unparse(node))))
        return hashlib.sha256(ast.dump(n, include_attributes=False).encode()).hexdigest()[:16]

    def walk(node, prefix):
        for ch in ast.iter_child_nodes(node):
            if isinstance(ch, ast.ClassDef):
                out.append((f'<decl>:{prefix}{ch.name}', dg(ch), ch.lineno))
                walk(ch, prefix + ch.name + '.')
    walk(tree, '')
    mod = ast.Module(body=[n for n in tree.body if not isinstance(n, (ast.ClassDef, ast.FunctionDef, ast.AsyncFunctionDef))],
                     type_ignores=[])
    out.append(('<decl>:<module>', dg(mod), 1))
    return out


def scan_file(path):
    """{qualname: {digest, lo, hi, src: [lines]}} of one source file; nested defs are also part of their parent's text.
    Keys '<decl>:Class' / '<decl>:<module>' carry the digest of the declarations outside function bodies."""
    text = open(path).read()
    lines = text.split('\n')
    tree = ast.parse(text)
    res = {}
    for k, d, ln in _decls(tree):
        res[k] = {'digest': d, 'lo': ln, 'hi': ln, 'src': []}
    for q, node in _functions(tree):
        lo = min([node.lineno] + [d.lineno for d in node.decorator_list])
        hi = node.end_lineno
        norm = _Norm().visit(ast.parse(ast.unparse(node)))
        dg = hashlib.sha256(ast.dump(norm, include_attributes=False).encode()).hexdigest()[:16]
        k = q
        n = 2
        while k in res:                       # same qualname twice (property setter / overloads): keep both
            k = f'{q}#{n}'; n += 1
        res[k] = {'digest': dg, 'lo': lo, 'hi': hi, 'src': lines[lo - 1:hi]}
    return res


def scan_repo(repo):
    out = {}
    for p in sorted(glob.glob(os.path.join(repo, 'pycardano', '**', '*.py'), recursive=True)):
        out[os.path.relpath(p, repo)] = scan_file(p)
    return out


def _stmt_lines(path, lo, hi):
    """line numbers (within lo..hi) on which a statement starts"""
    tree = ast.parse(open(path).read())
    return {n.lineno for n in ast.walk(tree) if isinstance(n, ast.stmt) and lo <= n.lineno <= hi}


def compare(pid, repo):
    """-> {'changed': [{file, qualname, lo, hi, lines: [new/modified statement lines], entry: first body line}], 'gone': [...]}
    restricted to the functions the property's correspondence run reaches on the recorded tree, plus functions that did not
    exist then (they can only be reached from changed code)."""
    rp = os.path.join(REACH_DIR, pid + '.json')
    if not (os.path.exists(FP_FILE) and os.path.exists(rp)):
        return {'changed': [], 'gone': [], 'decls': [], 'recorded': False}
    rec = json.load(open(FP_FILE))
    reach = json.load(open(rp))
    changed, gone, decls = [], [], []
    for rel in sorted(set(reach) | set(rec)):
        path = os.path.join(repo, rel)
        if rel not in reach and rel in rec:
            continue
        if not os.path.exists(path):
            gone += [f'{rel}::{q}' for q in reach.get(rel, [])]
            continue
        try:
            cur = scan_file(path)
        except SyntaxError as e:
            gone.append(f'{rel}: does not parse ({e})')
            continue
        old = rec.get(rel, {})
        if rel in reach:
            # declarations outside function bodies (class fields / metadata / attributes, module constants) of the files
            # the property's run executes: a change there escalates the run (there is no line to cover: they run at import)
            for q in sorted(k for k in set(cur) | set(old) if k.startswith('<decl>:')):
                if (cur.get(q) or {}).get('digest') != (old.get(q) or {}).get('digest') and any(k.startswith('<decl>:') for k in old):
                    decls.append(f'{rel}::{q[7:]}')
        watch = {q for q in set(reach.get(rel, [])) | {q for q in cur if q not in old} if not q.startswith('<decl>:')}
        for q in sorted(watch):
            if q not in cur:
                if q in old:
                    gone.append(f'{rel}::{q}')
                continue
            c = cur[q]
            if q in old and old[q]['digest'] == c['digest']:
                continue
            stmts = _stmt_lines(path, c['lo'], c['hi'])
            if q in old:
                a = [l.strip() for l in old[q]['src']]
                b = [l.strip() for l in c['src']]
                new = set()
                for tag, i1, i2, j1, j2 in difflib.SequenceMatcher(None, a, b, autojunk=False).get_opcodes():
                    if tag in ('replace', 'insert'):
                        new.update(range(c['lo'] + j1, c['lo'] + j2))
                lines = sorted(new & stmts)
            else:
                lines = sorted(stmts - {c['lo']})
            body = sorted(l for l in stmts if l > c['lo'])
            changed.append({'file': rel, 'qualname': q, 'lo': c['lo'], 'hi': c['hi'], 'lines': lines,
                            'entry': body[0] if body else c['lo'], 'new': q not in old})
    # a nested def is inside its parent's range: keep the parent's changed lines only where they are not the child's
    return {'changed': changed, 'gone': gone, 'decls': decls, 'recorded': True}


def arm(changed, repo, mode='lines'):
    """writes the trace request; returns (env additions, out dir)"""
    d = tempfile.mkdtemp(prefix='vtrace_', dir=os.path.join(VERIF, 'work') if os.path.isdir(os.path.join(VERIF, 'work')) else None)
    spec = {'mode': mode, 'root': os.path.realpath(repo), 'out': d,
            'funcs': {}}
    for c in changed:
        spec['funcs'].setdefault(os.path.realpath(os.path.join(repo, c['file'])), []).append([c['lo'], c['hi']])
    sp = os.path.join(d, 'spec.json')
    json.dump(spec, open(sp, 'w'))
    return {'VERIF_TRACE': sp}, d


def collect(outdir):
    """merged hits of all driver processes: lines mode {file: {line: count}}; reach mode {file: set(qualnames)}"""
    lines, reach = {}, {}
    for p in glob.glob(os.path.join(outdir, 'hits_*.json')):
        h = json.load(open(p))
        for f, d in h.get('lines', {}).items():
            t = lines.setdefault(f, {})
            for ln, n in d.items():
                t[int(ln)] = t.get(int(ln), 0) + n
        for f, qs in h.get('reach', {}).items():
            reach.setdefault(f, set()).update(qs)
    return lines, reach


def uncovered(changed, hits, repo, minimum=1):
    """changed lines (or, for pure deletions, the function entry) executed by fewer than `minimum` cases"""
    out = []
    for c in changed:
        h = hits.get(os.path.realpath(os.path.join(repo, c['file'])), {})
        want = c['lines'] or [c['entry']]
        miss = [l for l in want if h.get(l, 0) < minimum]
        called = any(h.get(l, 0) for l in range(c['lo'], c['hi'] + 1))
        last = c['qualname'].rsplit('.', 1)[-1].split('#')[0]
        dunder = last.startswith('__') and last.endswith('__')
        if c.get('new') and not called and not dunder:
            continue                              # a new function nobody calls: dead code, not part of any slice
        # (a new special method is different: it is called implicitly -- ==, hash(), str(), <, len(), copy -- wherever an instance
        #  of the class meets one of the existing call sites; when no generated case gets there, the comparison says nothing about it)
        if miss:
            out.append({'file': c['file'], 'function': c['qualname'], 'lines_not_executed': miss,
                        'function_called': called})
    return out
