#!/usr/bin/env python3
"""Records, for the CURRENT /repo tree, the fingerprints of the hand-modelled codec code and the list of
unsound sites into coq/theories/CodecKnown.v. Run deliberately after the hand model (Codec.v, shapes) was
re-validated against a changed source; the checks compare every run's regenerated values with this file."""
import os, re, sys
sys.path.insert(0, os.path.dirname(os.path.abspath(__file__)))
from lib import common as C
from props import codecgen as G

sch = G.load_schema(C.REPO)
C.write_gen('SchemaGen', G.schema_v(sch))
ok, log, _ = C.coq_make(['gen/SchemaGen.vo', 'theories/CodecSites.vo'])
assert ok, log[-2000:]
src = '''From Coq Require Import String List. From PyC Require Import Codec CodecSites. From PyCGen Require Import SchemaGen.
Eval vm_compute in (unsound_sites schema).
'''
os.makedirs(os.path.join(C.WORK, 'rec'), exist_ok=True)
p = os.path.join(C.WORK, 'rec', 'sites.v')
open(p, 'w').write(src)
ok, out, err, _ = C.coqc_file(p)
assert ok, err
flat = re.sub(r'\s+', ' ', out)
sites = re.findall(r'"([^"]*)"', flat.split(': list string')[0])
fps = G.schema_v(sch).split('Definition fingerprints : list (string * string) := [')[1].split('].')[0]
txt = '''(* RECORDED by tools/record_codec_known.py — the tree the hand model was validated against. *)
From Coq Require Import String List.
Import ListNotations.
Open Scope string_scope.

Definition known_sites : list string := [
''' + ';\n'.join('  "' + s + '"' for s in sites) + '''
].

Definition known_fingerprints : list (string * string) := [''' + fps + '''].
'''
open(os.path.join(C.COQ, 'theories', 'CodecKnown.v'), 'w').write(txt)
print(len(sites), 'sites recorded')
