#!/usr/bin/env python3
"""Run the repository's pinned test suite (guard OFF) and check that every test listed as
stable in /root/.vp/BASELINE.json passes.  Exit 0 iff all stable tests pass."""
import json, os, subprocess, sys, tempfile, xml.etree.ElementTree as ET

def main():
    base = json.load(open('/root/.vp/BASELINE.json'))
    env = dict(os.environ)
    env.pop('PYCARDANO_VERIF', None)
    with tempfile.TemporaryDirectory() as d:
        out = os.path.join(d, 'junit.xml')
        cmd = base['cmd'].replace('<file>', out)
        subprocess.run(cmd, shell=True, env=env, stdout=subprocess.DEVNULL, stderr=subprocess.DEVNULL)
        passed = set()
        for tc in ET.parse(out).getroot().iter('testcase'):
            bad = any(c.tag in ('failure', 'error', 'skipped') for c in tc)
            if not bad:
                passed.add(f"{tc.get('classname')}::{tc.get('name')}")
    missing = [t for t in base['stable_pass'] if t not in passed]
    print(f"stable={len(base['stable_pass'])} passed_now={len(passed)} missing={len(missing)}")
    for m in missing[:20]:
        print("  NOT PASSING:", m)
    sys.exit(1 if missing else 0)

if __name__ == '__main__':
    main()
