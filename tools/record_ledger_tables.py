#!/usr/bin/env python3
"""Records, for the CURRENT /repo tree, the encode-side class tables, enum values and source fingerprints that the
C02 conformance proofs (coq/theories/LedgerProofs.v) are stated against, into coq/theories/LedgerTables.v.
Run deliberately after the hand model (LedgerModel.v) was re-validated against a changed source; every run of the
C02 check compares the regenerated tables (coq/gen/SchemaGen.v) with this file (C02_tables_today, C02_enums_today,
C02_fingerprints_today)."""
import os, re, sys
sys.path.insert(0, os.path.dirname(os.path.abspath(__file__)))
from lib import common as C
from props import codecgen as G

# classes the model encodes through the generic interpreter
NAMES = ['StakeCredential', 'DRepCredential', 'CommitteeColdCredential', 'Anchor', 'SingleHostAddr!super', 'SingleHostName',
         'MultiHostName', 'PoolMetadata', 'PoolParams', 'PoolRegistration!super',
         'StakeRegistration', 'StakeDeregistration', 'StakeDelegation', 'PoolRetirement', 'StakeRegistrationConway',
         'StakeDeregistrationConway', 'VoteDelegation', 'StakeAndVoteDelegation', 'StakeRegistrationAndDelegation',
         'StakeRegistrationAndVoteDelegation', 'StakeRegistrationAndDelegationAndVoteDelegation',
         'AuthCommitteeHotCertificate', 'ResignCommitteeColdCertificate', 'RegDRepCert', 'UnregDRepCertificate',
         'UpdateDRepCertificate',
         'ScriptPubkey', 'ScriptAll', 'ScriptAny', 'ScriptNofK', 'InvalidBefore', 'InvalidHereAfter', '_Script',
         '_TransactionOutputPostAlonzo', '_TransactionOutputLegacy', 'TransactionInput', 'GovActionId',
         'ExUnitPrices', 'ExecutionUnits', 'PoolVotingThresholds', 'DRepVotingThresholds', 'ProtocolParamUpdate',
         'ParameterChangeAction', 'HardForkInitiationAction', 'TreasuryWithdrawalsAction', 'NoConfidence', 'UpdateCommittee',
         'NewConstitution', 'InfoAction', 'ProposalProcedure', 'TransactionBody', 'RedeemerKey', 'RedeemerValue', 'Redeemer',
         'VerificationKeyWitness', 'TransactionWitnessSet', 'ShelleyMarryMetadata', 'AlonzoMetadata!super', 'Transaction',
         'Withdrawals', 'TreasuryWithdrawal', 'CommitteeColdCredentialEpochMap', 'VotingProcedures',
         'GovActionIdToVotingProcedure', 'RedeemerMap', 'Metadata']
ENUMS = ['DRepKind', 'Vote', 'Network', 'RedeemerTag']
# hand-modelled source: the encode-side overrides, the constructors that compute codes, the framework walk
FPS = ['default_encoder', 'CBORSerializable.to_primitive', 'Array.to_shallow_primitive', 'Map.to_shallow_primitive',
       'Dict.to_shallow_primitive', 'OrderedSet.to_shallow_primitive',
       'StakeCredential.__post_init__', 'DRepCredential.__post_init__', 'CommitteeColdCredential.__post_init__',
       'DRep.to_primitive', 'Voter.__post_init__', 'Voter.to_shallow_primitive', 'VotingProcedure.to_shallow_primitive',
       '_DatumOption.__post_init__', '_DatumOption.to_shallow_primitive', '_Script.__post_init__', '_ScriptRef.to_primitive',
       'TransactionOutput.to_primitive', 'TransactionOutput.__post_init__', 'PoolRegistration.to_primitive',
       'SingleHostAddr.to_primitive', 'SingleHostName.__post_init__', 'MultiHostName.__post_init__',
       'AlonzoMetadata.to_primitive', 'AuxiliaryData.to_primitive', 'Value.to_shallow_primitive',
       'MultiAsset.to_shallow_primitive', 'Asset.to_shallow_primitive', 'Address.to_primitive',
       'TransactionWitnessSet.__post_init__', 'VerificationKeyWitness.__post_init__', 'RawPlutusData.to_primitive',
       'Network.to_primitive', 'RedeemerTag.to_primitive', 'HardForkInitiationAction.__post_init__']


def main():
    sch = G.load_schema(C.REPO)
    txt = G.schema_v(sch)
    enc = txt.split('Definition enc_schema : Codec.schema := [')[1].split('\n].')[0]
    rows = {}
    for line in enc.split(';\n'):
        m = re.match(r'\s*\("([^"]+)", (.*)\)\s*$', line, re.S)
        rows[m.group(1)] = line.strip()
    ens = txt.split('Definition enum_values : list (string * list (string * Z)) := [')[1].split('\n].')[0]
    erows = {}
    for line in ens.split(';\n'):
        m = re.match(r'\s*\("([^"]+)", ', line)
        erows[m.group(1)] = line.strip()
    fps = dict(re.findall(r'\("([^"]+)", "([0-9a-f]+|nosource)"\)', txt.split('Definition fingerprints')[1].split('\n].')[0]))
    missing = [n for n in NAMES if n not in rows] + [e for e in ENUMS if e not in erows] + [f for f in FPS if f not in fps]
    if missing:
        raise SystemExit('not in the regenerated tables: ' + ', '.join(missing))
    out = ['(* RECORDED by tools/record_ledger_tables.py — the tree the C02 model and proofs were validated against. *)',
           'From Coq Require Import ZArith NArith String List.', 'From PyC Require Import Base Cbor Value Codec.',
           'Import ListNotations.', 'Open Scope string_scope.', '',
           'Definition expected : schema := [', ';\n'.join('  ' + rows[n] for n in NAMES), '].', '',
           'Definition names : list string := [' + '; '.join(f'"{n}"' for n in NAMES) + '].', '',
           'Definition expected_enums : list (string * list (string * Z)) := [', ';\n'.join('  ' + erows[e] for e in ENUMS), '].', '',
           'Definition known_enc_fingerprints : list (string * string) := [',
           ';\n'.join(f'  ("{f}", "{fps[f]}")' for f in FPS), '].', '']
    open(os.path.join(C.COQ, 'theories', 'LedgerTables.v'), 'w').write('\n'.join(out))
    print(len(NAMES), 'tables,', len(ENUMS), 'enums,', len(FPS), 'fingerprints recorded')


if __name__ == '__main__':
    main()
