#!/usr/bin/env python3
"""Evaluate a seeded defect (a directory with patch.diff, demo.py, meta.json) against the /verif checks.

  python3 tools/seeded_eval.py <dir> [--props C06,C07] [--tier quick] [--skip-tests] [--in-repo]

Default: a scratch git worktree of /repo under /tmp is created, the patch applied there, and the checks are run with
VERIF_REPO pointing at it (drivers and translators honour VERIF_REPO), so /repo itself is never modified and several
evaluations can run side by side.  --in-repo applies the patch to /repo itself (git apply), runs, and undoes it
(git checkout -- .) — the way the checks are used for real.
Steps: (1) demo.py on the clean tree must PASS and on the patched tree must FAIL; (2) the pinned test suite on the patched
tree must still pass (stable tests of /root/.vp/BASELINE.json); (3) each named check must print a VIOLATION line.
Prints a JSON summary; with --record writes it into <dir>/meta.json under "evaluation"."""
import argparse, json, os, subprocess, sys, tempfile, time, xml.etree.ElementTree as ET

V = os.path.dirname(os.path.dirname(os.path.abspath(__file__)))
PY = '/venv/bin/python'


def sh(cmd, cwd=None, env=None, timeout=3600):
    p = subprocess.run(cmd, shell=isinstance(cmd, str), cwd=cwd, env=env, stdout=subprocess.PIPE, stderr=subprocess.STDOUT,
                       text=True, timeout=timeout)
    return p.returncode, p.stdout


def run_demo(demo, root):
    env = dict(os.environ); env['PYTHONHASHSEED'] = '0'; env['PYTHONPATH'] = root   # a script's own directory, not the cwd, heads sys.path
    rc, out = sh([PY, demo], cwd=root, env=env, timeout=900)
    return rc, out[-1500:]


def run_tests(root):
    base = json.load(open('/root/.vp/BASELINE.json'))
    with tempfile.TemporaryDirectory() as d:
        out = os.path.join(d, 'junit.xml')
        cmd = base['cmd'].replace('cd /repo', f'cd {root}').replace('<file>', out)
        sh(cmd, timeout=3600)
        passed = set()
        if os.path.exists(out):
            for tc in ET.parse(out).getroot().iter('testcase'):
                if not any(c.tag in ('failure', 'error', 'skipped') for c in tc):
                    passed.add(f"{tc.get('classname')}::{tc.get('name')}")
    missing = [t for t in base['stable_pass'] if t not in passed]
    return missing


def slot_dir(slot):
    """a private copy of /verif (sources + compiled files, no git, no work dir) so that evaluations can run side by side"""
    d = f'/tmp/vslot_{slot}'
    sh(['rsync', '-a', '--delete', '--exclude', '.git', '--exclude', 'work', '--exclude', 'replays', '--exclude', 'seeded',
        V + '/', d + '/'])
    return d


def run_check(pid, root, tier, in_repo, vdir=V):
    env = dict(os.environ)
    if not in_repo:
        env['VERIF_REPO'] = root
    t0 = time.time()
    rc, out = sh(['python3', os.path.join(vdir, 'tools', 'check.py'), pid, '--tier', tier], cwd=vdir, env=env, timeout=7200)
    lines = [l for l in out.split('\n') if l.startswith(('VIOLATION', 'OK ', 'KNOWN-FINDING'))]
    return {'rc': rc, 'verdict': lines[-1] if lines else out[-400:], 'wall_s': round(time.time() - t0, 1)}


def main():
    ap = argparse.ArgumentParser()
    ap.add_argument('dir')
    ap.add_argument('--props')
    ap.add_argument('--tier', default='quick')
    ap.add_argument('--skip-tests', action='store_true')
    ap.add_argument('--in-repo', action='store_true')
    ap.add_argument('--record', action='store_true')
    ap.add_argument('--slot', help='run the checks from a private copy of /verif (/tmp/vslot_<slot>)')
    a = ap.parse_args()
    d = os.path.abspath(a.dir)
    meta = json.load(open(os.path.join(d, 'meta.json')))
    props = a.props.split(',') if a.props else [meta['property']]
    patch, demo = os.path.join(d, 'patch.diff'), os.path.join(d, 'demo.py')
    summary = {'dir': d, 'props': props, 'tier': a.tier}
    if a.in_repo:
        root = '/repo'
        rc, out = sh(['git', '-C', '/repo', 'status', '--short'])
        if out.strip():
            raise SystemExit('/repo is not clean: ' + out)
    else:
        root = tempfile.mkdtemp(prefix='ev_', dir='/tmp')
        os.rmdir(root)
        rc, out = sh(['git', '-C', '/repo', 'worktree', 'add', '-f', '--detach', root, 'HEAD'])
        if rc != 0:
            raise SystemExit(out)
    try:
        rc, out = run_demo(demo, root)
        summary['demo_clean'] = 'PASS' if rc == 0 else f'rc={rc}: {out[-300:]}'
        rc, out = sh(['git', '-C', root, 'apply', patch])
        if rc != 0:
            raise SystemExit('patch does not apply: ' + out)
        rc, out = run_demo(demo, root)
        summary['demo_patched'] = 'FAIL' if rc != 0 else 'PASS (demo does not detect the change!)'
        summary['demo_patched_output'] = out[-600:]
        if not a.skip_tests:
            missing = run_tests(root)
            summary['stable_tests_not_passing'] = missing[:10]
        vdir = slot_dir(a.slot) if a.slot else V
        summary['checks'] = {p: run_check(p, root, a.tier, a.in_repo, vdir) for p in props}
    finally:
        if a.in_repo:
            sh(['git', '-C', '/repo', 'checkout', '--', '.'])
        else:
            sh(['git', '-C', '/repo', 'worktree', 'remove', '--force', root])
    summary['caught'] = all(c['rc'] == 1 and 'VIOLATION' in c['verdict'] for c in summary['checks'].values())
    print(json.dumps(summary, indent=1))
    if a.record:
        meta['evaluation'] = summary
        json.dump(meta, open(os.path.join(d, 'meta.json'), 'w'), indent=1)


if __name__ == '__main__':
    main()
