#!/usr/bin/env python3
"""Regenerates MANIFEST.json from the table below (kept in one place so it is always valid)."""
import json, os
V = os.path.dirname(os.path.dirname(os.path.abspath(__file__)))
ALL = [f'C{i:02d}' for i in range(1, 21)]

CHECKS = {
 'C04': dict(
    text='Theorems (Coq, unbounded): the emitted map is a function of the multiset of entries and strictly ascending in '
         '(len, bytes) of the encoded key (C04_dict_canonical); the bytes of a multi-asset/Value depend only on content '
         '(C04_bundle_canonical, C04_value_canonical, C04_history over arbitrary operation histories); no zero/empty entries; '
         'bare integer without assets. Model tied to the code by correspondence (model bytes = to_cbor bytes) and the property '
         'oracle (Coq decoder + canonical-form check) is evaluated on the implementation bytes.',
    note='Trusted: Coq kernel+vm_compute; hand model Value.v/Cbor.v validated by differential runs; generator; driver. No axioms.',
    technique='Coq proof (sorting uniqueness, permutation, content abstraction) + model/implementation correspondence', ref='C04'),
 'C05': dict(
    text='Theorems (Coq, all integers, all bundles): +/- are exact per-asset sums/differences with normalised results; ==, <=, < are '
         'the component-wise relations; filter spec; (a+b)-b=a; frame theorems over a two-level store model: pure operators leave '
         'all existing objects untouched, += changes only the left operand to the pure sum (also under aliasing). Model tied to '
         'the code by exact correspondence on random aliasing programs.',
    note='Trusted: Coq kernel+vm_compute; hand model Value.v/ValueHeap.v validated by differential runs; generator; driver. No axioms.',
    technique='Coq proof (induction over dict folds, content abstraction, store frame) + correspondence', ref='C05'),
}

def main():
    checks = []
    for pid, c in sorted(CHECKS.items()):
        checks.append({
            'property_id': pid,
            'quick_cmd': f'python3 tools/check.py {pid} --tier quick',
            'thorough_cmd': f'python3 tools/check.py {pid} --tier thorough',
            'evidence_file': f'/verif/evidence/{pid}.json',
            'replay_cmd_template': f'python3 tools/check.py {pid} --replay {{path}}',
            'engine': 'coq-proof+correspondence',
            'level_claimed': {'category': c.get('category', 'proof'), 'text': c['text'], 'design_ref': 'DESIGN.md section 5 / ' + c['ref']},
            'level_note': c['note'],
            'technique': c['technique'],
        })
    na = [{'property_id': p, 'reason': NA.get(p, 'check not built yet in this round (model and proof planned in DESIGN.md section 5); not claimed')}
          for p in ALL if p not in CHECKS]
    m = {
        'version': 1,
        'setup_cmd': 'python3 tools/setup.py',
        'hooks': {'guard': 'PYCARDANO_VERIF', 'enable': 'no source hooks: drivers call the public and private API of /repo from outside (PYTHONPATH=/repo)',
                  'baseline_off_cmd': 'python3 tools/baseline.py', 'source_commits': [], 'add_only': True},
        'engines': [{'name': 'coq-proof+correspondence', 'path': 'tools/check.py', 'serves_properties': sorted(CHECKS),
                     'kind_free_text': 'Coq 8.16.1 theorems about hand-written/regenerated Gallina models; models run by vm_compute against /repo on generated cases'}],
        'checks': checks,
        'not_applicable': na,
        'notes': 'See DESIGN.md. Fix commits in /repo are listed in known_findings.json (status fixed).',
    }
    json.dump(m, open(os.path.join(V, 'MANIFEST.json'), 'w'), indent=1)

NA = {}
if __name__ == '__main__':
    main()
