#!/usr/bin/env python3
"""Regenerates MANIFEST.json from the table below (kept in one place so it is always valid)."""
import json, os
V = os.path.dirname(os.path.dirname(os.path.abspath(__file__)))
ALL = [f'C{i:02d}' for i in range(1, 21)]

import importlib, sys
sys.path.insert(0, os.path.join(V, 'tools'))

def collect():
    checks = {}
    for pid in ALL:
        path = os.path.join(V, 'tools', 'props', pid.lower() + '.py')
        if not os.path.exists(path):
            continue
        mod = importlib.import_module('props.' + pid.lower())
        m = getattr(mod, 'MANIFEST', None)
        if m and not os.path.exists(os.path.join(V, 'coq', 'props', pid + '.v')):
            NA[pid] = 'theorem file coq/props/%s.v not written yet (model, oracle and harness exist); not claimed' % pid
            continue
        if m and m.get('claimed', True):
            checks[pid] = m
        elif m:
            NA[pid] = m.get('reason', 'not claimed')
    return checks

NA = {}

def main():
    CHECKS = collect()
    checks = []
    for pid, c in sorted(CHECKS.items()):
        checks.append({
            'property_id': pid,
            'quick_cmd': f'python3 tools/check.py {pid} --tier quick',
            'thorough_cmd': f'python3 tools/check.py {pid} --tier thorough',
            'evidence_file': f'/verif/evidence/{pid}.json',
            'replay_cmd_template': f'python3 tools/check.py {pid} --replay {{path}}',
            'engine': 'coq-proof+correspondence',
            'level_claimed': {'category': c.get('category', 'proof'), 'text': c['text'], 'design_ref': 'DESIGN.md section 5 / ' + c['ref']},
            'level_note': c['note'],
            'technique': c['technique'],
        })
    na = [{'property_id': p, 'reason': NA.get(p, 'check not built yet in this round (model and proof planned in DESIGN.md section 5); not claimed')}
          for p in ALL if p not in CHECKS]
    m = {
        'version': 1,
        'setup_cmd': 'python3 tools/setup.py',
        'hooks': {'guard': 'PYCARDANO_VERIF', 'enable': 'no source hooks: drivers call the public and private API of /repo from outside (PYTHONPATH=/repo)',
                  'baseline_off_cmd': 'python3 tools/baseline.py', 'source_commits': [], 'add_only': True},
        'engines': [{'name': 'coq-proof+correspondence', 'path': 'tools/check.py', 'serves_properties': sorted(CHECKS),
                     'kind_free_text': 'Coq 8.16.1 theorems about hand-written/regenerated Gallina models; models run by vm_compute against /repo on generated cases'}],
        'checks': checks,
        'not_applicable': na,
        'notes': 'See DESIGN.md. Fix commits in /repo are listed in known_findings.json (status fixed).',
    }
    json.dump(m, open(os.path.join(V, 'MANIFEST.json'), 'w'), indent=1)

if __name__ == '__main__':
    main()
