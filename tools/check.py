#!/usr/bin/env python3
"""Single entry point of the /verif checks.

  python3 tools/check.py <ID> [--tier quick|thorough] [--replay FILE]

For property <ID> (module tools/props/<id>.py):
  1. guard grep over the Coq development (no Admitted/Axiom/...);
  2. regenerate coq/gen/*.v from /repo's working tree (translators), if the property has any;
  3. full .vo build of props/<ID>.v and what it depends on; capture Print Assumptions;
  4. correspondence: the executable Gallina model (vm_compute inside coqc) against the
     implementation (/venv/bin/python, PYTHONPATH=/repo) on generated cases, and the property's
     decision procedure (defined in Coq) applied to the implementation's own outputs;
  5. verdict + evidence/<ID>.json.
Exit 0 = property held on everything explored; exit 1 + "VIOLATION property=<ID> replay=<path>".
"""
import argparse, importlib, json, os, random, shutil, sys, time, traceback

sys.path.insert(0, os.path.dirname(os.path.abspath(__file__)))
from lib import common as C
from lib import fingerprints as FP


def _escalated(q, t):
    """sizes of an escalated quick run: four times the quick size, at most the thorough one (component-wise)"""
    if isinstance(q, bool) or isinstance(t, bool):
        return q
    if isinstance(q, int) and isinstance(t, int):
        return min(t, 4 * q) if t >= q else q
    if isinstance(q, (tuple, list)) and isinstance(t, (tuple, list)) and len(q) == len(t):
        return type(q)(_escalated(a, b) for a, b in zip(q, t))
    return q


class Ctx:
    def __init__(self, pid, tier, seed):
        self.pid, self.tier, self.seed = pid, tier, seed
        self.rng = random.Random(f'{pid}-{seed}')
        self.quick = tier == 'quick'
        self.proof_ok = True
        self.notes = []
        self.escalate = False        # T3: a function of this property's slice differs from the recorded text

    def n(self, quick, thorough):
        if self.quick and self.escalate:
            return _escalated(quick, thorough)
        return quick if self.quick else thorough


def main():
    ap = argparse.ArgumentParser()
    ap.add_argument('pid')
    ap.add_argument('--tier', default=os.environ.get('VERIF_TIER', 'quick'))
    ap.add_argument('--replay')
    a = ap.parse_args()
    pid = a.pid.upper()
    tier = a.tier if a.tier in ('quick', 'thorough') else 'quick'
    seed = int(os.environ.get('VERIF_SEED', '0') or 0)
    mod = importlib.import_module('props.' + pid.lower())
    ctx = Ctx(pid, tier, seed)
    if a.replay:
        rep = json.load(open(a.replay))
        if 'case' not in rep:
            # no failing input was found when this was written: the replay names what no longer checked
            print(f'replay of {a.replay}: no failing input recorded; the following no longer checked:')
            for b in rep.get('no_longer_checks', []):
                print(' -', b.get('kind'), ':', json.dumps(b.get('detail'), default=str)[:1500])
                if b.get('first'):
                    print('   first disagreeing case:', json.dumps(b['first'], default=str)[:3000])
            sys.exit(1)
        sys.exit(mod.replay(ctx, rep))
    t0 = time.time()
    broken = []          # proof obligations / tie elements that no longer check
    # 1. guards
    bad = C.guard_grep()
    if bad:
        broken.append({'kind': 'guard', 'detail': bad})
    # 2. regenerate
    try:
        if hasattr(mod, 'regen'):
            mod.regen(ctx)
    except Exception as e:
        broken.append({'kind': 'translator', 'detail': f'{type(e).__name__}: {e}'})
    # 3. proofs
    ok, log, dt_make = C.coq_make(getattr(mod, 'TARGETS', [f'props/{pid}.vo']))
    props = {'ok': False, 'theorems': [], 'assumptions': {}, 'printed': []}
    if not ok:
        tail = '\n'.join(log.strip().split('\n')[-25:])
        broken.append({'kind': 'proof', 'detail': tail})
        ctx.proof_ok = False
    else:
        props = C.compile_props(pid)
        if not props['ok']:
            broken.append({'kind': 'proof', 'detail': props['log']})
            ctx.proof_ok = False
    bad_axioms = {k: v for k, v in props['assumptions'].items()
                  if not v.startswith('Closed under') and not getattr(mod, 'axioms_allowed', lambda n, t: False)(k, v)}
    if bad_axioms:
        broken.append({'kind': 'axioms', 'detail': bad_axioms})
    obligations = len(props['theorems']) + len(getattr(mod, 'GEN_OBLIGATIONS', []))
    discharged = obligations if ctx.proof_ok else 0
    # 3b. T3: fingerprints of the hand-modelled code (tools/lib/fingerprints.py)
    record_reach = os.environ.get('VERIF_RECORD_REACH') == '1'
    fp = {'changed': [], 'gone': [], 'decls': [], 'recorded': False}
    trace_dir = None
    try:
        if record_reach:
            env, trace_dir = FP.arm([], C.REPO, mode='reach')
            os.environ.update(env)
        else:
            fp = FP.compare(pid, C.REPO)
            if fp['changed'] or fp['gone'] or fp.get('decls'):
                ctx.escalate = True
                if fp['changed']:
                    env, trace_dir = FP.arm(fp['changed'], C.REPO)
                    os.environ.update(env)
    except Exception as e:
        traceback.print_exc()
        broken.append({'kind': 'translator', 'detail': f'fingerprints: {type(e).__name__}: {e}'})
    # 4. correspondence + oracle
    try:
        res = mod.correspond(ctx)
    except Exception as e:
        traceback.print_exc()
        res = dict(evaluations=0, distinct_nontrivial=0, rule='', samples=[], mismatches=[], oracle_fail=[],
                   error=f'{type(e).__name__}: {e}')
        broken.append({'kind': 'harness', 'detail': res['error']})
    uncovered = []
    if trace_dir:
        os.environ.pop('VERIF_TRACE', None)
        try:
            hits, reach = FP.collect(trace_dir)
            if record_reach:
                known = json.load(open(FP.FP_FILE)) if os.path.exists(FP.FP_FILE) else {}
                rel = {os.path.relpath(f, os.path.realpath(C.REPO)): q for f, q in reach.items()}
                out = {f: sorted(x for x in q if x in known.get(f, {})) for f, q in sorted(rel.items())}
                out = {f: q for f, q in out.items() if q}
                os.makedirs(FP.REACH_DIR, exist_ok=True)
                rp = os.path.join(FP.REACH_DIR, pid + '.json')
                if os.path.exists(rp) and os.environ.get('VERIF_REACH_MERGE') == '1':
                    old = json.load(open(rp))
                    for f, q in old.items():
                        out[f] = sorted(set(out.get(f, [])) | set(q))
                json.dump(out, open(rp, 'w'), indent=0, sort_keys=True)
                print(f'reach recorded: {sum(len(q) for q in out.values())} functions in {len(out)} files')
            else:
                uncovered = FP.uncovered(fp['changed'], hits, C.REPO)
                if uncovered:
                    broken.append({'kind': 'coverage',
                                   'detail': 'changed code of the modelled slice that no generated case executes: the '
                                             'model/implementation comparison says nothing about it', 'uncovered': uncovered})
        finally:
            shutil.rmtree(trace_dir, ignore_errors=True)
    mism = res.pop('mismatches', [])
    ofail = res.pop('oracle_fail', [])
    known = {f['region']: f for f in C.known_findings(pid)}
    new_fail, seen_known = [], {}
    for f in ofail:
        reg = f.get('region')
        if reg in known:
            seen_known.setdefault(reg, f)
        else:
            new_fail.append(f)
    for reg, f in seen_known.items():
        print(f"KNOWN-FINDING: property={pid} {known[reg]['what']}")
    if mism:
        broken.append({'kind': 'correspondence', 'detail': f'{len(mism)} case(s) where model and implementation differ',
                       'first': mism[0]})
    violations = 0
    rc = 0
    if new_fail:
        violations = len(new_fail)
        first = min(new_fail, key=lambda f: len(json.dumps(f, default=str)))
        path = C.write_replay(pid, {'property': pid, 'kind': 'failing-input', 'case': first,
                                    'broken': broken, 'seed': seed, 'tier': tier})
        print(f'VIOLATION property={pid} replay={path}')
        rc = 1
    elif broken:
        # something no longer checks: search harder for a failing input
        found = None
        if hasattr(mod, 'search') and not any(b['kind'] == 'harness' for b in broken):
            try:
                found = mod.search(ctx, mism)
            except Exception as e:
                traceback.print_exc()
        violations = 1
        if found and found.get('region') not in known:
            path = C.write_replay(pid, {'property': pid, 'kind': 'failing-input', 'case': found,
                                        'broken': broken, 'seed': seed, 'tier': tier})
            print(f'VIOLATION property={pid} replay={path}')
        else:
            path = C.write_replay(pid, {'property': pid, 'kind': 'no-failing-input-found',
                                        'no_longer_checks': broken, 'seed': seed, 'tier': tier})
            print(f'VIOLATION property={pid} replay={path} no-failing-input-found')
        rc = 1
    # 5. evidence
    cov = dict(res)
    cov.update(dict(
        obligations=max(obligations, 1), discharged=discharged,
        checker_cmd=f'make -C coq props/{pid}.vo && coqc props/{pid}.v (Coq 8.16.1, full .vo build)',
        trusted_base=getattr(mod, 'TRUSTED', []) + [f'Print Assumptions {k}: {v}' for k, v in props['assumptions'].items()],
        theorems=props['theorems'],
        correspondence_mismatches=len(mism), oracle_failures=len(ofail),
        known_findings_seen=sorted(seen_known), no_longer_checks=broken, make_s=round(dt_make, 1),
        fingerprints=dict(recorded=fp.get('recorded', False),
                          changed=[f"{c['file']}::{c['qualname']}" for c in fp['changed']], gone=fp['gone'],
                          declarations_changed=fp.get('decls', []),
                          escalated=ctx.escalate, uncovered=uncovered)))
    C.write_evidence(pid, tier, seed, getattr(mod, 'LEVEL', 'proof'), cov,
                     getattr(mod, 'ASSUMPTIONS', []), time.time() - t0, violations)
    if rc == 0:
        print(f'OK property={pid} tier={tier} obligations={obligations} discharged={discharged} '
              f'cases={res.get("evaluations")} wall={time.time()-t0:.1f}s')
    sys.exit(rc)


if __name__ == '__main__':
    main()
