#!/usr/bin/env python3
"""Single entry point of the /verif checks.

  python3 tools/check.py <ID> [--tier quick|thorough] [--replay FILE]

For property <ID> (module tools/props/<id>.py):
  1. guard grep over the Coq development (no Admitted/Axiom/...);
  2. regenerate coq/gen/*.v from /repo's working tree (translators), if the property has any;
  3. full .vo build of props/<ID>.v and what it depends on; capture Print Assumptions;
  4. correspondence: the executable Gallina model (vm_compute inside coqc) against the
     implementation (/venv/bin/python, PYTHONPATH=/repo) on generated cases, and the property's
     decision procedure (defined in Coq) applied to the implementation's own outputs;
  5. verdict + evidence/<ID>.json.
Exit 0 = property held on everything explored; exit 1 + "VIOLATION property=<ID> replay=<path>".
"""
import argparse, importlib, json, os, random, sys, time, traceback

sys.path.insert(0, os.path.dirname(os.path.abspath(__file__)))
from lib import common as C


class Ctx:
    def __init__(self, pid, tier, seed):
        self.pid, self.tier, self.seed = pid, tier, seed
        self.rng = random.Random(f'{pid}-{seed}')
        self.quick = tier == 'quick'
        self.proof_ok = True
        self.notes = []

    def n(self, quick, thorough):
        return quick if self.quick else thorough


def main():
    ap = argparse.ArgumentParser()
    ap.add_argument('pid')
    ap.add_argument('--tier', default=os.environ.get('VERIF_TIER', 'quick'))
    ap.add_argument('--replay')
    a = ap.parse_args()
    pid = a.pid.upper()
    tier = a.tier if a.tier in ('quick', 'thorough') else 'quick'
    seed = int(os.environ.get('VERIF_SEED', '0') or 0)
    mod = importlib.import_module('props.' + pid.lower())
    ctx = Ctx(pid, tier, seed)
    if a.replay:
        rep = json.load(open(a.replay))
        if 'case' not in rep:
            # no failing input was found when this was written: the replay names what no longer checked
            print(f'replay of {a.replay}: no failing input recorded; the following no longer checked:')
            for b in rep.get('no_longer_checks', []):
                print(' -', b.get('kind'), ':', json.dumps(b.get('detail'), default=str)[:1500])
                if b.get('first'):
                    print('   first disagreeing case:', json.dumps(b['first'], default=str)[:3000])
            sys.exit(1)
        sys.exit(mod.replay(ctx, rep))
    t0 = time.time()
    broken = []          # proof obligations / tie elements that no longer check
    # 1. guards
    bad = C.guard_grep()
    if bad:
        broken.append({'kind': 'guard', 'detail': bad})
    # 2. regenerate
    try:
        if hasattr(mod, 'regen'):
            mod.regen(ctx)
    except Exception as e:
        broken.append({'kind': 'translator', 'detail': f'{type(e).__name__}: {e}'})
    # 3. proofs
    ok, log, dt_make = C.coq_make(getattr(mod, 'TARGETS', [f'props/{pid}.vo']))
    props = {'ok': False, 'theorems': [], 'assumptions': {}, 'printed': []}
    if not ok:
        tail = '\n'.join(log.strip().split('\n')[-25:])
        broken.append({'kind': 'proof', 'detail': tail})
        ctx.proof_ok = False
    else:
        props = C.compile_props(pid)
        if not props['ok']:
            broken.append({'kind': 'proof', 'detail': props['log']})
            ctx.proof_ok = False
    bad_axioms = {k: v for k, v in props['assumptions'].items()
                  if not v.startswith('Closed under') and not getattr(mod, 'axioms_allowed', lambda n, t: False)(k, v)}
    if bad_axioms:
        broken.append({'kind': 'axioms', 'detail': bad_axioms})
    obligations = len(props['theorems']) + len(getattr(mod, 'GEN_OBLIGATIONS', []))
    discharged = obligations if ctx.proof_ok else 0
    # 4. correspondence + oracle
    try:
        res = mod.correspond(ctx)
    except Exception as e:
        traceback.print_exc()
        res = dict(evaluations=0, distinct_nontrivial=0, rule='', samples=[], mismatches=[], oracle_fail=[],
                   error=f'{type(e).__name__}: {e}')
        broken.append({'kind': 'harness', 'detail': res['error']})
    mism = res.pop('mismatches', [])
    ofail = res.pop('oracle_fail', [])
    known = {f['region']: f for f in C.known_findings(pid)}
    new_fail, seen_known = [], {}
    for f in ofail:
        reg = f.get('region')
        if reg in known:
            seen_known.setdefault(reg, f)
        else:
            new_fail.append(f)
    for reg, f in seen_known.items():
        print(f"KNOWN-FINDING: property={pid} {known[reg]['what']}")
    if mism:
        broken.append({'kind': 'correspondence', 'detail': f'{len(mism)} case(s) where model and implementation differ',
                       'first': mism[0]})
    violations = 0
    rc = 0
    if new_fail:
        violations = len(new_fail)
        first = min(new_fail, key=lambda f: len(json.dumps(f, default=str)))
        path = C.write_replay(pid, {'property': pid, 'kind': 'failing-input', 'case': first,
                                    'broken': broken, 'seed': seed, 'tier': tier})
        print(f'VIOLATION property={pid} replay={path}')
        rc = 1
    elif broken:
        # something no longer checks: search harder for a failing input
        found = None
        if hasattr(mod, 'search') and not any(b['kind'] == 'harness' for b in broken):
            try:
                found = mod.search(ctx, mism)
            except Exception as e:
                traceback.print_exc()
        violations = 1
        if found and found.get('region') not in known:
            path = C.write_replay(pid, {'property': pid, 'kind': 'failing-input', 'case': found,
                                        'broken': broken, 'seed': seed, 'tier': tier})
            print(f'VIOLATION property={pid} replay={path}')
        else:
            path = C.write_replay(pid, {'property': pid, 'kind': 'no-failing-input-found',
                                        'no_longer_checks': broken, 'seed': seed, 'tier': tier})
            print(f'VIOLATION property={pid} replay={path} no-failing-input-found')
        rc = 1
    # 5. evidence
    cov = dict(res)
    cov.update(dict(
        obligations=max(obligations, 1), discharged=discharged,
        checker_cmd=f'make -C coq props/{pid}.vo && coqc props/{pid}.v (Coq 8.16.1, full .vo build)',
        trusted_base=getattr(mod, 'TRUSTED', []) + [f'Print Assumptions {k}: {v}' for k, v in props['assumptions'].items()],
        theorems=props['theorems'],
        correspondence_mismatches=len(mism), oracle_failures=len(ofail),
        known_findings_seen=sorted(seen_known), no_longer_checks=broken, make_s=round(dt_make, 1)))
    C.write_evidence(pid, tier, seed, getattr(mod, 'LEVEL', 'proof'), cov,
                     getattr(mod, 'ASSUMPTIONS', []), time.time() - t0, violations)
    if rc == 0:
        print(f'OK property={pid} tier={tier} obligations={obligations} discharged={discharged} '
              f'cases={res.get("evaluations")} wall={time.time()-t0:.1f}s')
    sys.exit(rc)


if __name__ == '__main__':
    main()
