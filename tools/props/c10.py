"""C10 — witnesses authorise exactly this transaction."""
import hashlib, json, os, re, sys
from lib import common as C
from props import alike as A

sys.path.insert(0, os.path.join(C.VERIF, 'tools'))
from refcrypto import ed25519_ref as E          # pure-Python RFC 8032, independent of pycardano / nacl

PID = 'C10'
TARGETS = ['props/C10.vo', 'theories/WitnessOracle.vo']
LEVEL = 'proof'

MANIFEST = dict(
    text='Theorems (Coq): every key hash the UTXOW rule requires for the emitted transaction (key-locked inputs and collateral, '
         'required signers, native-script key leaves through all/any/n-of-k incl. scripts attached by add_*_script whether they travel '
         'in the witness set, in a separate reference UTxO, in the spent UTxO or are found by the builder in the context, the credentials of '
         'the 16 witness-needing certificate kinds with pool operator AND owners, key reward accounts, key voters) is in the '
         'builder\'s required set, and the builder adds nothing but the legacy-registration key (side conditions refs_registered / '
         'refs_used on how reference scripts are handed over, decidable and evaluated on every scenario); the witnesses of build_and_sign are '
         'exactly (32-byte key, signature of blake2b-256(body)) of the supplied keys that are required (all when forced, wherever they stand '
         'in the list), one per key hash, ordinary and extended keys alike — stated for the builder as build() leaves it (after_build: UTxOs '
         'added by coin selection, then the automatic required signers, then the collateral picked by _set_collateral_return; Plutus scripts '
         'count for is_smart / self.scripts); the placeholder witnesses of the last fee estimate are as many as that builder has distinct '
         'required hashes (<=256), 32+64 bytes, pairwise distinct, cover every key-locked UTxO build() added as input or collateral, and '
         'their number equals the number of distinct ledger-required hashes of the emitted transaction (C10_fee_placeholders; counting before '
         'the collateral is picked is refuted by example); BIP32ED25519PrivateKey.sign satisfies S.B = R + h.A from the group laws (scalar '
         'arithmetic mod L explicit). Tie: slice correspondence of all collectors on prepared real builders, build_and_sign end to end '
         '(native and Plutus V1-V3 scripts, builder-picked collateral, coin selection), and the oracle (independent RFC 8032 verification '
         'over the body slice of tx.to_cbor(), witness set = supplied /\\ required read from the transaction itself, reference inputs resolved '
         'through the scenario\'s UTxO table and a referenced native script counted when its hash (hashlib over the CBOR Coq produces) is one '
         'the transaction needs; fee of the body >= the ledger minimum fee of the transaction re-encoded in Coq with one placeholder witness '
         'per distinct required hash, and below that with one more) on the implementation\'s signed transactions.',
    note='Trusted: Coq kernel+vm_compute; hand model Witness.v tied by correspondence; hashlib BLAKE2b; tools/refcrypto RFC 8032; the '
         'harness CBOR walker (cross-checked against Cbor.decode in Coq). Assumed, in the statements: group laws, L.B=0, point '
         'compression invertible; NaCl ordinary-key signing verifies (C10_witnesses_valid only). No axioms.',
    technique='Coq proof (list/set reasoning, abstract-group algebra, one finite vm_compute table) + slice and end-to-end correspondence',
    ref='C10')
TRUSTED = [
    'Coq 8.16.1 kernel incl. vm_compute (no native_compute); no axioms (see Print Assumptions lines)',
    'hand model coq/theories/Witness.v of txbuilder.py (_*_vkey_hashes, _build_required_vkeys, _witness_count, '
    '_build_fake_vkey_witnesses, build_and_sign witness loop, the order of coin selection / automatic required signers / collateral '
    'choice in build()), key.py, witness.py, crypto/bip32.py sign — tied by correspondence',
    'specification transcription WitnessOracle.min_fee (Conway: a*|tx| + b + ceil(price_mem*mem + price_step*steps) + base*reference-script '
    'bytes, first tier) with protocol parameters echoed by the driver from its chain context',
    'specification transcription Witness.Ledger (Conway UTXOW witsVKeyNeeded + key leaves of native scripts in the witness set and of '
    'needed native scripts in reference / spent outputs; scriptsNeeded = script inputs, policies, script certificates/withdrawals/voters)',
    'the harness\'s native-script CBOR encoder ns_enc (cross-checked: Coq re-encodes every script with Cbor.enc and must find the digest)',
    'tools/impl/witness_driver.py, this generator, the harness CBOR length-walker (its body slice is re-derived in Coq by Cbor.decode/enc)',
    'hashlib BLAKE2b-224/256 and tools/refcrypto/ed25519_ref.py (RFC 8032 verification, public keys and reference signatures)',
]
ASSUMPTIONS = [
    'Section hypotheses of C10_ext_sign_verifies / C10_witnesses_valid (appear as premises): (G,add,zero,neg) commutative group, '
    'smulB (a+b) = add (smulB a) (smulB b), smulB L = zero, |enc_pt P| = 32, dec_pt (enc_pt P) = Some P; NaCl ordinary signing verifies',
    'libsodium scalar_reduce / scalar_mul / scalar_add / scalarmult_base_noclamp behave as modelled (x mod L arithmetic on little-endian '
    '32-byte strings; bit 255 of the scalar cleared); the zero-scalar failure of scalarmult_base_noclamp (probability 2^-252) is not modelled',
    'extended signing keys are laid out kL kR A cc with A = kL.B and kL < 2^255 (what HDWallet derivation produces)',
    'which UTxOs coin selection adds and which collateral _set_collateral_return picks is taken from the implementation\'s run (builder.inputs / '
    'builder.collaterals after build minus what the scenario put there) and cross-checked against the transaction (inputs / collateral of the '
    'body resolved through the UTxO table: counts, required key hashes, needed scripts); the model fixes WHEN collateral is looked for '
    '(picks_collateral, compared per case) and what the additions do to the required set, not the selection itself',
    'Plutus scripts are opaque bytes with explicit execution units (ExecutionUnits(0, 0) and evaluation through the context are outside), handed '
    'over as objects or through a separate reference UTxO (not carried by the spent UTxO itself); a UTxO that carries a referenced Plutus script '
    'does not sit at an address the scenario spends from (it would be selected as input and as reference input at once)',
    'fee clause: prices are Fractions (the declared type), reference scripts stay within the first tier (checked in Coq), no fee_buffer, no '
    'witness_override; upper margin = bytes of scripts carried by spent inputs + 16 bytes + 1 lovelace (the builder\'s fake transaction keeps '
    'scripts that build_and_sign drops with remove_dup_script, sizes the fee field for the maximum fee and the change for the first-pass fee)',
    'domain restriction (explicit, checked by c10_domain): reference scripts are handed over through add_script_input / add_*_script '
    'for a purpose the transaction has (refs_registered, refs_used); a script-locked UTxO added with plain add_input plus a hand-made '
    'reference input, or add_minting_script(<UTxO>) without minting under that policy, are outside',
]

# regions of the input space with a reported, not yet answered defect: kept out of oracle_fail, counted in known_region_hits
KNOWN_REGIONS = []

ADA = 1000000

HEADER = '''From Coq Require Import NArith List String.
From PyC Require Import Base Cbor Witness WitnessOracle.
Import ListNotations.
Open Scope string_scope.
Open Scope N_scope.
'''


# ---------------------------------------------------------------- independent primitives
def b224(b):
    return hashlib.blake2b(b, digest_size=28).digest()


def b256(b):
    return hashlib.blake2b(b, digest_size=32).digest()


def cb_uint(major, n):
    if n < 24:
        return bytes([major << 5 | n])
    for ai, w in ((24, 1), (25, 2), (26, 4), (27, 8)):
        if n < 1 << (8 * w):
            return bytes([major << 5 | ai]) + n.to_bytes(w, 'big')
    raise ValueError(n)


def ns_enc(ns):
    """CDDL native_script, definite lengths, shortest heads (the harness's own encoder)"""
    k = ns[0]
    if k == 'pk':
        h = bytes.fromhex(ns[1])
        return b'\x82\x00' + cb_uint(2, len(h)) + h
    if k in ('all', 'any'):
        return b'\x82' + (b'\x01' if k == 'all' else b'\x02') + cb_uint(4, len(ns[1])) + b''.join(ns_enc(x) for x in ns[1])
    if k == 'nofk':
        return b'\x83\x03' + cb_uint(0, ns[1]) + cb_uint(4, len(ns[2])) + b''.join(ns_enc(x) for x in ns[2])
    return b'\x82' + (b'\x04' if k == 'before' else b'\x05') + cb_uint(0, ns[1])


def ns_hash(ns):
    """script hash of a native script: BLAKE2b-224(0x00 || CBOR)"""
    return b224(b'\x00' + ns_enc(ns)).hex()


def cb_head(b, p):
    ib = b[p]; major, ai = ib >> 5, ib & 31; p += 1
    if ai < 24:
        return major, ai, p
    if ai in (24, 25, 26, 27):
        n = 1 << (ai - 24)
        return major, int.from_bytes(b[p:p + n], 'big'), p + n
    if ai == 31:
        return major, None, p
    raise ValueError('reserved additional info')


def cb_skip(b, p):
    """position just after the data item starting at p (length walking only, nothing is interpreted)"""
    major, arg, p = cb_head(b, p)
    if major in (0, 1, 7):
        return p
    if major in (2, 3):
        if arg is None:
            while b[p] != 0xff:
                p = cb_skip(b, p)
            return p + 1
        return p + arg
    if major == 6:
        return cb_skip(b, p)
    per = 1 if major == 4 else 2
    if arg is None:
        while b[p] != 0xff:
            for _ in range(per):
                p = cb_skip(b, p)
        return p + 1
    for _ in range(arg * per):
        p = cb_skip(b, p)
    return p


def slice_tx(tx):
    """(body bytes, [(vkey, signature)]) cut out of a serialized transaction by walking lengths"""
    major, n, p = cb_head(tx, 0)
    assert major == 4
    q = cb_skip(tx, p)
    body, p0 = tx[p:q], p
    wits = []
    major, n, p = cb_head(tx, q)
    assert major == 5 and n is not None
    for _ in range(n):
        km, key, p = cb_head(tx, p)
        if km == 0 and key == 0:
            m, a, p2 = cb_head(tx, p)
            if m == 6:
                m, a, p2 = cb_head(tx, p2)
            assert m == 4
            cnt = 0
            while (a is None and tx[p2] != 0xff) or (a is not None and cnt < a):
                m2, a2, p3 = cb_head(tx, p2)
                assert m2 == 4 and a2 == 2
                m3, l3, p4 = cb_head(tx, p3); vk = tx[p4:p4 + l3]; p4 += l3
                m5, l5, p6 = cb_head(tx, p4); sg = tx[p6:p6 + l5]
                assert m3 == 2 and m5 == 2
                wits.append((vk, sg))
                p2 = cb_skip(tx, p2); cnt += 1
        p = cb_skip(tx, p)
    return body, wits, p0


# ---------------------------------------------------------------- key universe (reference crypto only)
def ext_payload(rng, style):
    kL = bytearray(rng.randbytes(32)); kR = rng.randbytes(32)
    kL[0] &= 0xf8
    if style == 'root':                       # Icarus master key: top three bits cleared, bit 254 set
        kL[31] &= 0x1f; kL[31] |= 0x40
    else:                                     # child-like: any scalar below 2^255 that is a multiple of 8
        kL[31] &= 0x7f
    kL = bytes(kL)
    return kL + kR + E.scalarmult_base_noclamp(kL) + rng.randbytes(32)


def key_entry(kind, payload, cls):
    vk = E.secret_to_public(payload) if kind == 'ord' else payload[64:96]
    if kind == 'ext':
        assert vk == E.scalarmult_base_noclamp(payload[:32])
    return dict(kind=kind, payload=payload.hex(), cls=cls, vk=vk.hex(), kh=b224(vk).hex())


def universe(rng):
    U = []
    for i in range(14):
        U.append(key_entry('ord', rng.randbytes(32), rng.choice(['payment', 'stake', 'pool', 'plain', 'payment'])))
    for i in range(8):
        U.append(key_entry('ext', ext_payload(rng, 'root' if i % 2 == 0 else 'child'), rng.choice(['payment', 'stake', 'plain'])))
    # the same key pair as several key objects: other class, equal object, and the extended form of an ordinary key
    alias = {}
    for i in (0, 1, 2):
        other = 'stake' if U[i]['cls'] != 'stake' else 'payment'
        alias[i] = [len(U)]
        U.append(key_entry('ord', bytes.fromhex(U[i]['payload']), other))
    seed = bytes.fromhex(U[3]['payload'])
    h = hashlib.sha512(seed).digest()
    kL = bytearray(h[:32]); kL[0] &= 248; kL[31] &= 127; kL[31] |= 64
    alias[3] = [len(U)]
    U.append(key_entry('ext', bytes(kL) + h[32:] + E.secret_to_public(seed) + rng.randbytes(32), 'payment'))
    assert U[-1]['vk'] == U[3]['vk']
    p = bytes.fromhex(U[14]['payload'])
    alias[14] = [len(U)]
    U.append(key_entry('ext', p[:96] + rng.randbytes(32), U[14]['cls']))     # same key, other chain code
    return U, alias


# ---------------------------------------------------------------- scenarios
CERT_CODES = [0, 1, 2, 3, 4, 7, 8, 9, 10, 11, 12, 13, 14, 15, 16, 17, 18]


def gen_ns(rng, some_hash, depth, width=3):
    """native scripts are costly in the implementation (script_hash re-validates every node on every call of all_scripts):
    signed scenarios keep them small, slice-only scenarios nest deeper"""
    r = rng.random()
    if depth <= 0 or r < 0.35:
        return ['pk', some_hash()]
    if r < 0.45:
        return ['before', rng.randint(0, 5000)] if rng.random() < 0.5 else ['after', rng.randint(3000, 10 ** 7)]
    subs = [gen_ns(rng, some_hash, depth - 1, width) for _ in range(rng.randint(0, width))]
    k = rng.choice(['all', 'any', 'nofk', 'nofk'])
    return ['nofk', rng.randint(0, max(1, len(subs))), subs] if k == 'nofk' else [k, subs]


def ns_has_leaf(ns):
    if ns[0] == 'pk':
        return True
    if ns[0] in ('all', 'any'):
        return any(ns_has_leaf(x) for x in ns[1])
    if ns[0] == 'nofk':
        return any(ns_has_leaf(x) for x in ns[2])
    return False


def gen_scenario(rng, U, alias, i, sign, complete=False):
    """complete: every key hash of the scenario belongs to a key that is supplied (the transaction can be signed completely,
    the usual situation of a wallet); unrelated keys are supplied on top, in any position of the list"""
    pool = rng.sample(range(len(U)), rng.randint(3, 8))
    def some_hash():
        return U[rng.choice(pool)]['kh'] if complete or rng.random() < 0.75 else rng.randbytes(28).hex()
    def cred(pk=0.7):
        return ['k', some_hash()] if rng.random() < pk else ['s', rng.randbytes(28).hex()]
    want = set(rng.sample(['inputs', 'collateral', 'rs', 'native', 'attached', 'certs', 'withdrawals', 'voters'],
                          rng.randint(1, 5)))
    want.add(['inputs', 'collateral', 'rs', 'native', 'attached', 'certs', 'withdrawals', 'voters'][i % 8])
    utxos, inputs, collateral, attached, extra_refs = [], [], [], [], []
    def new_utxo(pay, coin, stake=None, script=None):
        u = dict(txid=rng.randbytes(32).hex(), ix=rng.randint(0, 40), pay=pay, stake=stake, coin=coin)
        if script is not None:
            u['script'] = script
        utxos.append(u)
        return len(utxos) - 1
    def stake_part():
        """nothing (enterprise), a key / script credential (base) or a chain pointer (pointer address): the payment key is
        required whatever the delegation part says"""
        m = rng.random()
        if m < 0.45:
            return None
        if m < 0.8:
            return cred()
        return ['ptr', rng.choice([0, 1, 127, 128, 16384, 2 ** 32]), rng.choice([0, 2, 300]), rng.choice([0, 1, 200])]
    inputs.append(new_utxo(['k', some_hash()], 100000 * ADA, stake_part() if rng.random() < 0.4 else None))
    if 'inputs' in want:
        for _ in range(rng.randint(1, 3)):
            inputs.append(new_utxo(cred(0.65), rng.randint(2, 9) * ADA, stake_part()))
        if rng.random() < 0.3:                      # the same address twice
            inputs.append(new_utxo(utxos[inputs[-1]]['pay'], 3 * ADA))
    if 'collateral' in want:
        for _ in range(rng.randint(1, 3)):
            collateral.append(new_utxo(cred(1.0 if sign else 0.7), 6 * ADA, stake_part()))
    rs = [some_hash() for _ in range(rng.randint(1, 3))] if 'rs' in want else None
    if rs is not None and not sign and rng.random() < 0.25:
        # a crowd: dozens of distinct required key hashes (a large multi-signature treasury); every one needs its own placeholder
        rs += [rng.randbytes(28).hex() for _ in range(rng.choice([29, 30, 31, 32, 33, 40, 64, 65, 70]))]
    native = ([gen_ns(rng, some_hash, rng.randint(1, 2 if sign else 4), 2 if sign else 3) for _ in range(1 if sign else rng.randint(1, 2))]
              if 'native' in want else None)
    if 'attached' in want:
        # a native script is handed to the builder for a purpose (spend / mint / withdraw / certificate) and reaches the
        # transaction in one of four ways (via):
        #   witness  the script object is passed                           -> shipped in the witness set
        #   ref      add_script_input(u, script=<UTxO>) / add_*_script(<UTxO>): a separate UTxO carries it -> reference input
        #   self     the spent UTxO carries the script in its own output    -> neither witness set nor reference input
        #   lookup   add_script_input(u) with nothing: the builder finds a UTxO carrying it at the script address (context)
        lookup_addrs = set()
        def attach(how, ns, via):
            h = ns_hash(ns)
            carried = [j for j, u in enumerate(utxos) if u.get('script') is not None and u['pay'] == ['s', h]]
            if via == 'lookup' and (how != 'input' or carried):
                via = 'ref'
            if via == 'self' and (how != 'input' or h in lookup_addrs):
                via = 'witness'
            a = dict(how=how, ns=ns, via=via)
            if how == 'input':
                a['utxo'] = new_utxo(['s', h], 4 * ADA, script=ns if via == 'self' else None)
                a['pass_obj'] = via == 'witness' or (via == 'self' and rng.random() < 0.5)
                inputs.append(a['utxo'])
            if via == 'ref':
                holders = [j for j, u in enumerate(utxos) if u.get('script') == ns and j not in inputs and u['pay'] != ['s', h]]
                a['ref_utxo'] = (rng.choice(holders) if holders and rng.random() < 0.5
                                 else new_utxo(cred(0.8), 20 * ADA, script=ns))
            elif via == 'lookup':
                a['ref_utxo'] = new_utxo(['s', h], 20 * ADA, script=ns)
                lookup_addrs.add(h)
            attached.append(a)
        def pick_via(how):
            return rng.choice(['witness', 'ref', 'ref'] + (['self', 'lookup'] if how == 'input' else []))
        for _ in range(1 if sign and rng.random() < 0.7 else 2):
            ns = gen_ns(rng, some_hash, rng.randint(1, 2 if sign else 3), 2 if sign else 3)
            if ns[0] in ('before', 'after'):
                ns = ['all', [ns, ['pk', some_hash()]]]
            if json.dumps(ns) in [json.dumps(x['ns']) for x in attached]:
                continue
            how = rng.choice(['input', 'input', 'mint', 'withdrawal', 'cert'])
            attach(how, ns, pick_via(how))
            if rng.random() < 0.3:                      # the same script for a second purpose, possibly supplied another way
                how2 = rng.choice(['input', 'mint', 'withdrawal', 'cert'])
                if how2 == 'input' or how2 != how:
                    attach(how2, ns, pick_via(how2))
        # reference inputs written to builder.reference_inputs by hand: without script, with an unrelated native script
        # (not needed by the transaction: its keys must NOT be asked for), or with a copy of an attached script
        if rng.random() < 0.35:
            for _ in range(rng.randint(1, 2)):
                r = rng.random()
                scr = (None if r < 0.3 else
                       rng.choice(attached)['ns'] if r < 0.5 and attached else
                       ['all', [['pk', some_hash()], gen_ns(rng, some_hash, 1, 2)]])
                if scr is not None and ns_hash(scr) in lookup_addrs:
                    scr = None
                extra_refs.append(new_utxo(cred(0.8), 15 * ADA, script=scr))
    certs = []
    if 'certs' in want:
        for _ in range(rng.randint(1, 4)):
            code = rng.choice(CERT_CODES)
            if code == 3:
                certs.append(dict(code=3, operator=some_hash(), owners=[some_hash() for _ in range(rng.randint(0, 3))]))
            elif code == 4:
                certs.append(dict(code=4, pool=some_hash()))
            elif code == 14:
                certs.append(dict(code=14, cold=cred(), hot=cred()))
            elif code == 15:
                certs.append(dict(code=15, cold=cred(), anchor=rng.random() < 0.5))
            else:
                certs.append(dict(code=code, cred=cred(), anchor=rng.random() < 0.5))
    withdrawals = []
    if 'withdrawals' in want:
        seen = set()
        for _ in range(rng.randint(1, 3)):
            c = cred(0.6)
            if c[1] not in seen:
                seen.add(c[1]); withdrawals.append(dict(cred=c, coin=rng.randint(0, 5) * ADA))
    voters = []
    if 'voters' in want:
        seen = set()
        for _ in range(rng.randint(1, 3)):
            kind = rng.choice(['cc', 'drep', 'spo'])
            c = ['k', some_hash()] if kind == 'spo' else cred(0.65)
            if (kind, c[1]) not in seen:
                seen.add((kind, c[1])); voters.append(dict(kind=kind, cred=c, votes=rng.randint(1, 2)))
    # signing keys: from the pool (required or not), unrelated ones, duplicates, aliases of the same key pair
    supplied = [k for k in pool if complete or rng.random() < 0.7]
    supplied += rng.sample(range(len(U)), rng.randint(0, 3 if complete else 2))
    if supplied and rng.random() < 0.4:
        supplied.append(rng.choice(supplied))
    for k in list(supplied):
        if k in alias and rng.random() < 0.6:
            supplied.append(rng.choice(alias[k]))
    rng.shuffle(supplied)
    wo = None
    if rng.random() < 0.12:
        wo = rng.choice([0, 1, 3, 7])
    return dict(keys=U, supplied=supplied, force=rng.random() < (0.5 if complete else 0.3), auto=rng.choice([None, None, True, False]),
                utxos=utxos, inputs=inputs, collateral=collateral, required_signers=rs, native_scripts=native,
                attached=attached, extra_refs=extra_refs, certs=certs, withdrawals=withdrawals, voters=voters,
                witness_override=wo, change=['k', some_hash()], sign=sign,
                prebuild=bool(sign and rs is not None and wo is None and not collateral and not attached and rng.random() < 0.5))


def plutus_hash(ver, body_hex):
    """script hash of a Plutus script: BLAKE2b-224(language byte || script bytes)"""
    return b224(bytes([ver]) + bytes.fromhex(body_hex)).hex()


def gen_build_scenario(rng, U, alias, i):
    """transactions that build() itself extends: Plutus scripts (spend / mint / withdraw / certificate, V1-V3, shipped or
    referenced) whose collateral is given or has to be picked by the builder — among the inputs, the potential inputs,
    the wallet at the change address or at a separate collateral_change_address, one or several UTxOs, of keys that
    are or are not required otherwise —, and outputs that need coin selection from input addresses / potential inputs.
    Signing keys: all keys of the scenario (complete) or a subset, plus unrelated ones, any order; forced or not."""
    pool = rng.sample(range(len(U)), rng.randint(3, 6))
    def some_hash():
        return U[rng.choice(pool)]['kh']
    utxos, inputs, collateral, plutus, potential, input_addresses, outputs = [], [], [], [], [], [], []
    def new_utxo(pay, coin, **kw):
        u = dict(txid=rng.randbytes(32).hex(), ix=rng.randint(0, 40), pay=pay, stake=None, coin=coin)
        u.update(kw)
        utxos.append(u)
        return len(utxos) - 1
    change = ['k', some_hash()]
    with_plutus = i % 5 != 4                      # every fifth: no script at all, coin selection only
    have = 0
    mode = rng.choice(['explicit', 'pick', 'pick', 'pick'])
    # isolated: nothing but the script input pays, so the collateral the builder finds belongs to a key of its own
    isolated = with_plutus and mode == 'pick' and rng.random() < 0.6
    if with_plutus:
        hows = [rng.choice(['input'] if isolated else ['input', 'input', 'input', 'mint', 'withdrawal', 'cert'])]
        if rng.random() < 0.3:
            hows.append(rng.choice(['input', 'mint', 'withdrawal', 'cert']))
        used = set()
        for how in hows:
            if how != 'input' and how in used:
                continue
            used.add(how)
            ver = rng.choice([1, 2, 2, 3])
            body = rng.randbytes(rng.randint(8, 70)).hex()
            h = plutus_hash(ver, body)
            via = rng.choice(['witness', 'witness', 'ref'])
            # explicit execution units (an ExecutionUnits(0, 0) counts as "not given" and asks for an evaluation)
            a = dict(how=how, ver=ver, body=body, via=via, mem=rng.randint(1, 2000000),
                     steps=rng.choice([0, rng.randint(1, 500000000)]))
            if how == 'input':
                coin = rng.randint(8, 40) * ADA
                a['utxo'] = new_utxo(['s', h], coin, datum=rng.choice(['hash', 'inline']))
                inputs.append(a['utxo']); have += coin
            if via == 'ref':
                a['ref_utxo'] = new_utxo(['k', rng.randbytes(28).hex()] if rng.random() < 0.7 else ['s', rng.randbytes(28).hex()],
                                         12 * ADA, pscript=[ver, body])
            plutus.append(a)
    # key-locked explicit inputs: none, too small to serve as collateral (<= 2 ADA), or ordinary
    r = rng.random() * (0.5 if isolated else 1)
    if r < 0.3:
        for _ in range(rng.randint(1, 2)):
            coin = rng.randint(1200000, 2000000)
            inputs.append(new_utxo(['k', some_hash()], coin)); have += coin
    elif r < 0.6:
        for _ in range(rng.randint(1, 2)):
            coin = rng.randint(3, 30) * ADA
            inputs.append(new_utxo(['k', some_hash()], coin)); have += coin
    # outputs; when they ask for more than the explicit inputs hold, coin selection has to add UTxOs
    select = (not with_plutus) or (not isolated and rng.random() < 0.35) or have < 6 * ADA
    if select:
        want = have + rng.randint(5, 40) * ADA
        outputs.append([['k', some_hash()], want])
        src = rng.choice(['address', 'address', 'potential', 'both'])
        room = want + 30 * ADA
        if src in ('address', 'both'):
            w = ['k', some_hash()]
            input_addresses.append(w)
            for _ in range(rng.randint(2, 4)):
                new_utxo(w, room // 2 + rng.randint(0, 9) * ADA)
        if src in ('potential', 'both'):
            for _ in range(rng.randint(1, 3)):
                potential.append(new_utxo(['k', some_hash()], room + rng.randint(0, 9) * ADA))
    elif have > 12 * ADA and rng.random() < 0.6:
        outputs.append([['k', some_hash()], rng.randint(2, 5) * ADA])
    # collateral: given, or left to the builder
    collateral_change = None
    if with_plutus:
        if mode == 'explicit':
            for _ in range(rng.randint(1, 2)):
                collateral.append(new_utxo(['k', some_hash()], rng.randint(4, 9) * ADA))
        else:
            src = rng.choice(['change-wallet', 'cc-wallet', 'cc-wallet', 'potential', 'potential-many'])
            if src == 'change-wallet':
                for _ in range(rng.randint(1, 2)):
                    new_utxo(change, rng.randint(4, 9) * ADA)
            elif src == 'cc-wallet':
                collateral_change = ['k', some_hash()]
                for c in rng.choice([[8], [6, 1500000 / ADA], [2.5, 2.2, 2.1]]):
                    new_utxo(collateral_change, int(c * ADA))
            elif src == 'potential':
                potential.append(new_utxo(['k', some_hash()], rng.randint(4, 9) * ADA))
            else:                                         # several small UTxOs of different keys
                for _ in range(3):
                    potential.append(new_utxo(['k', some_hash()], rng.randint(2100000, 2900000)))
            if rng.random() < 0.3:                        # a script-locked candidate the builder has to pass over
                potential.append(new_utxo(['s', rng.randbytes(28).hex()], 7 * ADA))
    rs = [some_hash() for _ in range(rng.randint(1, 2))] if rng.random() < 0.2 else None
    certs, withdrawals, voters = [], [], []
    if rng.random() < 0.2:
        certs.append(dict(code=rng.choice([1, 2, 8, 9, 17]), cred=['k', some_hash()], anchor=False))
    if rng.random() < 0.2:
        withdrawals.append(dict(cred=['k', some_hash()], coin=rng.randint(0, 3) * ADA))
    complete = rng.random() < 0.6
    supplied = [k for k in pool if complete or rng.random() < 0.7]
    supplied += rng.sample(range(len(U)), rng.randint(0, 2))
    for k in list(supplied):
        if k in alias and rng.random() < 0.4:
            supplied.append(rng.choice(alias[k]))
    rng.shuffle(supplied)
    return dict(keys=U, supplied=supplied, force=rng.random() < 0.3, auto=rng.choice([None, None, None, True, False]),
                utxos=utxos, inputs=inputs, collateral=collateral, required_signers=rs, native_scripts=None,
                attached=[], extra_refs=[], certs=certs, withdrawals=withdrawals, voters=voters,
                witness_override=None, change=change, sign=True, plutus=plutus, potential=potential,
                input_addresses=input_addresses, outputs=outputs, collateral_change=collateral_change)


def corpus(U):
    """the three reproduced defects (fixed upstream of this check) must satisfy the oracle now; plus one fixed scenario per
    way a native script can reach the transaction without travelling in the witness set"""
    u0 = dict(txid='11' * 32, ix=0, pay=['k', U[0]['kh']], stake=None, coin=1000 * ADA)
    def base(**kw):
        d = dict(keys=U, supplied=[0], force=False, auto=None, utxos=[dict(u0)],
                 inputs=[0], collateral=[], required_signers=None, native_scripts=None, attached=[], extra_refs=[], certs=[],
                 withdrawals=[], voters=[], witness_override=None, change=['k', U[0]['kh']], sign=True)
        d.update(kw)
        return d
    nofk = base(supplied=[0, 1, 2], native_scripts=[['nofk', 1, [['pk', U[1]['kh']], ['all', [['pk', U[2]['kh']]]]]]])
    ns1 = ['all', [['pk', U[1]['kh']]]]
    att = base(supplied=[0, 1], attached=[dict(how='input', ns=ns1, via='witness', pass_obj=True, utxo=1)],
               utxos=[dict(u0), dict(txid='22' * 32, ix=1, pay=['s', ns_hash(ns1)], stake=None, coin=5 * ADA)], inputs=[0, 1])
    alias_idx = next(i for i, k in enumerate(U) if i > 0 and k['payload'] == U[0]['payload'])
    dup = base(supplied=[0, alias_idx])
    # multisig with an ordinary, an extended (U[14]) and an unavailable key, time-locked
    ms = ['all', [['pk', U[1]['kh']], ['nofk', 1, [['pk', U[14]['kh']], ['any', [['pk', U[5]['kh']]]]]], ['after', 500000]]]
    hm = ns_hash(ms)
    holder = dict(txid='41' * 32, ix=0, pay=['k', U[6]['kh']], stake=None, coin=20 * ADA, script=ms)
    locked = dict(txid='42' * 32, ix=0, pay=['s', hm], stake=None, coin=30 * ADA)
    sup = [15, 14, 0, 1, 6, 14]
    ref_spend = base(supplied=sup, utxos=[dict(u0), locked, holder], inputs=[0, 1],
                     attached=[dict(how='input', ns=ms, via='ref', pass_obj=False, utxo=1, ref_utxo=2)])
    ref_mint = base(supplied=sup, utxos=[dict(u0), holder], attached=[dict(how='mint', ns=ms, via='ref', ref_utxo=1)])
    ref_wd = base(supplied=sup, utxos=[dict(u0), holder], attached=[dict(how='withdrawal', ns=ms, via='ref', ref_utxo=1)], auto=True)
    ref_cert = base(supplied=sup, utxos=[dict(u0), holder], attached=[dict(how='cert', ns=ms, via='ref', ref_utxo=1)], auto=False)
    look = base(supplied=sup, utxos=[dict(u0), locked, dict(holder, pay=['s', hm])], inputs=[0, 1],
                attached=[dict(how='input', ns=ms, via='lookup', pass_obj=False, utxo=1, ref_utxo=2)])
    selfc = base(supplied=sup, utxos=[dict(u0), dict(locked, script=ms)], inputs=[0, 1],
                 attached=[dict(how='input', ns=ms, via='self', pass_obj=False, utxo=1)])
    # the same script shipped for one purpose and referenced for another; an unrelated script in a hand-made reference input
    other = ['any', [['pk', U[7]['kh']], ['pk', U[2]['kh']]]]
    mixed = base(supplied=sup + [7], utxos=[dict(u0), locked, holder, dict(txid='43' * 32, ix=3, pay=['k', U[8]['kh']], stake=None,
                                                                          coin=9 * ADA, script=other)],
                 inputs=[0, 1], extra_refs=[3],
                 attached=[dict(how='input', ns=ms, via='witness', pass_obj=True, utxo=1), dict(how='mint', ns=ms, via='ref', ref_utxo=2)])
    # forced keys the transaction does not need, listed after / between / before the needed one; no needed key at all
    f_after = base(supplied=[0, 5, 16], force=True)
    f_mid = base(supplied=[5, 0, alias_idx, 16], force=True)
    f_before = base(supplied=[16, 5, 0], force=True)
    tl = ['all', [['after', 100]]]
    f_none = base(supplied=[5, 16], force=True, utxos=[dict(txid='51' * 32, ix=2, pay=['s', ns_hash(tl)], stake=None, coin=50 * ADA)],
                  attached=[dict(how='input', ns=tl, via='witness', pass_obj=True, utxo=0)], change=['k', U[5]['kh']])
    # Plutus spend, nothing else key-locked (or only an input too small to be collateral); the builder picks the collateral:
    # from the wallet at collateral_change_address (another key), at the change address, from potential inputs (two keys)
    pb = 'c10a' * 9
    ph = plutus_hash(2, pb)
    sutxo = dict(txid='61' * 32, ix=0, pay=['s', ph], stake=None, coin=20 * ADA, datum='hash')
    pl = dict(how='input', ver=2, body=pb, via='witness', mem=1000000, steps=300000000, utxo=0)
    def pbase(**kw):
        d = base(supplied=[0, 1, 2], utxos=[dict(sutxo)], inputs=[0], plutus=[dict(pl)], potential=[], input_addresses=[],
                 outputs=[[['k', U[0]['kh']], 5 * ADA]], collateral_change=None)
        d.update(kw)
        return d
    w1 = dict(txid='62' * 32, ix=1, pay=['k', U[1]['kh']], stake=None, coin=8 * ADA)
    w0 = dict(txid='63' * 32, ix=1, pay=['k', U[0]['kh']], stake=None, coin=7 * ADA)
    small0 = dict(txid='64' * 32, ix=0, pay=['k', U[0]['kh']], stake=None, coin=1600000)
    p_cc = pbase(utxos=[dict(sutxo), w1], collateral_change=['k', U[1]['kh']])
    p_change = pbase(utxos=[dict(sutxo), w0])
    p_small = pbase(utxos=[dict(sutxo), w1, small0], inputs=[0, 2], collateral_change=['k', U[1]['kh']])
    p_pot = pbase(utxos=[dict(sutxo), dict(w1, coin=2500000), dict(txid='65' * 32, ix=0, pay=['k', U[2]['kh']], stake=None, coin=2400000)],
                  potential=[1, 2])
    p_ref = pbase(utxos=[dict(sutxo), w1, dict(txid='66' * 32, ix=4, pay=['k', U[6]['kh']], stake=None, coin=12 * ADA, pscript=[2, pb])],
                  plutus=[dict(pl, via='ref', ref_utxo=2)], collateral_change=['k', U[1]['kh']])
    # plain payment that needs coin selection from the wallet of another key
    sel = base(supplied=[0, 1], utxos=[dict(u0, coin=10 * ADA), dict(w1, coin=40 * ADA)], outputs=[[['k', U[5]['kh']], 30 * ADA]],
               input_addresses=[['k', U[1]['kh']]])
    return [nofk, att, dup, ref_spend, ref_mint, ref_wd, ref_cert, look, selfc, mixed,
            f_after, f_mid, f_before, f_none, p_cc, p_change, p_small, p_pot, p_ref, sel]


# ---------------------------------------------------------------- Coq rendering
def hx(h):
    return f'(hx "{h}")'


def r_cred(c):
    if c[0] == 'k':
        return f'KeyH {hx(c[1])}'
    if c[0] == 's':
        return f'ScriptH {hx(c[1])}'
    raise ValueError(c)


def r_ns(ns):
    k = ns[0]
    if k == 'pk':
        return f'NsPubkey {hx(ns[1])}'
    if k == 'all':
        return 'NsAll ' + C.clist([r_ns(x) for x in ns[1]])
    if k == 'any':
        return 'NsAny ' + C.clist([r_ns(x) for x in ns[1]])
    if k == 'nofk':
        return f'NsNofK {ns[1]}%N ' + C.clist([r_ns(x) for x in ns[2]])
    if k == 'before':
        return f'NsInvalidBefore {ns[1]}%N'
    return f'NsInvalidHereafter {ns[1]}%N'


CERT_NAMES = {0: 'StakeRegistration', 1: 'StakeDeregistration', 2: 'StakeDelegation', 7: 'StakeRegistrationConway',
              8: 'StakeDeregistrationConway', 9: 'VoteDelegation', 10: 'StakeAndVoteDelegation',
              11: 'StakeRegistrationAndDelegation', 12: 'StakeRegistrationAndVoteDelegation',
              13: 'StakeRegistrationAndDelegationAndVoteDelegation', 15: 'ResignCommitteeColdCertificate',
              16: 'RegDRepCert', 17: 'UnregDRepCertificate', 18: 'UpdateDRepCertificate'}


def r_cert(c):
    code = c['code']
    if code == 3:
        return f'PoolRegistration {hx(c["operator"])} ' + C.clist([hx(o) for o in c['owners']])
    if code == 4:
        return f'PoolRetirement {hx(c["pool"])}'
    if code == 14:
        return f'AuthCommitteeHotCertificate ({r_cred(c["cold"])}) ({r_cred(c["hot"])})'
    if code == 15:
        return f'ResignCommitteeColdCertificate ({r_cred(c["cold"])})'
    return f'{CERT_NAMES[code]} ({r_cred(c["cred"])})'


def r_voter(v):
    if v['kind'] == 'spo':
        return f'VoterPool {hx(v["cred"][1])}'
    return ('VoterCommitteeHot' if v['kind'] == 'cc' else 'VoterDRep') + f' ({r_cred(v["cred"])})'


def scenario_scripts(sc):
    """every native script that occurs in the scenario (field, attached, carried by a UTxO)"""
    l = list(sc['native_scripts'] or []) + [a['ns'] for a in sc['attached']] + [u['script'] for u in sc['utxos'] if u.get('script') is not None]
    seen, out = set(), []
    for ns in l:
        k = json.dumps(ns)
        if k not in seen:
            seen.add(k); out.append(ns)
    return out


def r_bdesc(sc):
    att = sc['attached']
    ins = [r_cred(sc['utxos'][i]['pay']) for i in sc['inputs']]
    col = [r_cred(sc['utxos'][i]['pay']) for i in sc['collateral']]
    certs = [r_cert(c) for c in sc['certs']] + [f'StakeDelegation (ScriptH {hx(ns_hash(a["ns"]))})' for a in att if a['how'] == 'cert']
    wds = [r_cred(w['cred']) for w in sc['withdrawals']] + [f'ScriptH {hx(ns_hash(a["ns"]))}' for a in att if a['how'] == 'withdrawal']
    wo = 'None' if sc['witness_override'] is None else f'(Some {sc["witness_override"]}%N)'
    refs = [r_ns(a['ns']) for a in att if a.get('via', 'witness') in ('ref', 'lookup')]
    in_scripts = [r_ns(sc['utxos'][i]['script']) for i in sc['inputs'] if sc['utxos'][i].get('script') is not None]
    ref_utxos = []
    for a in att:
        if a.get('via', 'witness') in ('ref', 'lookup') and a['ref_utxo'] not in ref_utxos:
            ref_utxos.append(a['ref_utxo'])
    for i in sc.get('extra_refs', []):
        if i not in ref_utxos:
            ref_utxos.append(i)
    refin_scripts = [r_ns(sc['utxos'][i]['script']) for i in ref_utxos if sc['utxos'][i].get('script') is not None]
    mint = [hx(ns_hash(a['ns'])) for a in att if a['how'] == 'mint']
    pls = sc.get('plutus', [])
    def ph(a):
        return plutus_hash(a['ver'], a['body'])
    mint += [hx(ph(a)) for a in pls if a['how'] == 'mint']
    certs += [f'StakeDelegation (ScriptH {hx(ph(a))})' for a in pls if a['how'] == 'cert']
    wds += [f'ScriptH {hx(ph(a))}' for a in pls if a['how'] == 'withdrawal']
    pl_all = sorted({ph(a) for a in pls})
    pl_ref = sorted({ph(a) for a in pls if a['via'] == 'ref'})
    return ('(mkB ' + C.clist(ins) + ' ' + C.clist(col) + ' ' + C.clist([hx(h) for h in (sc['required_signers'] or [])]) + ' '
            + C.clist([r_ns(n) for n in (sc['native_scripts'] or [])]) + ' ' + C.clist([r_ns(a['ns']) for a in att]) + ' '
            + C.clist(refs) + ' ' + C.clist(in_scripts) + ' ' + C.clist(refin_scripts) + ' ' + C.clist(mint) + ' '
            + C.clist(certs) + ' ' + C.clist(wds) + ' ' + C.clist([r_voter(v) for v in sc['voters']]) + ' ' + wo + ' '
            + r_hexlist(pl_all) + ' ' + r_hexlist(pl_ref) + ')')


META = {('ord', 'plain'): 0, ('ord', 'payment'): 1, ('ord', 'stake'): 2, ('ord', 'pool'): 3,
        ('ext', 'plain'): 10, ('ext', 'payment'): 11, ('ext', 'stake'): 12}


def r_skey(k):
    return ('SkOrd ' if k['kind'] == 'ord' else 'SkExt ') + hx(k['payload']) + f' {META[(k["kind"], k["cls"])]}%N'


def r_pairs(ps):
    return C.clist([f'({hx(a)}, {hx(b)})' for a, b in ps])


def r_hexlist(l):
    return C.clist([hx(h) for h in l])


def r_auto(a):
    return 'None' if a is None else ('(Some true)' if a else '(Some false)')


def post(sc, res):
    """independent post-processing of the implementation's transaction: slice, hash, verify, reference signatures"""
    if 'tx' not in res:
        return None
    tx = bytes.fromhex(res['tx'])
    U = sc['keys']
    try:
        body, wits, off = slice_tx(tx)
    except Exception as e:
        return dict(tx=tx, slice_error=f'{type(e).__name__}: {e}', body=b'', off=0, txid=b'', wits=[], verif=[], sigs=[])
    txid = b256(body)
    verif = [((vk, txid, sg), bool(E.verify(vk, txid, sg))) for vk, sg in wits]
    sigs = {}
    for i in set(sc['supplied']):
        k = U[i]; p = bytes.fromhex(k['payload'])
        if k['kind'] == 'ord':
            if p not in sigs:
                sigs[p] = E.sign(p, txid)
        elif p[:64] not in sigs:
            sigs[p[:64]] = E.sign_extended(p[:32], p[32:64], txid)
    return dict(tx=tx, body=body, off=off, txid=txid, wits=wits, verif=verif, sigs=sorted(sigs.items()),
                sel_inputs=res.get('sel_inputs', []), sel_collateral=res.get('sel_collateral', []),
                req_post=res.get('req_post', []))


def _post(cr):
    c, r = cr
    return None if 'driver_error' in r else post(c, r)


def r_case(sc, res, pp):
    U = sc['keys']
    keys = [U[i] for i in sc['supplied']]
    s = res['slice']
    sl = ('(mkSlice ' + ' '.join(r_hexlist(s[k]) for k in ('required_signers', 'inputs', 'certs', 'votes', 'withdrawals', 'native', 'required'))
          + f' {s["witness_count"]}%N ' + r_pairs(s['fake']) + ' ' + r_hexlist(s['all_scripts']) + ' ' + r_hexlist(s['scripts']) + ')')
    table = C.clist([f'(({hx(u["txid"])}, {u["ix"]}%N), ({r_cred(u["pay"])}, '
                     + ('None' if u.get('script') is None else f'Some ({r_ns(u["script"])})') + ', '
                     + ('None' if u.get('pscript') is None else f'Some ({u["pscript"][0]}%N, {hx(u["pscript"][1])})') + '))'
                     for u in sc['utxos']])
    ppar = '(mkPP ' + ' '.join(f'{int(x)}%N' for x in res['pp']) + ')'
    def r_outpoints(l):
        return C.clist([f'({hx(t)}, {ix}%N)' for t, ix in l])
    pubs = sorted({(k['payload'], k['vk']) for k in keys if k['kind'] == 'ord'})
    h28 = {(k['vk'], k['kh']) for k in keys}
    h28 |= {((b'\x00' + ns_enc(ns)).hex(), ns_hash(ns)) for ns in scenario_scripts(sc)}
    h28 |= {(bytes([a['ver']]).hex() + a['body'], plutus_hash(a['ver'], a['body'])) for a in sc.get('plutus', [])}
    if pp:
        h28 |= {(vk.hex(), b224(vk).hex()) for vk, _ in pp['wits']}
        signed = ('(Some (mkSigned ' + hx(pp['tx'].hex()) + f' {pp["off"]}%N {len(pp["body"])}%N ' + hx(pp['txid'].hex()) + ' '
                  + r_hexlist(res.get('req_post', [])) + f' {res.get("n_fake_post", 0)}%N ' + r_outpoints(res.get('sel_inputs', [])) + ' '
                  + r_outpoints(res.get('sel_collateral', [])) + ' ' + r_pairs([(a.hex(), b.hex()) for a, b in pp['sigs']]) + ' '
                  + C.clist([f'(({hx(v.hex())}, {hx(m.hex())}, {hx(g.hex())}), {C.cbool(ok)})' for (v, m, g), ok in pp['verif']]) + '))')
    else:
        signed = 'None'
    return ('(mkCase ' + r_bdesc(sc) + ' ' + C.clist([r_skey(k) for k in keys]) + ' ' + r_auto(sc['auto']) + ' ' + C.cbool(sc['force'])
            + ' ' + table + ' ' + ppar + ' ' + r_hexlist([k['kh'] for k in keys]) + ' ' + r_pairs(pubs) + ' ' + r_pairs(sorted(h28)) + ' ' + sl
            + ' ' + C.cbool(bool(sc.get('sign', True))) + ' ' + signed + ')')


_HX = re.compile(r'\(hx "([0-9a-f]*)"\)')


def intern(txt):
    """bind byte strings that occur several times in a case to let-variables (elaborating literals dominates the run time)"""
    cnt = {}
    for m in _HX.finditer(txt):
        cnt[m.group(1)] = cnt.get(m.group(1), 0) + 1
    names = {h: f'b{i}_' for i, h in enumerate(sorted(h for h, n in cnt.items() if n >= 2 and len(h) >= 16))}
    if not names:
        return txt
    body = _HX.sub(lambda m: names.get(m.group(1), m.group(0)), txt)
    return '(' + ''.join(f'let {v} := hx "{h}" in ' for h, v in names.items()) + body + ')'


def render(items):
    body = 'Definition cases : list (nat * c10_case) :=\n' + C.clist([f'({i}%nat, {txt})' for i, txt in items]) + '.\n'
    body += 'Eval vm_compute in (map fst (filter (fun c => negb (c10_corr (snd c))) cases)).\n'
    body += 'Eval vm_compute in (map fst (filter (fun c => negb (c10_oracle_case (snd c))) cases)).\n'
    return body


def evaluate(cases, results, posts, budget=100000):
    """returns (mismatch_idx, oracle_idx, errors); shards are cut by literal size (elaboration of the literals dominates)"""
    mism, ofail, errs = set(), set(), []
    texts = []
    for i, (c, r) in enumerate(zip(cases, results)):
        if 'driver_error' in r:
            mism.add(i)
        else:
            texts.append((i, intern(r_case(c, r, posts[i]))))
    texts.sort(key=lambda t: -len(t[1]))
    nsh = max(1, sum(len(t) for _, t in texts) // budget + 1)
    bins = [[0, []] for _ in range(nsh)]
    for i, t in texts:                                  # greedy balance
        b = min(bins, key=lambda x: x[0])
        b[0] += len(t); b[1].append((i, t))
    shards, maps = [], []
    for _, part in bins:
        if part:
            shards.append(render([(j, t) for j, (i, t) in enumerate(part)]))
            maps.append([i for i, _ in part])
    for (ok, lists, log), mp in zip(C.run_cases(PID, shards, HEADER), maps):
        if not ok or len(lists) != 2:
            errs.append(log[-1500:])
            continue
        mism.update(mp[j] for j in lists[0]); ofail.update(mp[j] for j in lists[1])
    return mism, ofail, errs


def classify(sc, res, pp):
    """which clause of the property the implementation's transaction breaks (diagnosis only; the verdict is Coq's)"""
    if 'driver_error' in res:
        return 'exception'
    U = sc['keys']
    if sc['witness_override'] is None and not all(len(v) == 64 and len(g) == 128 for v, g in res['slice']['fake']):
        return 'placeholder-size'
    if not pp:
        return 'placeholder-count' if 'err' not in res else 'no-transaction:' + str(res.get('err'))
    if pp.get('slice_error'):
        return 'unparsable-transaction'
    if any(len(vk) != 32 or len(sg) != 64 for vk, sg in pp['wits']):
        return 'witness-size'
    if any(not ok for _, ok in pp['verif']):
        return 'signature-invalid'
    if len({vk for vk, _ in pp['wits']}) != len(pp['wits']):
        return 'duplicate-witness'
    got = {b224(vk).hex() for vk, _ in pp['wits']}
    sup = {U[i]['kh'] for i in sc['supplied']}
    if not got <= sup:
        return 'witness-of-unsupplied-key'
    if sc['force']:
        return 'forced-key-missing' if got != sup else 'placeholder-count'
    if got <= set(res.get('req_post', [])) and (sup & set(res.get('req_post', []))) <= got:
        return 'required-set-or-placeholder-count'       # the witnesses follow the builder's set: that set (or the count) is off
    return 'witness-set'


def features(sc, pp):
    f = []
    for k in ('collateral', 'certs', 'withdrawals', 'voters', 'attached'):
        if sc[k]:
            f.append(k)
    for a in sc['attached']:
        t = 'via:' + a.get('via', 'witness') + '/' + a['how']
        if t not in f:
            f.append(t)
    if len({json.dumps(a['ns']) for a in sc['attached']}) < len(sc['attached']):
        f.append('script-twice')
    if sc.get('extra_refs'):
        f.append('hand-made-reference-input')
    if sc['required_signers']:
        f.append('required_signers')
    if sc['native_scripts']:
        f.append('native_scripts')
    if len(sc['inputs']) > 1:
        f.append('inputs>1')
    U = sc['keys']
    kinds = {U[i]['kind'] for i in sc['supplied']}
    f += ['key:' + k for k in sorted(kinds)]
    if len(set(sc['supplied'])) < len(sc['supplied']):
        f.append('dup-object')
    if len({U[i]['kh'] for i in sc['supplied']}) < len(set(sc['supplied'])):
        f.append('dup-keypair')
    if sc['force']:
        f.append('force')
    f.append('auto:' + str(sc['auto']))
    if sc['witness_override'] is not None:
        f.append('witness_override')
    for a in sc.get('plutus', []):
        for t in ('plutus', f'plutus:V{a["ver"]}', 'plutus:' + a['via'] + '/' + a['how']):
            if t not in f:
                f.append(t)
    for k in ('potential', 'input_addresses', 'outputs', 'collateral_change'):
        if sc.get(k):
            f.append(k)
    if pp is not None:
        f.append(f'witnesses:{min(len(pp["wits"]), 6)}')
        if len(pp['wits']) < len({U[i]['kh'] for i in sc['supplied']}):
            f.append('unrelated-key-left-out')
        if sc['force']:
            got = {b224(vk).hex() for vk, _ in pp['wits']}
            order = [U[i]['kh'] for i in sc['supplied']]
            need = [j for j, h in enumerate(order) if h in set(pp.get('req_post', []))]
            if any(j > max(need, default=-1) for j, h in enumerate(order) if h not in set(pp.get('req_post', []))):
                f.append('forced-unneeded-key-after-last-needed')
            if not need:
                f.append('forced-no-needed-key')
        where = {(u['txid'], u['ix']): u for u in sc['utxos']}
        if pp.get('sel_inputs'):
            f.append('coin-selection-added-inputs')
        if pp.get('sel_collateral'):
            f.append(f'builder-picked-collateral:{len(pp["sel_collateral"])}')
            other = {where[(t, ix)]['pay'][1] for t, ix in pp['sel_collateral']}
            ins = {sc['utxos'][i]['pay'][1] for i in sc['inputs']} | {where[(t, ix)]['pay'][1] for t, ix in pp.get('sel_inputs', [])}
            if not other <= (ins | set(sc['required_signers'] or [])):
                f.append('picked-collateral-key-not-otherwise-required')
    return f


def run(ctx, cases):
    results = C.run_impl('witness_driver', {'cases': cases}, nshards=min(C.NPROC, max(1, len(cases) // 12)))
    todo = [(c, r) for c, r in zip(cases, results)]
    if len(todo) > 8:
        from concurrent.futures import ProcessPoolExecutor
        with ProcessPoolExecutor(max_workers=8) as ex:
            posts = list(ex.map(_post, todo, chunksize=8))
    else:
        posts = [_post(x) for x in todo]
    mism, ofail, errs = evaluate(cases, results, posts)
    return results, posts, mism, ofail, errs


def strip(sc):
    d = dict(sc); d['keys'] = [dict(k) for k in sc['keys']]
    return d


def merge_variant(rng, sc):
    """one signed scenario in four pays its own change address and asks for merge_change: the change is folded into that output
    (same required keys; the body that is signed must be the body that is shipped)"""
    if sc.get('sign') and sc.get('change') and rng.random() < 0.25:
        sc['outputs'] = list(sc.get('outputs') or []) + [[sc['change'], rng.choice([2, 3, 5]) * ADA]]
        sc['merge'] = True
    return sc


def correspond(ctx, n_sign=None, n_slice=None, n_build=None):
    n_sign = n_sign or ctx.n(120, 4000)
    n_slice = n_slice or ctx.n(90, 6000)
    n_build = n_build or ctx.n(64, 3000)
    U, alias = universe(ctx.rng)
    cases = corpus(U)
    cases += [merge_variant(ctx.rng, A.lookalike_ids(ctx.rng, gen_scenario(ctx.rng, U, alias, i, True, complete=i % 3 == 0))) for i in range(n_sign)]
    cases += [merge_variant(ctx.rng, A.lookalike_ids(ctx.rng, gen_build_scenario(ctx.rng, U, alias, i))) for i in range(n_build)]
    cases += [A.lookalike_ids(ctx.rng, gen_scenario(ctx.rng, U, alias, i, False)) for i in range(n_slice)]
    results, posts, mism, ofail, errs = run(ctx, cases)
    if errs:
        raise RuntimeError('cases file failed to compile: ' + errs[0])
    hist, cert_hist, err_hist = {}, {}, {}
    for c, r, p in zip(cases, results, posts):
        for f in features(c, p):
            hist[f] = hist.get(f, 0) + 1
        for x in c['certs']:
            cert_hist[x['code']] = cert_hist.get(x['code'], 0) + 1
        if 'err' in r:
            err_hist[r['err']] = err_hist.get(r['err'], 0) + 1
    def nontrivial(c, p):
        return p is not None and len(p['wits']) >= 1 and len(features(c, p)) >= 5
    def light(c):
        d = {k: v for k, v in c.items() if k != 'keys'}
        d['supplied_keys'] = [{k: c['keys'][i][k] for k in ('kind', 'cls', 'kh')} for i in c['supplied']]
        return d
    distinct = len({C.canon_hash(light(c)) for c, p in zip(cases, posts) if nontrivial(c, p)})
    def pack(i):
        pp = posts[i]
        impl = dict(results[i])
        if pp:
            impl['witness_checks'] = [dict(vk=v.hex(), msg=m.hex(), sig=g.hex(), rfc8032_ok=ok) for (v, m, g), ok in pp['verif']]
        return {'input': strip(cases[i]), 'impl': impl, 'region': classify(cases[i], results[i], pp)}
    known_hits = {}
    new_fail = []
    for i in sorted(ofail):
        reg = classify(cases[i], results[i], posts[i])
        if reg in KNOWN_REGIONS:
            known_hits[reg] = known_hits.get(reg, 0) + 1
        else:
            new_fail.append(i)
    n_w = sum(len(p['wits']) for p in posts if p)
    return dict(
        evaluations=len(cases), distinct_nontrivial=distinct,
        rule='scenario = real TransactionBuilder prepared with credentials from a random subset of {key/script inputs, collateral, '
             'required signers, nested native scripts (field), native scripts attached by add_script_input/add_minting_script/'
             'add_withdrawal_script/add_certificate_script and supplied as object / separate reference UTxO / in the spent UTxO / by '
             'context lookup, the same script for two purposes, hand-made reference inputs with unrelated or copied scripts, 17 certificate kinds, key/script withdrawals, cc/drep/spo voters}, hashes drawn '
             'from a universe of 14 ordinary + 9 extended keys (+ the same key pairs as other classes / extended form) or random; signing '
             'keys = pool keys, unrelated keys, duplicate objects, aliases of one key pair; force_skeys, auto_required_signers in '
             '{None,True,False}, witness_override; a third of the signed scenarios complete (every hash belongs to a supplied key, unrelated keys '
             'anywhere in the list); build scenarios: Plutus V1-V3 spend/mint/withdraw/certificate scripts shipped or referenced, explicit '
             'execution units, collateral given or picked by the builder from inputs / potential inputs / the wallet at the change or a separate '
             'collateral_change_address (1-3 UTxOs, keys required otherwise or not, script-locked and too-small candidates in between), key '
             'inputs absent / <= 2 ADA / ordinary, outputs that need coin selection from input addresses / potential inputs. non-trivial = signed transaction with >=1 witness and >=5 features; distinct by hash',
        samples=[light(cases[3]), light(cases[len(cases) // 2])],
        feature_histogram=dict(sorted(hist.items())), certificate_kind_histogram=dict(sorted(cert_hist.items())),
        exception_histogram=err_hist, signed_transactions=sum(1 for p in posts if p), witnesses_verified=n_w,
        slice_only_cases=sum(1 for c in cases if not c['sign']),
        known_region_hits=known_hits,
        compared='slice: all_scripts / scripts (by script hash), 6 collectors + union + _witness_count + placeholder witnesses (exact) on the '
                 'prepared builder; end to end: shipped native scripts, reference/spent-output scripts and needed script hashes of tx = model; '
                 'witness set of tx = model with reference signatures (byte exact), required set after build, ledger view read from the tx '
                 '= scenario; oracle: RFC 8032 verification of every witness over blake2b-256(body slice), sizes, no duplicate key, witness '
                 'hashes = supplied /\\ Ledger.required(tx) (all supplied when forced; legacy registration key tolerated); builder after build '
                 '(selected inputs, picked collateral, required set, placeholder count, Plutus scripts shipped) = model; fee of the body within '
                 '[min_fee(tx with #distinct required placeholders), min_fee(... tolerated count) + margin]',
        mismatches=[pack(i) for i in sorted(mism)[:20]],
        oracle_fail=[pack(i) for i in new_fail[:50]],
    )


def search(ctx, mism):
    ctx.rng.seed(f'search-{ctx.seed}')
    r = correspond(ctx, 300 if ctx.quick else 6000, 150 if ctx.quick else 3000, 150 if ctx.quick else 3000)
    if r['oracle_fail']:
        return min(r['oracle_fail'], key=lambda f: len(json.dumps(f, default=str)))
    return None


def replay(ctx, rep):
    case = rep['case']['input']
    results, posts, mism, ofail, errs = run(ctx, [case])
    print('input:', json.dumps({k: v for k, v in case.items() if k != 'keys'}))
    print('supplied keys:', json.dumps([case['keys'][i] for i in case['supplied']]))
    print('implementation:', json.dumps(results[0]))
    if posts[0]:
        for (v, m, g), ok in posts[0]['verif']:
            print('witness vk=%s msg=%s sig=%s rfc8032_ok=%s' % (v.hex(), m.hex(), g.hex(), ok))
    if errs:
        print(errs[0])
    print('model agrees:', 0 not in mism, ' property oracle holds:', 0 not in ofail)
    return 1 if (ofail or errs) else 0
