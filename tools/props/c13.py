"""C13 — collateral is adequate, key-locked and balanced."""
import hashlib, json, math
from lib import common as C
from props import alike as A

PID = 'C13'
TARGETS = ['props/C13.vo', 'theories/CollateralOracle.vo']
LEVEL = 'proof'

MANIFEST = dict(
    text='Coq: (a) the ledger collateral rule as a boolean spec collateral_ok (1..max distinct key-locked inputs, '
         '100*(sum - return) >= percent*fee, = total_collateral when declared, return carries every token and its min ADA); '
         '(b) clause-by-clause model of TransactionBuilder._set_collateral_return/_should_add_collateral_return, incl. its gate '
         '(all_scripts/scripts dict semantics over the builder\'s five script tables and _reference_scripts, witness-set classes); '
         '(c) theorems for ALL candidate lists/values/parameters: whenever the model finishes without error on a Plutus '
         'transaction with a return address, collateral_ok holds for every fee <= max_tx_fee + fee_buffer; chosen inputs are '
         'distinct, key-locked, > 2 ADA, from the permitted pools, at most max_collateral_inputs; otherwise an explicit error; '
         'the gate opens whenever a Plutus script is executed for any purpose however supplied (gate_complete) and only for a '
         'Plutus or reference script (gate_sound). '
         'Tie: exact correspondence of every recorded call of the real method (slice calls and calls inside build()) with the '
         'model (script tables read from the builder, cross-checked against what the scenario put in), and collateral_ok '
         'evaluated in Coq on the CBOR body returned by build(), its premise "runs Plutus scripts" decided in Coq from the '
         'redeemers of the witness set CBOR; calls on a builder that was built or refused before (retry, session) included: '
         'what this call does not set is absent from the body (defect C13-stale-return-of-earlier-build, repaired).',
    note='Trusted: Coq kernel+vm_compute; hand model Collateral.v tied by correspondence; max_tx_fee taken as datum from utils '
         '(C07); UTxO map functional; evaluate_tx answers within max_tx_ex_*; generator/driver. No axioms.',
    technique='Coq proof (induction over the candidate loop, Value content algebra) + slice and end-to-end correspondence',
    ref='C13')
TRUSTED = [
    'Coq 8.16.1 kernel incl. vm_compute (no native_compute); no axioms (see Print Assumptions lines)',
    'hand model coq/theories/Collateral.v of txbuilder._set_collateral_return/_should_add_collateral_return/'
    'utils.min_lovelace_post_alonzo (return output), tied by exact correspondence on every recorded call',
    'max_tx_fee(context, ref_script_size) is taken from the implementation as a datum (utils.fee belongs to C07)',
    'script hashes and classes in the recorded script tables are read from the builder\'s objects (script_hash is not recomputed in Coq)',
    'tools/impl/collateral_driver.py (wrapper recording the state read/written by the method), tools/props/c13.py',
]
ASSUMPTIONS = [
    'the UTxO map is a function: equal transaction inputs resolve to equal outputs (UTxO equality = input equality)',
    'UTxOs sit at payment addresses (header types 0..7); amounts are non-negative',
    'fee <= max_tx_fee + fee_buffer: the builder refuses transactions larger than max_tx_size; the sum of redeemer '
    'execution units is within max_tx_ex_mem/steps (evaluate_tx answers are generated within the limits; a transaction '
    'above them is rejected by another ledger rule)',
    'collateral_percent > 0 for the "at least one collateral input" clause',
]
# regions of confirmed-and-reported defects that are kept out of oracle_fail until they are fixed in /repo
KNOWN_REGIONS = []

NPOL = ['a1' * 28, 'b2' * 28, 'c3' * 28]
NAMES = ['', '746f6b', '41' * 32, '0102']
SCRIPT_BYTES = bytes.fromhex('4e4d01000033222220051200120011')
PP_DEFAULT = dict(min_fee_constant=155381, min_fee_coefficient=44, max_tx_size=16384, price_mem=0.0577,
                  price_step=0.0000721, max_tx_ex_mem=10000000, max_tx_ex_steps=10000000000,
                  collateral_percent=150, max_collateral_inputs=3, coins_per_utxo_byte=4310)


# ------------------------------------------------------------------ scenario generation
def h28(x):
    return hashlib.blake2b(x, digest_size=28).digest()


def script_hash(s):
    b = bytes.fromhex(s['bytes'])
    if s['kind'] == 'native':
        return h28(b'\x00' + b'\x82\x00\x58\x1c' + b)
    return h28(bytes([{'v1': 1, 'v2': 2, 'v3': 3}[s['kind']]]) + b)


def mk_addr(typ, pay, rng):
    """raw testnet address bytes of the given header type"""
    hdr = bytes([typ << 4])
    if typ in (0, 1):
        return hdr + pay + bytes([0x5a]) * 28
    if typ in (2, 3):
        return hdr + pay + bytes([0x5b]) * 28
    if typ in (4, 5):
        return hdr + pay + bytes([rng.randint(1, 127), rng.randint(0, 127), rng.randint(0, 127)])
    return hdr + pay


STEEP = {'base': 9000, 'range': 100, 'multiplier': 1.2}     # reference-script fee schedule that makes small scripts expensive


def tier_fee(size, base=44, rng_=25600, mult=1.2):
    total, b = 0.0, base
    while size > rng_:
        total += b * rng_; size -= rng_; b *= mult
    return math.ceil(total + b * size) if size else math.ceil(total)


def approx_amount(pp, fee_buffer, ref_size):
    p = dict(PP_DEFAULT); p.update(pp)
    sched = p.get('min_fee_reference_scripts') or {'base': 44, 'range': 25600, 'multiplier': 1.2}
    mf = (math.ceil(p['max_tx_size'] * p['min_fee_coefficient']) + math.ceil(p['min_fee_constant'])
          + math.ceil(p['max_tx_ex_steps'] * p['price_step']) + math.ceil(p['max_tx_ex_mem'] * p['price_mem'])
          + tier_fee(ref_size, sched['base'], sched['range'], sched['multiplier']))
    return -(-(mf + (fee_buffer or 0)) * p['collateral_percent'] // 100)


def rand_assets(rng, heavy=False):
    r = rng.random()
    if r < 0.65 and not heavy:
        return []
    npol = 1 if r < 0.85 else rng.randint(1, 3)
    out = []
    for p in rng.sample(NPOL, npol):
        names = rng.sample(NAMES, rng.randint(1, 3 if heavy else 2))
        out.append([p, [[n, rng.choice([1, 1, 2, 1000, 2 ** 32, 2 ** 63 - 1])] for n in names]])
    return out


def rand_pp(rng):
    pp = {}
    if rng.random() < 0.5:
        pp['collateral_percent'] = rng.choice([1, 50, 99, 100, 101, 150, 175, 200, 1000])
    if rng.random() < 0.5:
        pp['max_collateral_inputs'] = rng.choice([1, 1, 2, 3, 4, 5])
    if rng.random() < 0.3:
        pp['coins_per_utxo_byte'] = rng.choice([0, 1000, 4310, 34482])
    if rng.random() < 0.3:
        pp['min_fee_constant'] = rng.choice([0, 155381, 155382, 1000000, 155381 + 7])
    if rng.random() < 0.2:
        pp['max_tx_size'] = rng.choice([16384, 16385, 8192, 32768])
    if rng.random() < 0.35:
        pp['min_fee_reference_scripts'] = dict(STEEP)
    return pp


SPEND_KINDS = ('wit', 'native_wit', 'ref', 'ref_native', 'addr', 'self', 'self_native')
PLUTUS_KINDS = ('wit', 'ref', 'addr', 'self', 'mint', 'mint_ref', 'wdrl', 'wdrl_ref', 'cert', 'cert_ref')


def purpose_of(kind):
    return 'spend' if kind in SPEND_KINDS else kind.split('_')[0]


def uses_ref_utxo(t):
    """the script is taken from a reference UTxO other than the spent one (it lands in _reference_scripts)"""
    return t['kind'] in ('ref', 'ref_native', 'addr') or t['kind'].endswith('_ref')


def plutus_script(rng, variant=0, kinds=('v1', 'v2', 'v3'), sizes=(15,)):
    n = rng.choice(sizes)
    body = (SCRIPT_BYTES * (n // 15 + 1))[:n]
    if variant:
        body = body[:-1] + bytes([body[-1] ^ variant])
    return {'kind': rng.choice(kinds), 'bytes': body.hex()}


def rand_trigger(rng, slice_mode, variant=0, avoid=None, shared=None):
    """one script use: purpose (spend / mint / withdrawal / certificate) x how the script is supplied
    (script object in the witness set / separate reference UTxO / reference UTxO discovered at the script address /
    the spent UTxO's own output.script) x script class (Plutus V1-V3 / native)."""
    ps = lambda **kw: dict(shared) if shared and rng.random() < 0.5 else plutus_script(rng, variant, **kw)
    for _ in range(20):
        r = rng.random()
        if r < 0.20:
            t = {'kind': 'wit', 'script': ps()}
        elif r < 0.31:
            t = {'kind': 'ref', 'script': ps(kinds=('v2', 'v3'), sizes=(15, 15, 120, 400))}
        elif r < 0.38:
            t = {'kind': 'addr', 'script': ps(kinds=('v2', 'v3'), sizes=(15, 120))}
        elif r < 0.56:
            t = {'kind': 'self', 'script': ps(sizes=(15, 15, 120, 400)), 'via': rng.choice(['none', 'none', 'script', 'refutxo'])}
        elif r < 0.64:
            t = {'kind': 'mint', 'script': ps(), 'qty': rng.choice([1, 5])}
        elif r < 0.70:
            t = {'kind': 'mint_ref', 'script': ps(kinds=('v2', 'v3')), 'qty': rng.choice([1, 5])}
        elif r < 0.75:
            t = {'kind': 'wdrl', 'script': ps(), 'amount': rng.choice([0, 0, 1500000])}
        elif r < 0.79:
            t = {'kind': 'wdrl_ref', 'script': ps(kinds=('v2', 'v3')), 'amount': rng.choice([0, 0, 1500000])}
        elif r < 0.83:
            t = {'kind': 'cert', 'script': ps()}
        elif r < 0.86:
            t = {'kind': 'cert_ref', 'script': ps(kinds=('v2', 'v3'))}
        elif not slice_mode:
            t = {'kind': rng.choice(['wit', 'self']), 'script': ps(), 'via': 'none'}
        elif r < 0.90:
            t = {'kind': 'ref_native', 'script': {'kind': 'native', 'bytes': '33' * 28}}
        elif r < 0.94:
            t = {'kind': 'native_wit', 'script': {'kind': 'native', 'bytes': '33' * 28}}
        elif r < 0.97:
            t = {'kind': 'self_native', 'script': {'kind': 'native', 'bytes': '33' * 28}, 'via': 'none'}
        else:
            t = {'kind': 'none'}
        p = purpose_of(t['kind'])
        if avoid is None or (t['kind'] != 'none' and (p == 'spend' or p not in avoid)):
            break
    if rng.random() < 0.3 and t['kind'] in PLUTUS_KINDS and avoid is None:
        t['eu'] = [rng.choice([0, 1000, 400000, 5000000]), rng.choice([0, 1000, 170000000, 4000000000])]
    return t


def rand_triggers(rng, slice_mode):
    """primary trigger + (sometimes) a second script use of another purpose or another spend; the second one uses the
    SAME script as the first half of the time (e.g. spent through a reference UTxO and minted with the script object)"""
    trig = rand_trigger(rng, slice_mode)
    extra = []
    if trig['kind'] != 'none' and rng.random() < 0.22:
        shared = trig['script'] if trig['script']['kind'] != 'native' else None
        e = rand_trigger(rng, slice_mode, variant=1, avoid={purpose_of(trig['kind'])}, shared=shared)
        extra.append(e)
    return trig, extra


def triggers(sc):
    return [sc['trigger']] + list(sc.get('extra', []))


def boundary_coin(rng, A, cpb):
    minl = (160 + 70) * cpb
    return max(0, rng.choice([
        A - 1, A, A + 1, A + 1000000, A + 1000001, A + 999999, A + minl, A + minl - 1, A + minl + 4310, A + 2000000,
        A // 2, A // 2 + 1, A // 3 + 1, A - 2000001, A - 2000000, 2000000, 2000001, 1999999, 2100000, 2500000,
        3000000, 5000000, 10000000, 100000000, 4294967296 + 5, A + 1500000, A + 3000001, 1000000, 0]))


class UGen:
    """builds the UTxO universe of a scenario"""
    def __init__(self, rng):
        self.rng, self.utxos, self.n = rng, [], 0

    def add(self, addr, coin, assets=(), dh=None, pa=False, script=None):
        self.n += 1
        tid = self.rng.choice([bytes([self.n]) * 32, bytes([7]) * 32])     # shared tx ids: index distinguishes
        ix = self.n if tid == bytes([7]) * 32 else self.rng.choice([0, 0, 1, 300])
        u = {'txid': tid.hex(), 'ix': ix, 'addr': addr.hex(), 'coin': coin, 'assets': list(assets), 'dh': dh, 'pa': pa}
        if script:
            u['script'] = script
        self.utxos.append(u)
        return len(self.utxos) - 1


def script_size(sd):
    return len(bytes.fromhex(sd['bytes'])) if sd['kind'] != 'native' else 32


def add_trigger_utxos(rng, g, trig, wallet):
    """script UTxO (and reference UTxO) that the trigger needs; returns the reference-script size it adds"""
    ref_size = 0
    k = trig['kind']
    if k == 'none':
        return 0
    if k in SPEND_KINDS:
        sh = script_hash(trig['script'])
        saddr = mk_addr(rng.choice([1, 3, 5, 7]), sh, rng)
        dh = None if trig['script']['kind'] == 'native' else rng.choice(['hash', 'inline'])
        own = k in ('self', 'self_native')
        trig['utxo'] = g.add(saddr, rng.choice([2500000, 5000000, 20000000]), rand_assets(rng) if rng.random() < 0.2 else [],
                             dh=dh, pa=(dh == 'inline') or own, script=trig['script'] if own else None)
        trig['saddr'] = saddr.hex()
        if own:
            ref_size += script_size(trig['script'])
    if uses_ref_utxo(trig) or trig.get('via') == 'refutxo':
        if k == 'addr':
            holder = bytes.fromhex(trig['saddr'])              # found by context.utxos(script address)
        else:
            holder = rng.choice([wallet, mk_addr(6, bytes([0x77]) * 28, rng)])
        trig['ref'] = g.add(holder, rng.choice([3000000, 30000000, 300000000]), [], pa=True, script=trig['script'])
        if uses_ref_utxo(trig):
            ref_size += script_size(trig['script'])
    return ref_size


def trigger_indices(sc_trigs):
    out = set()
    for t in sc_trigs:
        out.update(x for x in (t.get('utxo'), t.get('ref')) if x is not None)
    return out


def carrier_script(rng, trigs):
    """script attached to ORDINARY wallet UTxOs of the scenario (they may become inputs / collateral):
    the script of a trigger (so the witness set and an input hold the same script) or an unrelated one"""
    if rng.random() >= 0.3:
        return None
    with_script = [t['script'] for t in trigs if t.get('script')]
    if with_script and rng.random() < 0.7:
        return dict(rng.choice(with_script))
    return plutus_script(rng, variant=2)


def gen_slice(rng):
    pp = rand_pp(rng)
    fee_buffer = rng.choice([None, None, None, 0, 1000, 500000, 5000000])
    threshold = rng.choice([None, None, None, 0, 1000000, 1500000, 3000000, 10000000])
    trig, extra = rand_triggers(rng, True)
    wtype = rng.choice([0, 6, 6, 2, 4])
    wallet = mk_addr(wtype, bytes([0x11]) * 28, rng)
    other = mk_addr(rng.choice([0, 6]), bytes([0x22]) * 28, rng)
    foreign_script = mk_addr(rng.choice([1, 3, 5, 7]), bytes([0x99]) * 28, rng)
    g = UGen(rng)
    ref_size = sum(add_trigger_utxos(rng, g, t, wallet) for t in [trig] + extra)
    carrier = carrier_script(rng, [trig] + extra)
    cpb = pp.get('coins_per_utxo_byte', 4310)
    A = approx_amount(pp, fee_buffer, ref_size)
    r = rng.random()
    ret_addr = wallet if r < 0.85 else (foreign_script if r < 0.93 else None)
    n = rng.choice([0, 1, 1, 2, 2, 3, 3, 4, 5, 6, 8, 10])
    small = rng.random() < 0.3          # wallets of many small UTxOs: several collateral inputs needed
    for _ in range(n):
        a = rng.random()
        addr = wallet if a < 0.6 else (other if a < 0.75 else foreign_script)
        coin = rng.choice([2000001, 2100000, 2500000, A // 2 + 1, A // 3 + 1, 3000000]) if small else boundary_coin(rng, A, cpb)
        cs = carrier if carrier and rng.random() < 0.4 else None
        g.add(addr, coin, rand_assets(rng), dh=rng.choice([None] * 6 + ['hash', 'inline']) if addr == foreign_script else None,
              pa=rng.random() < 0.3 or bool(cs), script=cs)
    taken = trigger_indices([trig] + extra)
    free = [i for i in range(len(g.utxos)) if i not in taken]
    sc = {'mode': 'slice', 'pp': pp, 'fee_buffer': fee_buffer, 'threshold': threshold, 'trigger': trig, 'extra': extra,
          'utxos': g.utxos, 'ret_addr': ret_addr.hex() if ret_addr else None,
          'inputs': [i for i in free if rng.random() < 0.4],
          'potential': [i for i in free if rng.random() < 0.3],
          'collaterals': []}
    if rng.random() < 0.1 and free:                      # the same UTxO registered twice as input / potential input
        sc['inputs'].append(rng.choice(free)); sc['potential'].append(rng.choice(free))
    if rng.random() < 0.25 and free:
        k = rng.randint(1, 4)
        sc['collaterals'] = [rng.choice(free) for _ in range(k)]     # may repeat, may sit at script addresses
    if rng.random() < 0.15:
        sc['retry'] = True                               # a refused call with a poor collateral on the same builder first
    return sc


def gen_build(rng):
    pp = rand_pp(rng)
    pp.pop('max_tx_size', None)
    if pp.get('collateral_percent', 150) > 200:
        pp['collateral_percent'] = 200
    fee_buffer = rng.choice([None, None, None, 0, 1000, 500000, 5000000])
    threshold = rng.choice([None, None, None, 0, 1500000, 3000000])
    trig, extra = rand_triggers(rng, False)
    wallet = mk_addr(rng.choice([0, 6, 6, 2, 4]), bytes([0x11]) * 28, rng)
    other = mk_addr(rng.choice([0, 6]), bytes([0x22]) * 28, rng)
    g = UGen(rng)
    ref_size = sum(add_trigger_utxos(rng, g, t, wallet) for t in [trig] + extra)
    carrier = carrier_script(rng, [trig] + extra)
    cpb = pp.get('coins_per_utxo_byte', 4310)
    A = approx_amount(pp, fee_buffer, ref_size)
    small = rng.random() < 0.3
    n = rng.choice([1, 2, 3, 4, 6, 8])
    for _ in range(n):
        coin = rng.choice([2000001, 2100000, 2500000, A // 2 + 1, A // 3 + 1, 3000000]) if small else boundary_coin(rng, A, cpb)
        cs = carrier if carrier and rng.random() < 0.4 else None
        g.add(wallet if rng.random() < 0.85 else other, coin, rand_assets(rng), pa=rng.random() < 0.3 or bool(cs), script=cs)
    # money to pay for outputs and fee
    deployed = rng.random() < 0.15
    if deployed:
        # a wallet whose spendable UTxOs are the ones scripts were deployed on: whatever coin selection adds to the inputs
        # brings reference-script bytes the ledger charges for, AFTER the builder's first fee estimate
        pp['min_fee_reference_scripts'] = dict(STEEP) if rng.random() < 0.8 else {'base': 2000, 'range': 100, 'multiplier': 1.2}
        for k in range(rng.randint(3, 5)):
            g.add(wallet, rng.choice([8000000, 12000000, 20000000]) + k, [], pa=True,
                  script=plutus_script(rng, variant=3 + k, kinds=('v2', 'v3'), sizes=(120, 400, 400)))
    else:
        for _ in range(rng.choice([0, 1, 1, 2])):
            g.add(wallet, rng.choice([15000000, 40000000, 1000000000]), rand_assets(rng) if rng.random() < 0.3 else [])
    taken = trigger_indices([trig] + extra)
    free = [i for i in range(len(g.utxos)) if i not in taken]
    sc = {'mode': 'build', 'pp': pp, 'fee_buffer': fee_buffer, 'threshold': threshold, 'trigger': trig, 'extra': extra,
          'utxos': g.utxos, 'change': wallet.hex(), 'coll_change': None,
          'inputs': [i for i in free if rng.random() < 0.3], 'potential': [i for i in free if rng.random() < 0.2],
          'input_addresses': [wallet.hex()] if rng.random() < 0.8 else [],
          'collaterals': [], 'outputs': [], 'merge_change': rng.random() < 0.15,
          'ex_units': [rng.choice([0, 1000, 400000, 2000000, 4000000]), rng.choice([0, 1000, 170000000, 2000000000, 4000000000])]}
    # reference UTxOs that sit at the wallet address: usually kept out of coin selection (else they may also be spent)
    at_wallet = [t['ref'] for t in [trig] + extra if t.get('ref') is not None and g.utxos[t['ref']]['addr'] == wallet.hex()]
    if at_wallet and rng.random() < 0.7:
        sc['excluded'] = at_wallet
    for _ in range(rng.choice([0, 1, 1, 2])):
        sc['outputs'].append({'addr': rng.choice([wallet, other]).hex(), 'coin': rng.choice([1500000, 3000000, 10000000]), 'assets': []})
    if deployed:
        sc['inputs'], sc['input_addresses'] = [i for i in sc['inputs'] if 'script' not in g.utxos[i]], [wallet.hex()]
        sc['outputs'].append({'addr': other.hex(), 'coin': rng.choice([9000000, 15000000, 25000000]), 'assets': []})
    r = rng.random()
    if r < 0.12:
        sc['coll_change'] = other.hex()
    elif r < 0.17:
        sc['change'] = None
    if rng.random() < 0.2 and free:
        sc['collaterals'] = [rng.choice(free) for _ in range(rng.randint(1, 3))]
    if rng.random() < 0.25:
        if not sc['collaterals'] and free and rng.random() < 0.6:
            sc['collaterals'] = rng.sample(free, min(len(free), rng.randint(2, 3)))
        sc['session'] = True                      # second build of a wallet session re-using the UTxO objects of the first
    elif rng.random() < 0.25:
        sc['retry'] = True                        # a refused attempt on the same builder (poor collateral), then the scenario's
    return sc


def corpus():
    """the witnesses of the defects found while building this check (fixed since): must satisfy the oracle or be refused"""
    class R:                                           # deterministic stand-in for rng in mk_addr
        def randint(self, a, b): return a
    w = mk_addr(6, bytes([0x11]) * 28, R())
    other = mk_addr(6, bytes([0x22]) * 28, R())
    v2 = {'kind': 'v2', 'bytes': SCRIPT_BYTES.hex()}
    saddr = mk_addr(7, script_hash(v2), R())
    def U(i, addr, coin, **kw):
        d = {'txid': (bytes([i]) * 32).hex(), 'ix': 0, 'addr': addr.hex(), 'coin': coin, 'assets': [], 'dh': None, 'pa': False}
        d.update(kw); return d
    out = []
    base = dict(mode='build', pp={}, fee_buffer=None, threshold=None, change=w.hex(), coll_change=None, inputs=[], potential=[],
                input_addresses=[w.hex()], collaterals=[], outputs=[{'addr': w.hex(), 'coin': 3000000, 'assets': []}],
                merge_change=False, ex_units=[400000, 170000000])
    # (i) more than max_collateral_inputs needed: expensive reference script (the original witness used a 50 KB script
    # under the default schedule; a 400-byte script under a steep schedule gives the same max_tx_fee effect), 2.1-ADA UTxOs
    big = {'kind': 'v2', 'bytes': '01' * 400}
    baddr = mk_addr(7, script_hash(big), R())
    us = [U(i, w, 2100000) for i in range(1, 9)] + [U(20, other, 250000000, script=big, pa=True), U(21, baddr, 5000000, dh='inline', pa=True)]
    out.append(dict(base, utxos=us, pp={'min_fee_reference_scripts': {'base': 4000, 'range': 100, 'multiplier': 1.2}},
                    trigger={'kind': 'ref', 'script': big, 'utxo': 9, 'ref': 8}, name='max-inputs-refscript'))
    us = [U(i, w, 2100000) for i in range(1, 7)] + [U(9, saddr, 5000000, dh='hash')]
    out.append(dict(base, utxos=us, pp={'max_collateral_inputs': 1}, trigger={'kind': 'wit', 'script': v2, 'utxo': 6},
                    name='max-inputs-1'))
    # (ii) explicit collateral at a script address / given twice
    us = [U(1, w, 9000000), U(2, w, 9000000), U(9, saddr, 5000000, dh='hash'), U(10, saddr, 8000000, dh='hash')]
    out.append(dict(base, utxos=us, trigger={'kind': 'wit', 'script': v2, 'utxo': 2}, collaterals=[3], name='explicit-script'))
    out.append(dict(base, utxos=us, trigger={'kind': 'wit', 'script': v2, 'utxo': 2}, collaterals=[0, 0], name='explicit-dup'))
    # (iii) fee buffer
    out.append(dict(base, utxos=us, trigger={'kind': 'wit', 'script': v2, 'utxo': 2}, fee_buffer=5000000, name='fee-buffer'))
    # the pinned-tree double count: 2.5 ADA UTxO both an input and at the change address
    us = [U(1, w, 2500000), U(2, w, 2500000), U(3, w, 20000000), U(9, saddr, 5000000, dh='hash')]
    out.append(dict(base, utxos=us, trigger={'kind': 'wit', 'script': v2, 'utxo': 3}, inputs=[0], name='double-count'))
    # ---- every way a Plutus script can reach the transaction must open the collateral gate (added when the check was
    # strengthened: the earlier generator supplied scripts only as witness objects or on a separate reference UTxO)
    wal = [U(1, w, 6000000), U(2, w, 7000000), U(3, w, 40000000)]
    for j, kind in enumerate(('v1', 'v2', 'v3')):
        sd = {'kind': kind, 'bytes': SCRIPT_BYTES.hex()}
        sa = mk_addr(7, script_hash(sd), R())
        # (iv) the spent UTxO carries its own script; nothing / the script object / an unrelated reference UTxO passed on top
        us = wal + [U(9, sa, 10000000, dh='inline', pa=True, script=sd), U(8, other, 20000000, pa=True, script=sd)]
        out.append(dict(base, utxos=us, trigger={'kind': 'self', 'script': sd, 'utxo': 3, 'ref': 4,
                                                 'via': ('none', 'script', 'refutxo')[j]}, name='script-on-spent-utxo-' + kind))
    sa = mk_addr(7, script_hash(v2), R())
    # (v) script argument omitted: the reference UTxO is discovered at the script address
    us = wal + [U(9, sa, 10000000, dh='inline', pa=True), U(8, sa, 20000000, dh='inline', pa=True, script=v2)]
    out.append(dict(base, utxos=us, trigger={'kind': 'addr', 'script': v2, 'utxo': 3, 'ref': 4}, name='script-found-at-address'))
    # (vi) script object in the witness set while an ordinary spent input carries the same script
    us = wal + [U(9, sa, 10000000, dh='hash'), U(4, w, 9000000, pa=True, script=v2)]
    out.append(dict(base, utxos=us, trigger={'kind': 'wit', 'script': v2, 'utxo': 3}, inputs=[4], name='witness-script-also-on-input'))
    # (vii) other purposes: withdrawal with the script object, certificate / mint through a reference UTxO,
    # and the same script spent through a reference UTxO and minted with the script object (popped from the witness set)
    out.append(dict(base, utxos=wal, trigger={'kind': 'wdrl', 'script': v2, 'amount': 0}, name='withdrawal-script'))
    us = wal + [U(8, other, 20000000, pa=True, script=v2)]
    out.append(dict(base, utxos=us, trigger={'kind': 'cert_ref', 'script': v2, 'ref': 3}, name='certificate-reference-script'))
    out.append(dict(base, utxos=us, trigger={'kind': 'mint_ref', 'script': v2, 'ref': 3, 'qty': 1}, name='mint-reference-script'))
    us = wal + [U(9, sa, 10000000, dh='inline', pa=True), U(8, other, 20000000, pa=True, script=v2)]
    out.append(dict(base, utxos=us, trigger={'kind': 'ref', 'script': v2, 'utxo': 3, 'ref': 4},
                    extra=[{'kind': 'mint', 'script': v2, 'qty': 1}], name='same-script-by-reference-and-object'))
    # (viii) the history that exposed `C13-stale-return-of-earlier-build`: an attempt with another collateral on the SAME builder
    # first (it builds: coins_per_utxo_byte 0 lets the token-heavy return pass) -- then the scenario's collateral, an ADA-only
    # UTxO whose surplus needs no return: the body must not carry the return / total of the first attempt
    us = [U(1, w, 4000000), U(2, w, 9000000), U(3, w, 40000000), U(9, saddr, 5000000, dh='hash')]
    out.append(dict(base, utxos=us, pp={'coins_per_utxo_byte': 0}, trigger={'kind': 'wit', 'script': v2, 'utxo': 3},
                    collaterals=[0], retry=True, name='second-build-other-collateral'))
    # ... and the refused variant (default min ADA: the first attempt raises)
    out.append(dict(base, utxos=us, trigger={'kind': 'wit', 'script': v2, 'utxo': 3},
                    collaterals=[0], retry=True, name='retry-after-refused-collateral'))
    return out


# ------------------------------------------------------------------ rendering
def hxl(h, chunk=2000):
    """bytes literal; long strings are split (Coq's parser overflows its stack on very long string literals)"""
    if len(h) <= chunk:
        return f'(hx "{h}")'
    return '(' + ' ++ '.join(f'hx "{h[i:i + chunk]}"' for i in range(0, len(h), chunk)) + ')'


def r_value(coin, assets):
    return f'(mkValue {C.cz(coin)} ' + C.clist([C.cpair(f'hx "{p}"', C.clist([C.cpair(f'hx "{n}"', C.cz(q)) for n, q in names]))
                                               for p, names in assets]) + ')'


def r_cand(u):
    return (f'(mkCand (hx "{u["txid"]}") {C.cn(u["ix"])} {C.cn(u["type"])} {r_value(u["coin"], u["assets"])} '
            f'{C.cn(u["hexlen"])}, {hxl(u["cbor"])})')


def r_iret(o):
    if o is None:
        return 'None'
    return f'(Some (hx "{o["addr"]}", {r_value(o["coin"], o["assets"])}, {hxl(o["cbor"])}))'


EXC = {'amount': 3, 'minlovelace': 4, 'count': 1, 'script': 2}


def plutus_flag(sc):
    """the scenario's own statement of what was put into the builder: a Plutus script is executed for some purpose,
    or a script is taken from a reference UTxO (the gate of the method also opens for native reference scripts)"""
    return any(t['kind'] in PLUTUS_KINDS or uses_ref_utxo(t) for t in triggers(sc))


def runs_plutus(sc):
    return any(t['kind'] in PLUTUS_KINDS for t in triggers(sc))


SKIND = {'native': 'SNative', 'v1': 'SV1', 'v2': 'SV2', 'v3': 'SV3'}


def r_ss(ss):
    tab = lambda l: C.clist([f'(mkS (hx "{h}") {SKIND[k]})' for h, k in l])
    return '(mkSS ' + ' '.join(tab(ss[n]) for n in ('native', 'inputs', 'mint', 'wdrl', 'cert', 'refs')) + ')'


def r_call(sc, k, utab):
    us = lambda l: C.clist([f'u{i}' for i in l])
    exc = 0 if k['exc'] is None else (EXC.get(k['exc'][1], 9) if k['exc'][0] == 'ValueError' else 9)
    P = (f'(mkCP {C.cz(k["max_fee"])} {C.cz(k["fee_buffer"] or 0)} {C.cz(k["percent"])} {C.cz(k["max_inputs"])} '
         f'{C.cz(k["threshold"])})')
    colls = C.clist([f'idof u{i}' for i in k['collaterals']])
    return (f'(mkCall {C.cbool(plutus_flag(sc))} {r_ss(k["ss"])} {C.copt(None if k["addr"] is None else "(hx " + chr(34) + k["addr"] + chr(34) + ")")} '
            f'{P} {C.cz(k["cpb"])} {us(k["explicit"])} {us(k["inputs"])} {us(k["potential"])} {us(k["at_addr"])} '
            f'{r_iret(k["pre_return"])} {C.copt(None if k["pre_total"] is None else C.cz(k["pre_total"]))} '
            f'{colls} {r_iret(k["ret"])} {C.copt(None if k["total"] is None else C.cz(k["total"]))} {C.cn(exc)})')


def lparams_of(sc):
    p = dict(PP_DEFAULT); p.update(sc.get('pp', {}))
    return p['collateral_percent'], p['max_collateral_inputs'], p['coins_per_utxo_byte']


def r_scen(i, sc, res):
    utab = res['utab']
    lets = ''.join(f'let u{j} := {r_cand(u)} in\n   ' for j, u in enumerate(utab))
    calls = C.clist([r_call(sc, k, utab) for k in res['calls']])
    if res.get('body'):
        pc, mx, cpb = lparams_of(sc)
        known = {(u['txid'], u['ix'], u['cbor']): j for j, u in enumerate(utab)}
        um = C.clist([f'(idof u{known[(t, ix, o)]}, snd u{known[(t, ix, o)]})' if (t, ix, o) in known
                      else C.cpair(C.cpair(f'hx "{t}"', C.cn(ix)), hxl(o)) for t, ix, o in res['umap']])
        b = (f'(Some (mkBuild (mkLP {C.cz(pc)} {C.cz(mx)} {C.cz(cpb)}) {um} {hxl(res["body"])} '
             f'{C.cbool(runs_plutus(sc))} {C.cbool(sc.get("change") is not None)} {hxl(res["wits"])}))')
    else:
        b = 'None'
    return f'({i}%nat, ({lets}({calls}, {b})))'


HEADER = '''From Coq Require Import NArith ZArith Ascii String List Bool.
From PyC Require Import Base Cbor Dict Value Collateral CollateralOracle.
Import ListNotations.
Open Scope Z_scope.
'''


def render(cases, results):
    items = [r_scen(i, c, r) for i, (c, r) in enumerate(zip(cases, results))]
    body = 'Definition cases : list (nat * scen) :=\n' + C.clist(items) + '.\n'
    body += 'Eval vm_compute in (map fst (filter (fun c => negb (scen_corr (snd c))) cases)).\n'
    body += 'Eval vm_compute in (flat_map (fun c => tag (fst c) (scen_call_failed (snd c))) cases).\n'
    body += 'Eval vm_compute in (flat_map (fun c => tag (fst c) (scen_body_failed (snd c))) cases).\n'
    return body


def evaluate(cases, results, shard=40):
    """returns (mismatch idx set, {idx: [failed clauses of the per-call oracle]}, {idx: [.. of the body oracle]}, errors)"""
    mism, cfail, bfail, errs = set(), {}, {}, []
    good = []
    for i, (c, r) in enumerate(zip(cases, results)):
        if 'driver_error' in r:
            mism.add(i); bfail[i] = [0]
        else:
            good.append((i, c, r))
    shards, maps = [], []
    for k in range(0, len(good), shard):
        part = good[k:k + shard]
        shards.append(render([c for _, c, _ in part], [r for _, _, r in part]))
        maps.append([i for i, _, _ in part])
    for (ok, lists, log), mp in zip(C.run_cases(PID, shards, HEADER), maps):
        if not ok or len(lists) != 3:
            errs.append(log[-1500:])
            continue
        mism.update(mp[j] for j in lists[0])
        for x in lists[1]:
            cfail.setdefault(mp[x // 10], []).append(x % 10)
        for x in lists[2]:
            bfail.setdefault(mp[x // 10], []).append(x % 10)
    return mism, cfail, bfail, errs


CLAUSE = {0: 'driver-error', 1: 'count', 2: 'distinct', 3: 'key-locked', 4: 'adequate', 5: 'total', 6: 'assets', 7: 'min-ada',
          8: 'unresolved-collateral', 9: 'body-undecodable'}


def classify(sc, res, clauses):
    """region of an oracle failure: failing clause(s) + how the collateral came about"""
    how = 'explicit' if sc.get('collaterals') else 'auto'
    names = [CLAUSE[c] for c in sorted(set(clauses))]
    return f'collateral-{how}-' + '+'.join(names)


def nontrivial(sc, res):
    """a call went past the two early returns (the selection / validation code ran)"""
    return any(k['has_addr'] for k in res.get('calls', [])) and plutus_flag(sc)


def make_cases(ctx, n_slice, n_build):
    cases = corpus()
    cases += [A.lookalike_ids(ctx.rng, gen_slice(ctx.rng)) for _ in range(n_slice)]
    cases += [A.lookalike_ids(ctx.rng, gen_build(ctx.rng)) for _ in range(n_build)]
    return cases


def correspond(ctx, n=None):
    n_slice, n_build = n or (ctx.n(420, 14000), ctx.n(160, 5000))
    cases = make_cases(ctx, n_slice, n_build)
    results = C.run_impl('collateral_driver', {'cases': cases}, nshards=C.NPROC)
    mism, cfail, bfail, errs = evaluate(cases, results)
    if errs:
        raise RuntimeError('cases file failed to compile: ' + errs[0])
    hist = {'mode': {}, 'trigger': {}, 'outcome': {}, 'n_collateral': {}, 'explicit': 0, 'body_with_return': 0,
            'build_exc': {}, 'calls': 0, 'auto_phase_reach': {'inputs': 0, 'potential': 0, 'address': 0},
            'candidate_address_types': {}, 'chosen_address_types': {}, 'chosen_with_tokens': 0,
            'script_use': {}, 'second_script_use': {}, 'self_via': {}, 'script_on_ordinary_utxo': 0, 'gate': {}}
    def bump(d, k):
        d[k] = d.get(k, 0) + 1
    for c, r in zip(cases, results):
        if 'driver_error' in r:
            bump(hist['outcome'], 'driver_error'); continue
        bump(hist['mode'], c['mode']); bump(hist['trigger'], c['trigger']['kind'])
        for t in triggers(c):
            bump(hist['script_use'], c['mode'] + ':' + t['kind'])
            if t['kind'] == 'self':
                bump(hist['self_via'], t.get('via', 'none'))
        for t in c.get('extra', []):
            bump(hist['second_script_use'], t['kind'] + ('(same script)' if t.get('script') == c['trigger'].get('script') else ''))
        tk = trigger_indices(triggers(c))
        hist['script_on_ordinary_utxo'] += any(u.get('script') for j, u in enumerate(c['utxos']) if j not in tk)
        for k in r['calls'][:1]:
            ss = k['ss']
            in_tabs = any(kd != 'native' for n in ('inputs', 'mint', 'wdrl', 'cert') for _, kd in ss[n])
            bump(hist['gate'], ('plutus' if in_tabs else 'no-plutus') + ('+refs' if ss['refs'] else ''))
        hist['explicit'] += bool(c.get('collaterals'))
        hist['calls'] += len(r['calls'])
        for k in r['calls'][:1]:
            bump(hist['outcome'], 'noop-early' if not (plutus_flag(c) and k['has_addr']) else
                 ('err-' + k['exc'][1] if k['exc'] else ('set' if k['ret'] else 'no-return')))
            bump(hist['n_collateral'], str(len(k['collaterals'])))
            for j in set(k['inputs'] + k['potential'] + k['at_addr'] + k['explicit']):
                bump(hist['candidate_address_types'], r['utab'][j]['tname'])
            for j in k['collaterals']:
                bump(hist['chosen_address_types'], r['utab'][j]['tname'])
                hist['chosen_with_tokens'] += bool(r['utab'][j]['assets'])
            if not k['explicit'] and k['collaterals']:
                ins, pot = set(k['inputs']), set(k['potential'])
                last = k['collaterals'][-1]
                bump(hist['auto_phase_reach'], 'inputs' if last in ins else ('potential' if last in pot else 'address'))
        if c['mode'] == 'build':
            bump(hist['build_exc'], r['exc'] or 'built')
            hist['body_with_return'] += bool(r.get('body') and r['calls'] and r['calls'][0]['ret'])
    distinct = len({C.canon_hash(c) for c, r in zip(cases, results) if 'driver_error' not in r and nontrivial(c, r)})
    def pack(i, clauses):
        r = results[i]
        slim = {k: v for k, v in r.items() if k not in ('utab', 'umap')}
        return {'input': cases[i], 'impl': slim, 'region': classify(cases[i], r, clauses), 'failed_clauses': [CLAUSE[c] for c in clauses]}
    fails = {}
    for d in (cfail, bfail):
        for i, cl in d.items():
            fails.setdefault(i, []).extend(cl)
    all_fail = [pack(i, fails[i]) for i in sorted(fails)]
    known_hits = {}
    oracle_fail = []
    for f in all_fail:
        if f['region'] in KNOWN_REGIONS:
            known_hits[f['region']] = known_hits.get(f['region'], 0) + 1
        else:
            oracle_fail.append(f)
    return dict(
        evaluations=len(cases), distinct_nontrivial=distinct,
        rule='corpus of the 6 defect witnesses and 10 script-supply witnesses + slice scenarios (real builder prepared with 0-10 UTxOs at wallet/other/script '
             'addresses of every header type 0-7, amounts from a boundary set around collateral_amount, 2 ADA, the threshold and '
             'min ADA, tokens, overlapping inputs / potential inputs / address UTxOs, explicit collaterals incl. duplicates and '
             'script addresses, percent/max inputs/cpb/threshold/fee_buffer settings; script use = purpose (spend / mint / '
             'withdrawal / certificate) x supply (script object / separate reference UTxO / reference UTxO discovered at the '
             'script address / the spent UTxO\'s own output.script, with nothing, the object or another UTxO passed on top) x class '
             '(Plutus V1-V3, native) or none, optionally a second script use with the same or another script, ordinary UTxOs '
             'carrying scripts; _set_collateral_return called directly) + build scenarios (full Plutus build(), evaluate_tx '
             'served from the scenario); non-trivial = a recorded call got past both early returns; distinct by hash',
        samples=[cases[len(corpus())], cases[-1]],
        histogram=hist,
        compared='per recorded call: gate decision from the recorded script tables = the scenario\'s statement; collaterals '
                 '(ordered), _collateral_return (address, raw amount, CBOR), _total_collateral, exception class — exactly; '
                 'witness-set redeemers non-empty = scenario executes a Plutus script; candidates\' length/kind/amount re-derived from output bytes in Coq; '
                 'oracle: collateral_ok on each completed call (req = percent*(max_tx_fee+fee_buffer)) and on the returned body CBOR',
        known_region_hits=known_hits,
        mismatches=[{'input': cases[i], 'impl': {k: v for k, v in results[i].items() if k not in ('utab', 'umap')},
                     'region': 'model-vs-implementation'} for i in sorted(mism)[:20]],
        oracle_fail=oracle_fail[:50],
    )


def search(ctx, mism):
    ctx.rng.seed(f'search-{ctx.seed}')
    r = correspond(ctx, (700, 250) if ctx.quick else (30000, 6000))
    if r['oracle_fail']:
        return min(r['oracle_fail'], key=lambda f: len(json.dumps(f, default=str)))
    return None


def replay(ctx, rep):
    case = rep['case']['input']
    res = C.run_impl('collateral_driver', {'cases': [case]}, nshards=1)
    mism, cfail, bfail, errs = evaluate([case], res)
    if errs:
        print(errs[0]); return 2
    r = res[0]
    print('scenario:', json.dumps(case)[:3000])
    print('implementation:', json.dumps({k: v for k, v in r.items() if k not in ('utab', 'umap')})[:3000])
    fails = cfail.get(0, []) + bfail.get(0, [])
    print('model agrees:', 0 not in mism, ' failed clauses of collateral_ok:', [CLAUSE[c] for c in fails])
    return 1 if fails else 0
