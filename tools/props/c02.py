"""C02 — emitted CBOR conforms to the Conway ledger wire format."""
import json, os, re
from lib import common as C
from props import codecgen as G, ledgergen as L

PID = 'C02'
TARGETS = ['props/C02.vo', 'theories/LedgerOracle.vo', 'gen/SchemaGen.vo']
LEVEL = 'proof'
MANIFEST = dict(
    text='Specification Ledger.v: Conway transaction content and a reference encoder transcribed rule by rule from the CDDL '
         '(body keys 0-22, legacy/map outputs, datum option, script ref, 17 certificate kinds with flattened pool parameters and '
         'the three relay kinds, voters/DReps/votes, proposal procedures with the 7 governance actions and the 30-slot parameter '
         'update, witness-set keys 0-7, redeemers as list and map, the three auxiliary-data forms; tags 258/24/30/259; definite '
         'lengths and shortest integer heads by construction). Model LedgerModel.v: pycardano\'s serialization = the generic '
         'dataclass walk (Codec.to_prim) over ENCODE-SIDE class tables REGENERATED from /repo on every run (translator T1) plus the '
         'hand-modelled overrides. Theorems (Coq, every content, unbounded): model bytes = reference bytes for transactions, '
         'bodies, witness sets, outputs, certificates, proposals, voting procedures, native scripts, auxiliary data, redeemers '
         '(C02_transaction ...), and the per-run obligations C02_tables_today / C02_enums_today / C02_fingerprints_today tie the '
         'premises to today\'s source, giving C02_conform_today. Correspondence: model bytes = to_cbor() bytes; oracle: reference '
         'bytes (computed in Coq) = to_cbor() bytes on generated contents built through the public constructors.',
    note='Trusted: Coq kernel+vm_compute; the CDDL transcription in Ledger.v (it IS the specification; no CDDL file exists offline); '
         'T1 translator (class tables, enum values, AST digests); hand-modelled overrides in LedgerModel.v (tied by digests + '
         'correspondence); driver/generator. Value/MultiAsset leaves = C04 model, Plutus data leaves = C18 reference. No axioms.',
    technique='Coq proof (model over regenerated class tables = CDDL reference encoder) + translator + correspondence + direct differential oracle',
    ref='C02')
TRUSTED = [
    'Coq 8.16.1 kernel incl. vm_compute (no native_compute); no axioms (see Print Assumptions lines)',
    'coq/theories/Ledger.v: transcription of the Conway CDDL (specification, trusted by definition); map keys the CDDL leaves '
    'unordered are emitted in RFC 7049 canonical order; wire options (tagged sets, output form, redeemer form) are part of the content',
    'T1 translator tools/translate/schema.py + tools/props/codecgen.py: encode-side class tables (enc_schema: key, position, code, '
    'optional flag per field; "<Class>!super" tables for classes overriding to_primitive), enum values, AST digests',
    'hand model coq/theories/LedgerModel.v of the constructor calls and of the to_primitive / to_shallow_primitive / __post_init__ '
    'overrides (DRep, Voter, VotingProcedure, _DatumOption, _Script, _ScriptRef, TransactionOutput, PoolRegistration, SingleHostAddr, '
    'AlonzoMetadata, AuxiliaryData, credentials); recorded tables coq/theories/LedgerTables.v (tools/record_ledger_tables.py)',
    'Value/MultiAsset encoding = Value.v (C04), Plutus data leaves = Plutus.plutus_ref (C18)',
    'tools/impl/ledger_driver.py (content -> pycardano objects through the public constructors), tools/props/ledgergen.py '
    '(generator, Coq printer)',
]
ASSUMPTIONS = [
    'pure-Python cbor2 backend, PYTHONHASHSEED=0 (encoding does not depend on either; C03 covers the matrix)',
    'content conventions: absent collections are passed as empty lists where the CDDL wants an array (PoolParams.relays, '
    'ShelleyMarryMetadata.native_scripts), rationals are coprime, redeemers carry execution units, integers fit the CDDL sizes '
    '(uint64 / int64), cost-model slot of a parameter update is empty',
]
GEN_OBLIGATIONS = ['SchemaGen.enc_schema / enum_values / fingerprints regenerated and compiled', 'C02_tables_today',
                   'C02_enums_today', 'C02_fingerprints_today']

HEADER = '''From Coq Require Import NArith ZArith String List Bool.
From PyC Require Import Base Cbor Value Codec Ledger LedgerModel LedgerOracle.
From PyC Require Plutus.
From PyCGen Require Import SchemaGen.
Import ListNotations.
Open Scope string_scope.
Notation SS := SchemaGen.enc_schema.
Notation EE := SchemaGen.enum_values.
'''
MODEL_FN = {'tx': ('m_tx SS EE', False), 'body': ('m_body SS EE', True), 'wits': ('m_wits SS EE', True),
            'output': ('m_output SS', False), 'cert': ('m_cert SS EE', True), 'proposal': ('m_proposal SS', True),
            'aux': ('m_aux SS', False)}


def regen(ctx):
    sch = G.load_schema(C.REPO)
    C.write_gen('SchemaGen', G.schema_v(sch))
    ctx.schema = sch
    return sch


def terms(case):
    """(model term : res cbor, reference term : cbor) over a let-bound content `t`"""
    r = L.render_case(case)
    k = case['kind']
    fn, tagged = MODEL_FN[k]
    if tagged:
        content, b = r
        return content, f'({fn} {b} t)', f'({L.REF_FN[k]} {b} t)'
    return r, f'({fn} t)', f'({L.REF_FN[k]} t)'


def render(part):
    items = []
    for i, case, res in part:
        content, mt, rt = terms(case)
        impl = G.chx(bytes.fromhex(res['cbor']))
        items.append(f'({i}%nat, (let t := {content} in let b := {impl} in (res_is {mt} b, ref_is {rt} b)))')
    body = 'Definition res : list (nat * (bool * bool)) := Eval vm_compute in\n' + G.clist(items) + '.\n'
    body += 'Eval vm_compute in (map fst (filter (fun c => negb (fst (snd c))) res)).\n'
    body += 'Eval vm_compute in (map fst (filter (fun c => negb (snd (snd c))) res)).\n'
    return body


def evaluate(cases, results, shard=80):
    mism, ofail, errs = set(), {}, []
    good = []
    for i, (c, r) in enumerate(zip(cases, results)):
        if 'cbor' in r:
            good.append((i, c, r))
        else:
            ofail[i] = 'impl-error'          # expressible content the implementation refuses to serialize
    shards, maps = [], []
    for k in range(0, len(good), shard):
        part = good[k:k + shard]
        shards.append(render(part))
    for ok, lists, log in C.run_cases(PID, shards, HEADER):
        if not ok or len(lists) != 2:
            errs.append(log[-2000:])
            continue
        mism.update(lists[0])
        for i in lists[1]:
            ofail[i] = 'reference-bytes'
    return mism, ofail, errs


def correspond(ctx, n=None):
    if not getattr(ctx, 'schema', None):
        regen(ctx)
    n = n or ctx.n(600, 20000)
    cases = [L.gen_case(ctx.rng) for _ in range(n)]
    results = C.run_impl('ledger_driver', {'cases': cases})
    mism, ofail, errs = evaluate(cases, results)
    if errs:
        raise RuntimeError('cases file failed to compile: ' + errs[0])
    # a model failure on a case where the implementation itself fails the property is not a tie problem
    mism = {i for i in mism if i not in ofail}
    distinct = len({r['cbor'] for r in results if 'cbor' in r and len(r['cbor']) > 40})

    def pack(i, region):
        return {'input': cases[i], 'impl': results[i], 'region': region}
    return dict(
        evaluations=len(cases), distinct_nontrivial=distinct,
        rule='seeded structured contents (tools/props/ledgergen.py): transactions (about half) and stand-alone bodies, witness sets, '
             'outputs, certificates, proposals, auxiliary data; every body key present/absent, legacy/map outputs x datum x script, '
             '17 certificate kinds, relay kinds with null ports/addresses, voter/DRep/vote kinds, 7 governance actions, redeemer '
             'list/map x 6 tags, 3 auxiliary forms, witness keys 0-7, tagged/bare sets, boundary integers, key lengths that make the '
             'canonical order matter; built through the public constructors; non-trivial = encoding longer than 20 bytes; distinct by bytes',
        samples=[{'kind': cases[0]['kind'], 'cbor': results[0].get('cbor', '')[:160]}],
        coverage=L.coverage(cases),
        traces_validated_against_impl=sum(1 for r in results if 'cbor' in r),
        compared='model (Coq, vm_compute): enc of m_<kind> over today\'s enc_schema = to_cbor(); oracle (Coq): enc of ref_<kind> '
                 '(Ledger.v) = to_cbor(), byte for byte',
        mismatches=[pack(i, 'model') for i in sorted(mism)[:20]],
        oracle_fail=sorted([pack(i, reg) for i, reg in ofail.items()], key=lambda f: len(json.dumps(f['input'])))[:40],
    )


def diagnose():
    """which recorded table / enum / fingerprint differs from today's regenerated one (text comparison of the two Coq files);
    printed when an obligation of props/C02.v no longer checks, so that the report names what changed"""
    def rows(path, start):
        t = open(path).read().split(start)[1].split('\n].')[0]
        out = {}
        for line in t.split(';\n'):
            m = re.match(r'\s*\("([^"]+)", ', line)
            if m:
                out[m.group(1)] = re.sub(r'\s+', ' ', line.strip())
        return out
    gen = os.path.join(C.COQ, 'gen', 'SchemaGen.v')
    rec = os.path.join(C.COQ, 'theories', 'LedgerTables.v')
    diff = {}
    try:
        a, b = rows(gen, 'Definition enc_schema : Codec.schema := ['), rows(rec, 'Definition expected : schema := [')
        diff['class_tables'] = sorted(k for k in b if a.get(k) != b[k])
        a, b = rows(gen, 'Definition enum_values : list (string * list (string * Z)) := ['), rows(rec, 'Definition expected_enums : list (string * list (string * Z)) := [')
        diff['enums'] = sorted(k for k in b if a.get(k) != b[k])
        a, b = rows(gen, 'Definition fingerprints : list (string * string) := ['), rows(rec, 'Definition known_enc_fingerprints : list (string * string) := [')
        diff['source_fingerprints'] = sorted(k for k in b if a.get(k) != b[k])
    except Exception as e:
        diff['error'] = f'{type(e).__name__}: {e}'
    return diff


def search(ctx, mism):
    d = diagnose()
    if any(d.values()):
        print('C02 obligations: recorded vs regenerated differ in', json.dumps(d))
        os.makedirs(os.path.join(C.WORK, PID), exist_ok=True)
        json.dump(d, open(os.path.join(C.WORK, PID, 'diagnosis.json'), 'w'), indent=1)
    ctx.rng.seed(f'search-{ctx.seed}')
    r = correspond(ctx, 3000 if ctx.quick else 40000)
    return r['oracle_fail'][0] if r['oracle_fail'] else None


def replay(ctx, rep):
    case = rep['case']['input']
    regen(ctx)
    res = C.run_impl('ledger_driver', {'cases': [case]}, nshards=1)[0]
    print('input:', json.dumps(case))
    print('implementation:', json.dumps(res))
    if 'cbor' not in res:
        print('property holds on this input: False (the implementation does not serialize this content)')
        return 1
    content, mt, rt = terms(case)
    body = (f'Definition t := {content}.\nEval vm_compute in (tohex (enc {rt})).\n'
            f'Eval vm_compute in (ref_is {rt} {G.chx(bytes.fromhex(res["cbor"]))}).\n')
    d = os.path.join(C.WORK, PID)
    os.makedirs(d, exist_ok=True)
    p = os.path.join(d, 'replay.v')
    open(p, 'w').write(HEADER + body)
    ok, out, err, _ = C.coqc_file(p)
    flat = re.sub(r'\s+', '', out)
    m = re.search(r'="([0-9a-f]*)"', flat)
    print('reference bytes :', m.group(1) if m else '?')
    print('implementation  :', res['cbor'])
    holds = ok and '=true' in flat
    print('property holds on this input:', holds)
    return 0 if holds else 1
