"""C05 — value arithmetic is exact component-wise integer arithmetic."""
import json
from lib import common as C
from props import valuegen as G

PID = 'C05'
TARGETS = ['props/C05.vo', 'theories/ValueOracle.vo']
LEVEL = 'proof'

MANIFEST = dict(
    text='Theorems (Coq, all integers, all bundles): +/- are exact per-asset sums/differences with normalised results; ==, <=, < are '
         'the component-wise relations; filter spec; (a+b)-b=a; frame theorems over a two-level store model: pure operators leave '
         'all existing objects untouched, += changes only the left operand to the pure sum (also under aliasing), Asset-level += '
         'changes one entry of one bundle; >= and > (reflected <= / <) are the component-wise relations. Model tied to '
         'the code by exact correspondence on random aliasing programs.',
    note='Trusted: Coq kernel+vm_compute; hand model Value.v/ValueHeap.v validated by differential runs; generator; driver. No axioms.',
    technique='Coq proof (induction over dict folds, content abstraction, store frame) + correspondence', ref='C05')
TRUSTED = [
    'Coq 8.16.1 kernel incl. vm_compute (no native_compute); no axioms (see Print Assumptions lines)',
    'hand model coq/theories/Value.v + ValueHeap.v of transaction.py Asset/MultiAsset/Value, tied by correspondence '
    '(exact raw-structure agreement incl. insertion order, on every variable after every program)',
    'tools/impl/value_driver.py, tools/props/valuegen.py (generator, Coq literal printer)',
]
ASSUMPTIONS = ['dict keys are unique (Python dict); Asset objects are not shared between MultiAsset objects by the modelled operators',
               'typeguard checks and constructor validation are outside the model (only well-typed operands are generated)']


def gen_cases(ctx, n):
    cases = []
    for i in range(n):
        r = ctx.rng.random()
        if r < 0.1:
            cases.append({'ops': G.shared_program(ctx.rng), 'share': True})
        elif r < 0.3:
            cases.append({'ops': G.cancel_program(ctx.rng)})
        else:
            cases.append({'ops': G.rand_program(ctx.rng, ctx.rng.randint(3, 12))})
    return cases


def render(cases, results):
    items = []
    for i, (c, r) in enumerate(zip(cases, results)):
        items.append(f'({i}%nat, ({G.r_ops(c["ops"])}, {G.r_snap(r["snap"])}, {G.r_obs(r["obs"])}))')
    body = 'Definition cases : list (nat * (list hop * list (Z * masset) * list obs)) :=\n' + G.clist(items) + '.\n'
    body += 'Eval vm_compute in (map fst (filter (fun c => negb (c05_corr (fst (fst (snd c))) (snd (fst (snd c))) (snd (snd c)))) cases)).\n'
    body += 'Eval vm_compute in (map fst (filter (fun c => negb (c05_oracle (fst (fst (snd c))) (snd (fst (snd c))) (snd (snd c)))) cases)).\n'
    return body


def evaluate(cases, results, shard=200):
    """returns (mismatch_idx, oracle_idx, errors)"""
    mism, ofail, errs = set(), set(), []
    good = [(i, c, r) for i, (c, r) in enumerate(zip(cases, results)) if 'driver_error' not in r]
    for i, (c, r) in enumerate(zip(cases, results)):
        if 'driver_error' in r:
            mism.add(i); ofail.add(i)
    shards, maps = [], []
    for k in range(0, len(good), shard):
        part = good[k:k + shard]
        shards.append(render([c for _, c, _ in part], [r for _, _, r in part]))
        maps.append([i for i, _, _ in part])
    for (ok, lists, log), mp in zip(C.run_cases(PID, shards, G.HEADER), maps):
        if not ok or len(lists) != 2:
            errs.append(log[-1500:])
            continue
        mism.update(mp[j] for j in lists[0]); ofail.update(mp[j] for j in lists[1])
    return mism, ofail, errs


def nontrivial(c):
    ks = [o[0] for o in c['ops']]
    return any(k in ks for k in ('add', 'sub', 'union', 'iadd', 'maiadd')) and any(o[0] == 'new' and o[2] for o in c['ops'])


def correspond(ctx, n=None):
    n = n or ctx.n(1500, 40000)
    cases = gen_cases(ctx, n)
    results = C.run_impl('value_driver', {'cases': cases})
    mism, ofail, errs = evaluate(cases, results)
    if errs:
        raise RuntimeError('cases file failed to compile: ' + errs[0])
    hist = {}
    for c in cases:
        for o in c['ops']:
            hist[o[0]] = hist.get(o[0], 0) + 1
    distinct = len({C.canon_hash(c) for c in cases if nontrivial(c)})
    def pack(i):
        return {'input': cases[i], 'impl': results[i], 'region': classify(cases[i], results[i])}
    return dict(
        evaluations=len(cases), distinct_nontrivial=distinct,
        rule='random value programs (2-3 literal Values over 2-4 policies x 2-5 names incl. empty and 32-byte names, '
             'quantities from a boundary set incl. 0, negatives, +-2^63, +-2^64, 2^70; then 3-12 ops from '
             '{+,-,union,+int,+=,multi_asset+=,item assignment,filter,normalize,alias,shared multi_asset,==,<=,<,count}); '
             'non-trivial = has an arithmetic/in-place operator and a non-empty literal bundle; distinct by hash',
        samples=[cases[0], cases[len(cases) // 2]],
        op_histogram=hist,
        traces_validated_against_impl=len(cases),
        compared='final raw snapshot of every variable (coin + ordered dict of dicts) and every comparison/count result; '
                 'oracle = content equality with the proved model + normalisation of operator results',
        mismatches=[pack(i) for i in sorted(mism)[:20]],
        oracle_fail=[pack(i) for i in sorted(ofail)[:50]],
    )


def classify(case, res):
    return 'exception' if 'driver_error' in res else 'content'


def shrink(ctx, case, pred):
    ops = case['ops']
    changed = True
    while changed:
        changed = False
        for i in range(len(ops) - 1, -1, -1):
            if ops[i][0] in ('eq', 'le', 'lt', 'count', 'iadd', 'maiadd', 'setitem', 'normalize'):
                trial = ops[:i] + ops[i + 1:]
                if pred({'ops': trial}):
                    ops = trial; changed = True
    return {'ops': ops}


def search(ctx, mism):
    """Something no longer checks: look for an input on which the property itself fails on the implementation."""
    n = 6000 if ctx.quick else 60000
    ctx.rng.seed(f'search-{ctx.seed}')
    r = correspond(ctx, n)
    if r['oracle_fail']:
        return r['oracle_fail'][0]
    return None


def replay(ctx, rep):
    case = rep['case']['input']
    res = C.run_impl('value_driver', {'cases': [case]}, nshards=1)
    mism, ofail, errs = evaluate([case], res)
    print('input:', json.dumps(case))
    print('implementation:', json.dumps(res[0]))
    print('model agrees:', 0 not in mism, ' property oracle holds:', 0 not in ofail)
    return 1 if ofail else 0
