"""C16 — HD wallet derivation follows CIP-3 Icarus and BIP32-Ed25519."""
import hashlib, hmac as HM, json, os, sys, time
from lib import common as C
from refcrypto import ed25519_ref as ED          # independent RFC 8032 arithmetic (no nacl, no pycardano)

PID = 'C16'
TARGETS = ['props/C16.vo', 'theories/Bip32Oracle.vo', 'theories/Bip32Toy.vo']
LEVEL = 'proof'

MANIFEST = dict(
    text='Theorems (Coq, all entropies/passphrases/indices/depths up to 2^26, primitives universally quantified): the byte-level '
         'model of crypto/bip32.py equals the integer-level CIP-3 Icarus + BIP32-Ed25519 specification (root incl. bit tweak, '
         'private child for every index, public child), public and private derivation of a soft child agree, hardened public '
         'derivation and private derivation from a public-only wallet are refused, derive_from_path(render_path steps) = fold of '
         'derive, signatures of derived extended keys satisfy the Ed25519 verification equation under the derived public key. '
         'Model tied to the code by exact correspondence (every HDWallet field after every step, ExtendedSigningKey packaging, '
         'signature bytes); the specification, evaluated in Coq on lookup tables computed by independent hashlib/RFC 8032 code, '
         'decides the property on the real code\'s outputs.',
    note='Trusted: Coq kernel+vm_compute; hand models Bip32Impl.v/Bip32Spec.v; hashlib PBKDF2/HMAC/SHA-512 and '
         'tools/refcrypto/ed25519_ref.py as answers to primitive queries; `mnemonic` package word lists (oracle); group laws of '
         'Ed25519 are hypotheses of the theorems. from_mnemonic decodes with the English word list only (non-English mnemonics are refused).',
    technique='Coq proof (refinement bytes->integers, induction over depth, string parsing round trip, group-law algebra) + '
              'table-instantiated correspondence', ref='C16')
TRUSTED = [
    'Coq 8.16.1 kernel incl. vm_compute (no native_compute); no axioms (see Print Assumptions lines)',
    'hand model coq/theories/Bip32Impl.v of crypto/bip32.py + key.py packaging, tied by exact correspondence of every HDWallet '
    'field after every step, error kinds, ExtendedSigningKey payload, signature bytes',
    'specification transcription coq/theories/Bip32Spec.v (BIP32-Ed25519 paper V.A-V.D, CIP-3 Icarus) — read it to judge the theorems',
    'primitive answers in the cases files: hashlib.pbkdf2_hmac / hmac / sha512 and tools/refcrypto/ed25519_ref.py (pure-Python RFC 8032); '
    'a missing table entry is a poison value that makes the case fail',
    'tools/impl/bip32_driver.py, tools/props/c16.py (generator, query collector, Coq literal printer); `mnemonic` package (entropy<->words)',
]
ASSUMPTIONS = [
    'Section hypotheses (stated in each theorem): pbkdf2 returns 96 bytes; enc_pt returns 32 bytes; smulB (a+b) = smulB a + smulB b; '
    'crypto_core_ed25519_add on encodings = encoding of the group sum; for signatures additionally dec_pt(enc_pt g) = Some g, '
    'smulB 0 = 0, smulB ell = 0, 0 + g = g, commutativity, smul 0 g = 0, smul (n+1) g = g + smul n g. That libsodium/hashlib satisfy them is assumed.',
    'libsodium scalarmult_base_noclamp = (k mod 2^255)·B, refusing the identity and the all-zero scalar (modelled, probed once by hand)',
    'depth below an Icarus root < 2^26 (kL stays below 2^255); beyond it the model states what the code does (bit 255 dropped / OverflowError)',
    'mnemonic -> entropy is the English BIP-39 word list of the `mnemonic` package (oracle); path strings: printable ASCII',
]

HEADER = '''From Coq Require Import ZArith NArith List String Bool.
From Coq Require Import Init.Byte.
From PyC Require Import Base Bip32Spec Bip32Impl Bip32Oracle.
Import ListNotations.
Open Scope string_scope.
'''

L = ED.L
IDENT = b'\x01' + b'\x00' * 31
le = lambda b: int.from_bytes(b, 'little')

# ---------------------------------------------------------------- primitive answers (independent code) + query recording
_PB, _SB, _BT = {}, {}, []


def _smul_base(k):
    if not _BT:
        p = ED.G
        for _ in range(256):
            _BT.append(p)
            p = ED.point_add(p, p)
    q, i = (0, 1, 1, 0), 0
    while k:
        if i >= len(_BT):
            _BT.append(ED.point_add(_BT[-1], _BT[-1]))
        if k & 1:
            q = ED.point_add(q, _BT[i])
        k >>= 1
        i += 1
    return q


class Rec:
    """Answers primitive queries and records them: these become the lookup tables of one case."""

    def __init__(self):
        self.pb, self.hm, self.sh, self.sb, self.ga, self.sm, self.inv = {}, {}, {}, {}, {}, {}, set()

    def pbkdf2(self, p, s):
        if (p, s) not in _PB:
            _PB[(p, s)] = hashlib.pbkdf2_hmac('sha512', p, s, 4096, 96)
        self.pb[(p, s)] = _PB[(p, s)]
        return _PB[(p, s)]

    def hmac(self, k, d):
        v = HM.new(k, d, hashlib.sha512).digest()
        self.hm[(k, d)] = v
        return v

    def sha(self, d):
        v = hashlib.sha512(d).digest()
        self.sh[d] = v
        return v

    def smulB(self, k):
        if k not in _SB:
            _SB[k] = ED.point_compress(_smul_base(k))
        self.sb[k] = _SB[k]
        return _SB[k]

    def valid(self, b):
        p = ED.point_decompress(b)
        if p is None:
            self.inv.add(b)
        return p

    def gadd(self, a, b):
        pa, pb = self.valid(a), self.valid(b)
        v = None if pa is None or pb is None else ED.point_compress(ED.point_add(pa, pb))
        self.ga[(a, b)] = v
        return v

    def smul(self, k, a):
        pa = self.valid(a)
        if pa is None:
            return None
        v = ED.point_compress(ED.point_mul(k, pa))
        self.sm[(k, a)] = v
        return v


class Refuse(Exception):
    pass


# ---------------------------------------------------------------- query collector
# Walks a case the way the Coq models will and asks the primitives.  NOT trusted: a query it forgets is a
# missing table entry = poison value = the case fails loudly (mismatch), it cannot make a case pass.
def q_noclamp(R, n):
    if len(n) != 32:
        raise Refuse
    k = le(n)
    q = R.smulB(k % 2**255)
    if q == IDENT or k == 0:
        raise Refuse
    return q


def q_from_seed(R, seed):
    if len(seed) < 32:
        raise Refuse
    s = bytearray(seed)
    s[0] &= 0xf8; s[31] &= 0x1f; s[31] |= 0x40
    s = bytes(s)
    A = q_noclamp(R, s[:32])
    return dict(rx=s[:64], rp=A, rc=s[64:], xprv=s[:64], pub=A, cc=s[64:])


def q_derive(R, w, index, private, hardened):
    if not w['rx'] and not w['rp']:
        raise Refuse
    if hardened:
        index += 2**31
    A, cc = w['pub'], w['cc']
    if private:
        if w['xprv'] is None:
            raise Refuse
        kLP, kRP = w['xprv'][:32], w['xprv'][32:]
        if not 0 <= index < 2**32:
            raise Refuse
        ib = index.to_bytes(4, 'little')
        if index < 2**31:
            Z, c = R.hmac(cc, b'\x02' + A + ib), R.hmac(cc, b'\x03' + A + ib)[32:]
        else:
            Z, c = R.hmac(cc, b'\x00' + kLP + kRP + ib), R.hmac(cc, b'\x01' + kLP + kRP + ib)[32:]
        kLn = le(Z[:28]) * 8 + le(kLP)
        kRn = (le(Z[32:]) + le(kRP)) % 2**256
        if kLn >= 2**256:
            raise Refuse
        if kLn < 2**255:
            R.smulB(kLn)                          # the specification's kL'·B
        kL = kLn.to_bytes(32, 'little')
        An = q_noclamp(R, kL)
        return dict(w, xprv=kL + kRn.to_bytes(32, 'little'), pub=An, cc=c)
    if not 0 <= index < 2**32 or index >= 2**31:
        raise Refuse
    ib = index.to_bytes(4, 'little')
    Z, c = R.hmac(cc, b'\x02' + A + ib), R.hmac(cc, b'\x03' + A + ib)[32:]
    zl = le(Z[:28])
    R.gadd(A, R.smulB(8 * zl))                    # the specification's A + (8 zL)·B
    Q = q_noclamp(R, (8 * zl).to_bytes(32, 'little'))
    if len(A) != 32:
        raise Refuse
    An = R.gadd(A, Q)
    if An is None:
        raise Refuse
    return dict(w, xprv=None, pub=An, cc=c)


def q_path(R, w, path, private):
    if path[:2] != 'm/':
        raise Refuse
    for comp in path.lstrip('m/').split('/'):
        try:
            if comp.endswith("'"):
                w = q_derive(R, w, int(comp[:-1]), private, True)
            else:
                w = q_derive(R, w, int(comp), private, False)
        except ValueError:
            raise Refuse
    return w


def q_sign(R, xprv, msg):
    left, right = xprv[:32], xprv[32:64]
    A = q_noclamp(R, left)
    r = le(R.sha(right + msg)) % L
    Rb = q_noclamp(R, r.to_bytes(32, 'little'))
    R.sha(Rb + A + msg)


def collect(case, res):
    R = Rec()
    o = case['origin']
    msg = bytes.fromhex(case['msg'])
    w = None
    try:
        if o['kind'] in ('entropy', 'mnemonic'):
            e, p = bytes.fromhex(o['entropy']), o['passphrase'].encode('utf-8')
            if o['kind'] == 'mnemonic' or len(e) in (16, 20, 24, 28, 32):
                w = q_from_seed(R, R.pbkdf2(p, e))
        else:
            b = lambda k: bytes.fromhex(o[k])
            w = dict(rx=b('root_xprv'), rp=b('root_pub'), rc=b('root_cc'), xprv=None if o['xprv'] is None else b('xprv'),
                     pub=b('pub'), cc=b('cc'))
            R.valid(w['pub'])
            if w['xprv'] is not None and le(w['xprv'][:32]) < 2**255:
                R.smulB(le(w['xprv'][:32]))
    except Refuse:
        w = None
    if w is not None:
        for op in case['ops']:
            try:
                w = q_derive(R, w, op[1], op[2], op[3]) if op[0] == 'derive' else q_path(R, w, op[1], op[2])
            except Refuse:
                break
        if w['xprv'] is not None:
            try:
                q_sign(R, w['xprv'], msg)
            except Refuse:
                pass
    # verification equation on what the implementation returned
    recs = res['recs']
    if len(recs) >= 3 and recs[-2][0] == 0 and recs[-1][0] == 0 and recs[-3][0] == 0:
        sig, A = bytes.fromhex(recs[-2][1][0]), bytes.fromhex(recs[-1][1][1])
        if len(sig) == 64 and len(A) == 32:
            Rb, S = sig[:32], le(sig[32:])
            R.valid(A); R.valid(Rb)
            h = le(R.sha(Rb + A + msg)) % L
            R.smulB(S)
            hA = R.smul(h, A)
            if hA is not None:
                R.gadd(Rb, hA)
    return R


# ---------------------------------------------------------------- Coq literals
# byte strings repeat a lot inside a shard (root fields in every snapshot, table keys): each distinct string of
# 8+ bytes is defined once (Definition b<k> := hx "...") and referred to by name
_POOL = {}


def hx(b):
    b = bytes(b)
    if len(b) < 8:
        return f'(hx "{b.hex()}")'
    if b not in _POOL:
        _POOL[b] = f'b{len(_POOL)}'
    return _POOL[b]


def r_tabs(R):
    pb = C.clist([f'({hx(p)}, {hx(s)}, {hx(v)})' for (p, s), v in R.pb.items()])
    hm = C.clist([f'({hx(k)}, {hx(d)}, {hx(v)})' for (k, d), v in R.hm.items()])
    sh = C.clist([f'({hx(d)}, {hx(v)})' for d, v in R.sh.items()])
    sb = C.clist([f'({C.cn(k)}, {hx(v)})' for k, v in R.sb.items()])
    ga = C.clist([f'({hx(a)}, {hx(b)}, {"None" if v is None else "Some " + hx(v)})' for (a, b), v in R.ga.items()])
    sm = C.clist([f'({C.cn(k)}, {hx(a)}, {hx(v)})' for (k, a), v in R.sm.items()])
    inv = C.clist([hx(b) for b in sorted(R.inv)])
    return f'(mkT {pb} {hm} {sh} {sb} {ga} {sm} {inv})'


def r_origin(o):
    if o['kind'] == 'entropy':
        return f'(OEntropy {hx(bytes.fromhex(o["entropy"]))} {hx(o["passphrase"].encode("utf-8"))})'
    if o['kind'] == 'mnemonic':
        return f'(OMnemonic {hx(bytes.fromhex(o["entropy"]))} {hx(o["passphrase"].encode("utf-8"))})'
    b = lambda k: hx(bytes.fromhex(o[k]))
    xp = 'None' if o['xprv'] is None else f'(Some {b("xprv")})'
    return f'(ORaw (mkW {b("root_xprv")} {b("root_pub")} {b("root_cc")} {xp} {b("pub")} {b("cc")} (S "m")))'


def r_op(op):
    if op[0] == 'derive':
        return f'(ODerive {C.cz(op[1])} {C.cbool(op[2])} {C.cbool(op[3])})'
    return f'(OPath (S {C.cstr(op[1])}) {C.cbool(op[2])})'


def r_recs(recs):
    return C.clist([f'({C.cn(c)}, {C.clist([hx(bytes.fromhex(f)) for f in fs])})' for c, fs in recs])


def render(items):
    """items: list of (case, result)."""
    rows = []
    _POOL.clear()
    for i, (c, r) in enumerate(items):
        R = collect(c, r)
        rows.append(f'({i}%nat, ({r_tabs(R)}, {r_origin(c["origin"])}, {C.clist([r_op(o) for o in c["ops"]])}, '
                    f'{hx(bytes.fromhex(c["msg"]))}, {r_recs(r["recs"])}, {C.cbool(r["nacl_ok"])}))')
    defs = ''.join(f'Definition {name} := hx "{b.hex()}".\n' for b, name in _POOL.items())
    body = defs + 'Definition cases : list (nat * c16_case) :=\n' + C.clist(rows) + '.\n'
    body += 'Eval vm_compute in (map fst (filter (fun c => negb (c16_corr (snd c))) cases)).\n'
    body += 'Eval vm_compute in (map fst (filter (fun c => negb (c16_oracle (snd c))) cases)).\n'
    return body


# ---------------------------------------------------------------- generator
PASS = ['', '', 'hunter2', 'correct horse battery staple', ' lead and trail ', 'pässwörd', '日本語のパス',
        'a' * 100, '\U0001f511key', 'TREZOR', 'ñö (combining)']
SOFT = [0, 0, 1, 2, 5, 255, 256, 257, 65535, 65536, 2**24, 2**31 - 2, 2**31 - 1, 2**31 - 1]
HARDRAW = [2**31, 2**31, 2**31 + 1, 2**31 + 255, 2**31 + 256, 2**31 + 1852, 2**32 - 2, 2**32 - 1, 2**32 - 1]
HFLAG = [0, 0, 1, 2, 255, 256, 1852, 1815, 65536, 2**31 - 1, 2**31 - 1]
BADIDX = [(-1, False), (2**32, False), (2**31, True), (2**32 - 1, True), (-2**31 - 1, True), (2**40, False)]
ODD_PATHS = ['m/', 'm', 'm//0', 'm/m/0', "m/0'/", 'm/ 1', 'm/1 ', 'm/1_0', 'm/+5', 'm/-1', "m/-0'", 'm/0x10', "1852'/0", 'M/0',
             'm/4294967296', "m/2147483648'", "m/00'", "m/007/08", "m/1__0", "m/_1", "m/1_", "m/'", "m/0''", 'm/1.0', 'm/ ',
             "m/4294967295", "m/2147483647'", "m/2147483648", "mm/1", "m/m", "/m/1", "m/1/m/2", "m/- 1", "m/++1", "m/1'2"]


def rand_index(rng):
    k = rng.random()
    if k < 0.45:
        return [rng.choice(SOFT), False]
    if k < 0.7:
        return [rng.choice(HFLAG), True]
    if k < 0.9:
        return [rng.choice(HARDRAW), False]
    return [rng.getrandbits(32), False]


def rand_entropy(rng, n):
    k = rng.random()
    if k < 0.08:
        return bytes(n)
    if k < 0.16:
        return b'\xff' * n
    return bytes(rng.getrandbits(8) for _ in range(n))


def path_string(steps):
    return 'm/' + '/'.join(str(i) + ("'" if h else '') for i, h in steps)


def gen_ops(rng, kind):
    if kind == 'cip1852-string' or kind == 'cip1852-steps':
        acct = rng.choice([0, 0, 1, 2, 2**31 - 1])
        role = rng.randrange(6)
        idx = rng.choice(SOFT + [rng.getrandbits(31)])
        steps = [(1852, True), (1815, True), (acct, True), (role, False), (idx, False)]
        steps = steps[:rng.choice([5, 5, 5, 3, 4])]
        if kind == 'cip1852-string':
            return [['path', path_string(steps), True]]
        return [['derive', i, True, h] for i, h in steps]
    if kind == 'random-private':
        ops = []
        for _ in range(rng.randint(1, 6)):
            i, h = rand_index(rng)
            ops.append(['derive', i, True, h])
        if rng.random() < 0.3:
            i, h = rng.choice(BADIDX)
            ops.insert(rng.randrange(len(ops) + 1), ['derive', i, True, h])
        return ops
    if kind == 'public-suffix':
        ops = []
        for _ in range(rng.randint(0, 3)):
            i, h = rand_index(rng)
            ops.append(['derive', i, True, h])
        for _ in range(rng.randint(1, 6 - len(ops))):
            ops.append(['derive', rng.choice(SOFT), False, False])
        k = rng.random()
        if k < 0.2:
            ops.append(['derive', rng.choice(HFLAG), False, True])          # hardened public: refused
        elif k < 0.3:
            ops.append(['derive', rng.choice(HARDRAW), False, False])
        elif k < 0.45:
            ops.append(['derive', rng.choice(SOFT), True, False])           # private after public: refused
        elif k < 0.5:
            i, h = rng.choice(BADIDX)
            ops.append(['derive', i, False, h])
        return ops
    if kind == 'path-mixed':
        n = rng.randint(1, 6)
        private = rng.random() < 0.6
        steps = []
        for _ in range(n):
            i, h = rand_index(rng)
            if not private and rng.random() < 0.85:
                i, h = rng.choice(SOFT), False
            steps.append((i, h))
        ops = [['path', path_string(steps), private]]
        if rng.random() < 0.4:
            ops.append(['path', path_string([(rng.choice(SOFT), False)]), rng.random() < 0.5])
        return ops
    if kind == 'odd-path':
        ops = []
        if rng.random() < 0.5:
            ops.append(['derive', rng.choice(HFLAG), True, True])
        ops.append(['path', rng.choice(ODD_PATHS), rng.random() < 0.7])
        return ops
    raise ValueError(kind)


KINDS = ['cip1852-string', 'cip1852-steps', 'random-private', 'public-suffix', 'path-mixed', 'odd-path']

INVALID_PUBS = None


def invalid_pubs():
    global INVALID_PUBS
    if INVALID_PUBS is None:
        INVALID_PUBS = [y.to_bytes(32, 'little') for y in range(2, 40) if ED.point_decompress(y.to_bytes(32, 'little')) is None][:4]
    return INVALID_PUBS


def raw_case(rng):
    """HDWallet built directly: exercises the model OUTSIDE the theorems' side conditions (faithfulness)."""
    k = rng.choice(['bit255', 'overflow', 'invalid-pub', 'pub-only', 'empty-roots', 'consistent', 'kl-zero', 'short'])
    cc = bytes(rng.getrandbits(8) for _ in range(32))
    kR = bytes(rng.getrandbits(8) for _ in range(32))
    kl = rng.getrandbits(250) + 2**254
    ops = [['derive', *x] for x in ([rng.choice(SOFT), True, False], [rng.choice(HFLAG), True, True])]
    if k == 'bit255':
        kl = 2**255 + rng.getrandbits(254)
    elif k == 'overflow':
        kl = 2**256 - 1 - rng.getrandbits(200)
    elif k == 'kl-zero':
        kl = 0
    pub = ED.point_compress(_smul_base(kl % 2**255)) if kl % 2**255 else IDENT
    xprv = kl.to_bytes(32, 'little') + kR
    if k == 'invalid-pub':
        pub = rng.choice(invalid_pubs())
        ops = [['derive', rng.choice(SOFT), False, False]]
    if k == 'pub-only':
        xprv = None
        ops = [['derive', rng.choice(SOFT), False, False], ['derive', rng.choice(SOFT), rng.random() < 0.5, False]]
    if k == 'short':
        xprv = xprv[:rng.choice([31, 40, 63])]
    o = dict(kind='raw', root_xprv=(xprv or b'').hex(), root_pub=pub.hex(), root_cc=cc.hex(),
             xprv=None if xprv is None else xprv.hex(), pub=pub.hex(), cc=cc.hex())
    if k == 'empty-roots':
        o['root_xprv'] = o['root_pub'] = ''
    return {'origin': o, 'ops': ops, 'msg': bytes(rng.getrandbits(8) for _ in range(rng.choice([0, 1, 32]))).hex(),
            'kind': 'raw-' + k}


def rand_msg(rng):
    n = rng.choice([0, 0, 1, 2, 31, 32, 33, 63, 64, 65, 127, 128, 255, 256, rng.randint(0, 256)])
    return bytes(rng.getrandbits(8) for _ in range(n)).hex()


# the stale-private-key defect (fixed in /repo ff9ab4d): always runs first and must satisfy the oracle
CORPUS = [
    {'origin': {'kind': 'entropy', 'entropy': '00' * 16, 'passphrase': ''},
     'ops': [['path', "m/1852'/1815'/0'", True], ['derive', 0, False, False], ['derive', 1, True, False]],
     'msg': '6869', 'kind': 'corpus-public-then-private'},
    {'origin': {'kind': 'entropy', 'entropy': '00' * 16, 'passphrase': ''},
     'ops': [['path', "m/1852'/1815'/0'", True], ['derive', 0, False, False]],
     'msg': '6869', 'kind': 'corpus-public-only-packaging'},
    {'origin': {'kind': 'entropy', 'entropy': '00' * 16, 'passphrase': ''},
     'ops': [['path', "m/1852'/1815'/0'", True], ['derive', 0, True, False], ['derive', 1, True, False]],
     'msg': '6869', 'kind': 'corpus-private-route'},
    # test_bip32.py's 12-word vector: "test walk nut penalty hip pave soap entry language right filter choice"
    {'origin': {'kind': 'mnemonic', 'entropy': 'df9ed25ed146bf43336a5d7cf7395994', 'passphrase': ''},
     'ops': [['path', "m/1852'/1815'/0'/0/0", True]], 'msg': '', 'kind': 'corpus-test-vector'},
]


def gen_cases(ctx, nwallets, npaths, nraw):
    rng = ctx.rng
    cases = [dict(c) for c in CORPUS]
    for wi in range(nwallets):
        n = [16, 20, 24, 28, 32][wi % 5]
        ent = rand_entropy(rng, n)
        pw = PASS[wi % len(PASS)] if wi < 2 * len(PASS) else rng.choice(PASS)
        okind = 'mnemonic' if wi % 2 else 'entropy'
        origin = {'kind': okind, 'entropy': ent.hex(), 'passphrase': pw}
        kinds = KINDS[:] if npaths >= len(KINDS) else rng.sample(KINDS, npaths)
        while len(kinds) < npaths:
            kinds.append(rng.choice(KINDS))
        for k in kinds:
            cases.append({'origin': origin, 'ops': gen_ops(rng, k), 'msg': rand_msg(rng), 'kind': k, 'siblings': rng.random() < 0.5})
    for bad in (0, 15, 17, 33, 64):
        cases.append({'origin': {'kind': 'entropy', 'entropy': 'ab' * bad, 'passphrase': 'x'},
                      'ops': [['derive', 0, True, True]], 'msg': '', 'kind': 'bad-entropy-length'})
    for _ in range(nraw):
        cases.append(raw_case(rng))
    return cases


def gen_foreign(ctx, n):
    langs = ['japanese', 'french', 'spanish', 'italian', 'korean', 'chinese_simplified', 'chinese_traditional']
    return [{'origin': {'kind': 'mnemonic', 'lang': langs[i % len(langs)],
                        'entropy': bytes(ctx.rng.getrandbits(8) for _ in range([16, 24, 32][i % 3])).hex(), 'passphrase': ''},
             'ops': [['path', "m/1852'/1815'/0'/0/0", True]], 'msg': '00', 'kind': 'foreign-mnemonic'} for i in range(n)]


# ---------------------------------------------------------------- evaluation
def evaluate(cases, results, shard=None):
    mism, ofail, errs = set(), set(), []
    good = []
    for i, (c, r) in enumerate(zip(cases, results)):
        if 'driver_error' in r:
            mism.add(i); ofail.add(i)
        else:
            good.append((i, c, r))
    shards, maps = [], []
    shard = shard or min(40, max(6, -(-len(good) // 15)))
    for k in range(0, len(good), shard):
        part = good[k:k + shard]
        shards.append(render([(c, r) for _, c, r in part]))
        maps.append([i for i, _, _ in part])
    for (ok, lists, log), mp in zip(C.run_cases(PID, shards, HEADER), maps):
        if not ok or len(lists) != 2:
            errs.append(log[-1500:])
            continue
        mism.update(mp[j] for j in lists[0]); ofail.update(mp[j] for j in lists[1])
    return mism, ofail, errs


def classify(case, res):
    if 'driver_error' in res:
        return 'exception'
    k = case.get('kind', '')
    if k.startswith('raw'):
        return 'raw-wallet'
    if res['recs'] and res['recs'][0][0] != 0:
        return 'root'
    if any(o[0] == 'path' for o in case['ops']):
        return 'path-string'
    if any(o[0] == 'derive' and not o[2] for o in case['ops']):
        return 'public-derivation'
    return 'private-derivation'


def nontrivial(res):
    return 'recs' in res and sum(1 for c, _ in res['recs'][:-3] if c == 0) >= 2


def strip(case):
    return {k: v for k, v in case.items() if k != 'kind'}


def correspond(ctx, sizes=None):
    nw, npth, nraw = sizes or (ctx.n(40, 600), ctx.n(6, 16), ctx.n(16, 200))
    assert ED._selftest()
    t0 = time.time()
    cases = gen_cases(ctx, nw, npth, nraw)
    foreign = gen_foreign(ctx, ctx.n(7, 70))
    results = C.run_impl('bip32_driver', {'cases': [strip(c) for c in cases + foreign]})
    fres = results[len(cases):]
    results = results[:len(cases)]
    t_impl = time.time() - t0
    # non-English mnemonics: the word list is an oracle. A refusal is recorded; an accepted one must be the Icarus root
    foreign_refused = 0
    for c, r in zip(foreign, fres):
        if 'driver_error' in r or r['recs'][0][0] == 0:
            cases.append(c); results.append(r)
        else:
            foreign_refused += 1
    mism, ofail, errs = evaluate(cases, results)
    if errs:
        raise RuntimeError('cases file failed to compile: ' + errs[0])
    hist = {'kind': {}, 'entropy_len': {}, 'err_code_at_stop': {}, 'depth_ok': {}, 'msg_len_class': {}, 'passphrase': {}}
    def bump(h, k):
        hist[h][str(k)] = hist[h].get(str(k), 0) + 1
    for c, r in zip(cases, results):
        bump('kind', c.get('kind'))
        if c['origin']['kind'] != 'raw':
            bump('entropy_len', len(c['origin']['entropy']) // 2)
            pw = c['origin']['passphrase']
            bump('passphrase', 'empty' if not pw else 'ascii' if pw.isascii() else 'non-ascii')
        if 'recs' in r:
            stops = [cd for cd, _ in r['recs'] if cd not in (0, 99)]
            bump('err_code_at_stop', stops[0] if stops else 'none')
            bump('depth_ok', sum(1 for cd, _ in r['recs'][1:-3] if cd == 0))
        n = len(c['msg']) // 2
        bump('msg_len_class', '0' if n == 0 else '<=32' if n <= 32 else '<=64' if n <= 64 else '<=256')
    distinct = len({C.canon_hash(strip(c)) for c, r in zip(cases, results) if nontrivial(r)})
    def pack(i):
        return {'input': strip(cases[i]), 'impl': results[i], 'region': classify(cases[i], results[i])}
    return dict(
        evaluations=len(cases), distinct_nontrivial=distinct,
        rule='wallets from entropies of 16/20/24/28/32 bytes (random, all-zero, all-ff) via from_entropy or from_mnemonic (English), '
             'ASCII/non-ASCII/empty passphrases; per wallet: CIP-1852 path 1852\'/1815\'/a\'/role/idx (roles 0..5) as string and as steps, '
             'random private paths of depth 1..6 over boundary indices (0, 255/256, 2^31-1, 2^31, 2^32-1, hardened flag, out-of-range), '
             'private prefix + public-only suffix (+ hardened public / private-after-public refusals), path strings in both modes, '
             'odd path strings; directly constructed wallets outside the side conditions; messages of 0..256 bytes. '
             'non-trivial = at least one derivation step returned a wallet; distinct by hash of the case',
        samples=[strip(cases[0]), strip(cases[len(CORPUS) + 2])],
        histograms=hist, foreign_language_mnemonics=dict(tried=len(foreign), refused_by_from_mnemonic=foreign_refused),
        compared='every HDWallet field (root_xprivate_key, root_public_key, root_chain_code, xprivate_key or None, public_key, '
                 'chain_code, path) after the root and after every operation, exception kinds, ExtendedSigningKey.from_hdwallet payload, '
                 'signature bytes, verification keys; oracle = Bip32Spec on the same tables + Ed25519 verification equation + PyNaCl verify',
        impl_seconds=round(t_impl, 1),
        mismatches=[pack(i) for i in sorted(mism)[:20]],
        oracle_fail=[pack(i) for i in sorted(ofail)[:50]],
    )


def search(ctx, mism):
    """Something no longer checks: look harder for an input on which the specification rejects the implementation's output."""
    ctx.rng.seed(f'search-{ctx.seed}')
    r = correspond(ctx, (90, 6, 24) if ctx.quick else (600, 12, 100))
    if r['oracle_fail']:
        return min(r['oracle_fail'], key=lambda f: len(json.dumps(f)))
    return None


def replay(ctx, rep):
    case = rep['case']['input']
    res = C.run_impl('bip32_driver', {'cases': [case]}, nshards=1)
    mism, ofail, errs = evaluate([case], res)
    print('input:', json.dumps(case))
    print('implementation:', json.dumps(res[0]))
    if errs:
        print('cases file failed:', errs[0])
        return 2
    print('model agrees:', 0 not in mism, ' specification accepts the output:', 0 not in ofail)
    return 1 if ofail else 0
