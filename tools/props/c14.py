"""C14 — coin selection returns a covering subset or fails explicitly."""
import itertools, json, os
from lib import common as C
from lib.common import cz, cnat, cbool, clist, copt

PID = 'C14'
TARGETS = ['props/C14.vo', 'theories/CoinSelOracle.vo']
LEVEL = 'proof'

MANIFEST = dict(
    text='Theorems (Coq, all pools, all requests, all limits, every stream of random choices, by induction): whatever '
         'largest-first / random-improve return is a list of distinct pool positions whose amounts cover request (+max fee) in '
         'ADA and every asset, with change = selected - requested and at most `limit` inputs; largest-first reports '
         'insufficient balance only when the pool cannot cover the request (+ min change); random-improve with the built-in '
         'random source ends within |pool|*(assets+3) draws with a result or MaxInputCountExceeded/InputUTxODepleted. '
         'Model tied to the code by exact correspondence (indices in order, raw change, exception kind).',
    note='Trusted: Coq kernel+vm_compute; hand model CoinSel.v validated by differential runs (small scope + random pools); '
         'fee and min-change numbers are computed by the real utils functions and passed to the model as data. No axioms.',
    technique='Coq proof (loop invariants by induction on work list / random stream) + correspondence', ref='C14')
TRUSTED = [
    'Coq 8.16.1 kernel incl. vm_compute (no native_compute); no axioms (see Print Assumptions lines)',
    'hand model coq/theories/CoinSel.v of coinselection.py (both selectors incl. _improve and the min-change top-up), '
    'on top of Value.v; tied by correspondence: same selected indices in the same order, same raw change, same exception kind',
    'max_tx_fee(context) and min_lovelace_post_alonzo(change) enter the model as numbers computed by the real functions',
    'tools/impl/coinsel_driver.py (fake ChainContext, identity-based index report, pool snapshot), tools/props/c14.py (generator)',
]
ASSUMPTIONS = [
    'pool UTxOs have pairwise different transaction inputs (UTxO equality = identity); amounts of pool UTxOs are non-negative',
    'dict keys are unique (Python dict); typeguard / constructor validation outside the model (well-typed operands only)',
    'an injected random_generator yields Python ints; the built-in source is modelled as outcome = r mod len for arbitrary r',
    'domain of the theorems and of the oracle: non-negative amounts in pool and request, fee >= 0, a stated limit is positive '
    '(max_input_count = 0 is read as "no limit" by the code); cases outside are generated only to validate the model',
]

ADA = 1000000
PA, PB, PC = '01' * 28, '02' * 28, 'ff' * 28
ASSETS = [(PA, '61'), (PB, ''), (PA, '62'), (PC, '746f6b656e')]        # A, B, A', C
CTXS = [dict(a=44, b=155381, cpb=4310, ex=True),      # FixedChainContext: fee 2174277, min change ~0.86-1.2 ADA
        dict(a=0, b=300000, cpb=4310, ex=False),      # fee 0.3 ADA
        dict(a=0, b=0, cpb=1000, ex=False),           # fee 0, min change ~0.2 ADA
        dict(a=44, b=155381, cpb=20000, ex=False)]    # fee 876277, min change ~4 ADA
FEES = [2174277, 300000, 0, 876277]
SMALL_ALPHA = [(c * ADA, t) for c in (1, 2, 5) for t in ((), ((0, 1),), ((0, 2),), ((1, 1),))]
QUICK_ALPHA = [(ADA, ()), (5 * ADA, ()), (2 * ADA, ((0, 1),)), (ADA, ((0, 2),)), (2 * ADA, ((1, 1),))]


def mk_val(coin, toks):
    """toks: iterable of (asset index, qty) -> [coin, ma] literal (insertion order kept)"""
    ma = []
    for ai, q in toks:
        p, n = ASSETS[ai]
        for e in ma:
            if e[0] == p:
                for nq in e[1]:
                    if nq[0] == n:
                        nq[1] += q; break           # dict keys are unique
                else:
                    e[1].append([n, q])
                break
        else:
            ma.append([p, [[n, q]]])
    return [coin, ma]


def totals(vals):
    coin, tok = 0, {}
    for c, ma in vals:
        coin += c
        for p, names in ma:
            for n, q in names:
                tok[(p, n)] = tok.get((p, n), 0) + q
    return coin, tok


def split_outs(rng, coin, toks):
    """spread a request over 1..3 outputs"""
    k = rng.choice([1, 1, 1, 2, 3])
    outs = [[0, []] for _ in range(k)]
    rest = coin
    for i in range(k - 1):
        x = rng.randint(0, rest) if rest > 0 else 0
        outs[i][0] = x; rest -= x
    outs[k - 1][0] = rest
    for ai, q in toks:
        j = rng.randrange(k)
        if q > 1 and k > 1 and rng.random() < 0.3:
            x = rng.randint(1, q - 1)
            outs[j] = mk_val(outs[j][0], _toks(outs[j]) + [(ai, x)])
            j2 = rng.randrange(k)
            outs[j2] = mk_val(outs[j2][0], _toks(outs[j2]) + [(ai, q - x)])
        else:
            outs[j] = mk_val(outs[j][0], _toks(outs[j]) + [(ai, q)])
    return outs


def _toks(v):
    out = []
    for p, names in v[1]:
        for n, q in names:
            out.append((ASSETS.index((p, n)), q))
    return out


def rand_stream(rng, alg, n):
    if alg == 'lf':
        return []
    if alg == 'rb':
        return [rng.choice([rng.randrange(0, 12), rng.randrange(-50, 10 ** 6), 0]) for _ in range(n * 8 + 4)]
    mode = rng.random()
    ln = rng.choice([0, 1, 2, n, n + 2, 2 * n + 6] + [3 * n + 8] * 8 + [4 * n + 10] * 2)
    if mode < 0.25:
        return [0] * ln
    bad = 0.06 if rng.random() < 0.3 else 0.0
    out = []
    for k in range(ln):
        hi = max(1, n - (k if mode < 0.7 else k // 2))
        x = rng.randrange(0, hi)
        if rng.random() < bad:
            x = rng.choice([-1, hi, n, n + 3, -n])
        out.append(x)
    return out


def small_requests(rng, pool, fee):
    coin, tok = totals(pool)
    a = tok.get(ASSETS[0], 0); b = tok.get(ASSETS[1], 0)
    base = max(coin - fee, 0)
    return [(1 * ADA, []), (base, []), (base + 1, []), (ADA, [(0, max(a, 1))]), (ADA, [(0, a + 1)]),
            (base // 2, [(1, 1)]), (2 * ADA, [(0, 1), (1, 1)]), (0, [(1, b + 1)]), (0, []),
            (max(base - 900000, 0), [(0, a)] if a else []), (1, [(0, 1), (1, 1)])]


def coverable(pool, coin, toks):
    c, t = totals(pool)
    return coin <= c and all(q <= t.get(ASSETS[ai], 0) for ai, q in toks)


def small_case(rng, pool=None, req=None, lim='?', fee=None, minchg=None, alg=None):
    if pool is None:
        pool = [mk_val(*rng.choice(SMALL_ALPHA)) for _ in range(rng.choice([0, 1, 2, 2, 3, 3, 3, 4, 4, 4]))]
    ci = rng.choice([0, 1, 1, 2, 2, 3])
    fee = rng.random() < 0.5 if fee is None else fee
    reqs = small_requests(rng, pool, FEES[ci] if fee else 0)
    if req is None:
        for _ in range(4):                       # bias towards requests the pool can cover
            coin, toks = rng.choice(reqs)
            if coverable(pool, coin + (FEES[ci] if fee else 0), toks) or rng.random() < 0.4:
                break
    else:
        coin, toks = reqs[req]
    alg = alg or rng.choice(['lf', 'ri', 'ri', 'rb'])
    return dict(alg=alg, pool=pool, outs=split_outs(rng, coin, toks),
                lim=rng.choice([None, 1, 2, 3, 4]) if lim == '?' else lim, fee=fee,
                minchg=rng.random() < 0.5 if minchg is None else minchg,
                stream=rand_stream(rng, alg, len(pool)), ctx=CTXS[ci])


def large_case(rng):
    n = rng.randint(3, 10)
    na = rng.randint(0, 4)
    pool = []
    for _ in range(n):
        coin = rng.choice([0, ADA, 1200000, 1500000, 2 * ADA, 3 * ADA, 5 * ADA, 10 * ADA, 50 * ADA, rng.randint(1, 20 * ADA)])
        toks = [(ai, rng.choice([0, 1, 1, 2, 5, 100, rng.randint(1, 1000)])) for ai in range(na) if rng.random() < 0.45]
        rng.shuffle(toks)
        pool.append(mk_val(coin, toks))
    ci = rng.randrange(len(CTXS))
    fee = rng.random() < 0.5
    coin, tok = totals(pool)
    base = max(coin - (FEES[ci] if fee else 0), 0)
    rcoin = rng.choice([0, 1, 2, 100, ADA, 2 * ADA, base // 5, base // 3, base // 2, base, base + 1, max(base - ADA, 0), rng.randint(0, base + 1)])
    rt = []
    for ai in rng.sample(range(4), rng.randint(0, 4)):
        t = tok.get(ASSETS[ai], 0)
        if t == 0 and rng.random() < 0.8:
            continue
        rt.append((ai, rng.choice([1, max(t // 3, 1), max(t // 2, 1), max(t, 1), t + 1, rng.randint(1, t + 1)])))
    alg = rng.choice(['lf', 'ri', 'ri', 'rb'])
    lim = rng.choice([None, None, None, 1, 2, 3, 4, 4])
    if rng.random() < 0.02:
        return neg_case(rng)
    if rng.random() < 0.05:
        # OUTSIDE the property's domain (the Coq oracle skips its result clauses there): negative quantities in the
        # pool / non-positive limits; kept because they drive the model's KeyError / InvalidData / falsy-limit branches
        if rng.random() < 0.7:
            u = rng.choice(pool)
            toks = _toks(u)
            if toks and rng.random() < 0.8:
                k = rng.randrange(len(toks))
                t = tok.get(ASSETS[toks[k][0]], 0)
                toks[k] = (toks[k][0], -rng.choice([1, 2, toks[k][1], max(t - toks[k][1], 1)]))
                u[:] = mk_val(u[0], toks)
            else:
                u[0] = -rng.choice([1, ADA, u[0] + 1])
        else:
            lim = rng.choice([0, -1])
    return dict(alg=alg, pool=pool, outs=split_outs(rng, rcoin, rt), lim=lim, fee=fee,
                minchg=rng.random() < 0.5, stream=rand_stream(rng, alg, n), ctx=CTXS[ci])


def improve_case(rng):
    """aimed at the IMPROVEMENT phase of random-improve: a request of two or more asset classes that is small
    against the pool (so phase 1 leaves UTxOs over and phase 2 has room below the upper bound 3 x request), and an index
    stream of small values, so that the same leftover UTxO is reachable in several per-asset improvement passes"""
    n = rng.randint(2, 6)
    na = rng.choice([1, 2, 2, 3])
    pool = []
    for _ in range(n):
        coin = rng.choice([800000, ADA, 1200000, 2 * ADA, 3 * ADA])
        toks = [(ai, rng.choice([1, 2, 5, 8, 10])) for ai in range(na) if rng.random() < 0.8]
        pool.append(mk_val(coin, toks))
    coin, tok = totals(pool)
    rcoin = rng.choice([ADA, 2 * ADA, max(coin // 4, 1), max(coin // 3, 1)])
    rt = []
    for ai in range(na):
        t = tok.get(ASSETS[ai], 0)
        if t:
            rt.append((ai, rng.choice([1, max(t // 4, 1), max(t // 3, 1), max(t // 2, 1), min(10, t)])))
    alg = rng.choice(['ri', 'ri', 'rb'])
    ln = 3 * n + 8
    if alg == 'ri':
        stream = [rng.choice([0, 0, 1, 1, 2]) for _ in range(ln)]
    else:
        stream = rand_stream(rng, 'rb', n)
    ci = rng.choice([1, 2, 2])
    return dict(alg=alg, pool=pool, outs=[mk_val(rcoin, rt)] if rng.random() < 0.7 else split_outs(rng, rcoin, rt),
                lim=rng.choice([None, None, 4, 6]), fee=rng.random() < 0.3, minchg=rng.random() < 0.3, stream=stream, ctx=CTXS[ci])


def neg_case(rng):
    """OUTSIDE the domain, aimed at the model's KeyError / InvalidData branches: a UTxO with a negative token quantity
    is drawn by the improvement phase after the first phase covered the token request"""
    q = rng.choice([1, 2, 5])
    q2 = q if rng.random() < 0.5 else rng.randint(1, q)
    pool = [mk_val(1200000, [(0, q)]), mk_val(500000, [(0, -q2)])] + [mk_val(rng.choice([ADA, 2 * ADA]), []) for _ in range(rng.randint(0, 2))]
    alg = rng.choice(['ri', 'rb'])
    return dict(alg=alg, pool=pool, outs=[mk_val(ADA, [(0, q)])], lim=rng.choice([None, 4]), fee=False, minchg=rng.random() < 0.6,
                stream=[0] * 40 if alg == 'ri' or rng.random() < 0.5 else rand_stream(rng, 'rb', len(pool)), ctx=CTXS[rng.choice([0, 2])])


def exhaustive_small(rng, max_pool, alpha, streams_per_cfg):
    """every ordered pool of <= max_pool UTxOs over alpha x every request variant x limits x fee x min-change;
    largest-first once, random-improve with streams_per_cfg sampled index streams"""
    cases = []
    cnt = 0
    for k in range(max_pool + 1):
        for combo in itertools.product(alpha, repeat=k):
            pool = [mk_val(*u) for u in combo]
            for req in range(11):
                for lim in (None, 1, 2, 3, 4)[:k + 2]:
                    for fee in (False, True):
                        for minchg in (False, True):
                            cases.append(small_case(rng, pool, req, lim, fee, minchg, 'lf'))
                            for s in range(streams_per_cfg):
                                cnt += 1
                                cases.append(small_case(rng, pool, req, lim, fee, minchg, 'rb' if cnt % 2 else 'ri'))
    return cases


def corpus_cases():
    p = os.path.join(C.VERIF, 'corpus', 'C14.json')
    return json.load(open(p))['cases'] if os.path.exists(p) else []


def share_assets(rng, c):
    """equivalent construction: some bundles of the pool hold ONE Asset object under two policies (the driver shares the object
    for equal literals when the case carries share=True) -- the selectors' running totals must treat each policy as its own"""
    if rng.random() >= 0.12:
        return c
    extra = 'ab' * 28
    hit = False
    for v in c['pool']:
        if v[1] and rng.random() < 0.7 and all(p != extra for p, _ in v[1]):
            v[1] = v[1] + [[extra, [list(x) for x in v[1][0][1]]]]
            hit = True
    if hit:
        c['share'] = True
    return c


def gen_cases(ctx, n_small, n_large, exhaustive):
    rng = ctx.rng
    cases = list(corpus_cases())
    ncorpus = len(cases)
    if exhaustive:
        cases += exhaustive_small(rng, *exhaustive)
    cases += [small_case(rng) for _ in range(n_small)]
    cases += [share_assets(rng, large_case(rng)) for _ in range(n_large)]
    cases += [share_assets(rng, improve_case(rng)) for _ in range(max(200, n_large // 3))]
    return cases, ncorpus


# ---------------------------------------------------------------- rendering
ERR = {'InsufficientUTxOBalanceException': 'EInsufficient', 'MaxInputCountExceededException': 'EMaxInput',
       'InputUTxODepletedException': 'EDepleted', 'UTxOSelectionException': 'ESelection', 'IndexError': 'EIndexError',
       'KeyError': 'EKeyError', 'InvalidDataException': 'EInvalidData', 'StreamOut': 'EStreamOut'}

HEADER = '''From Coq Require Import ZArith NArith List String.
From PyC Require Import Base Dict Value ValueOracle CoinSel CoinSelOracle.
Import ListNotations.
Open Scope string_scope.
'''


class Names:
    def __init__(self):
        self.m = {}

    def hx(self, h):
        if h not in self.m:
            self.m[h] = f'b{len(self.m)}'
        return self.m[h]

    def defs(self):
        return ''.join(f'Definition {v} := hx "{k}".\n' for k, v in self.m.items())


def r_val(nm, v):
    ma = clist(['(%s, %s)' % (nm.hx(p), clist(['(%s, %s)' % (nm.hx(n), cz(q)) for n, q in names])) for p, names in v[1]])
    return f'(mkValue {cz(v[0])} {ma})'


def r_case(nm, i, c, r):
    alg = {'lf': 'ALf', 'ri': '(ARi false)', 'rb': '(ARi true)'}[c['alg']]
    inp = (f'(mkIn {alg} {clist([r_val(nm, v) for v in c["pool"]])} {clist([r_val(nm, v) for v in c["outs"]])} '
           f'{copt(None if c["lim"] is None else cz(c["lim"]))} {cz(r["fee"])} {cbool(c["minchg"])} '
           f'{copt(None if r["mc"] is None else cz(r["mc"]))} {clist([cz(x) for x in c["stream"]])})')
    res = r['res']
    if res[0] == 'ok':
        out = f'(IOk {clist([cnat(x if 0 <= x < 4999 else 4999) for x in res[1]])} {r_val(nm, res[2])})'
    elif res[1] in ERR:
        out = f'(IErr {ERR[res[1]]})'
    else:
        out = 'IOther'
    return f'({cnat(i)}, ({inp}, {out}, {clist([r_val(nm, v) for v in r["pool_after"]])}, {cbool(r["same_objs"])}))'


def render(part):
    nm = Names()
    items = [r_case(nm, j, c, r) for j, (c, r) in enumerate(part)]
    body = nm.defs()
    body += 'Definition cases : list (nat * (c14_in * impl_out * list value * bool)) :=\n' + clist(items) + '.\n'
    body += ('Eval vm_compute in (map fst (filter (fun c => match snd c with (i, o, pa, so) => negb (c14_corr i o) end) cases)).\n'
             'Eval vm_compute in (map fst (filter (fun c => match snd c with (i, o, pa, so) => negb (c14_oracle i o pa so) end) cases)).\n')
    return body


def evaluate(cases, results, shard=250):
    mism, ofail, errs = set(), set(), []
    good = []
    for i, (c, r) in enumerate(zip(cases, results)):
        if 'driver_error' in r:
            mism.add(i); ofail.add(i)
        else:
            good.append((i, c, r))
    shards, maps = [], []
    for k in range(0, len(good), shard):
        part = good[k:k + shard]
        shards.append(render([(c, r) for _, c, r in part]))
        maps.append([i for i, _, _ in part])
    for (ok, lists, log), mp in zip(C.run_cases(PID, shards, HEADER), maps):
        if not ok or len(lists) != 2:
            errs.append(log[-1500:])
            continue
        mism.update(mp[j] for j in lists[0]); ofail.update(mp[j] for j in lists[1])
    return mism, ofail, errs


# ---------------------------------------------------------------- classification (diagnostic labels only)
def classify(case, res):
    if 'driver_error' in res:
        return 'driver-error'
    if not res['same_objs'] or res['pool_after'] != case['pool']:
        return 'pool-modified'
    r = res['res']
    alg = case['alg']
    if r[0] == 'err':
        if r[1] == 'InsufficientUTxOBalanceException' and alg == 'lf':
            return 'lf-insufficient-but-coverable'
        return f'{alg}-error-kind:{r[1]}'
    idx = r[1]
    if len(set(idx)) != len(idx) or any(not 0 <= i < len(case['pool']) for i in idx):
        return f'{alg}-not-distinct-subset'
    if case['lim'] is not None and len(idx) > case['lim']:
        return f'{alg}-limit-exceeded'
    sc, st = totals([case['pool'][i] for i in idx])
    rc, rt = totals(case['outs'])
    rc += res['fee']
    if sc < rc or any(st.get(k, 0) < q for k, q in rt.items()):
        return f'{alg}-not-covering'
    cc, ct = totals([r[2]])
    keys = set(st) | set(rt) | set(ct)
    if cc != sc - rc or any(ct.get(k, 0) != st.get(k, 0) - rt.get(k, 0) for k in keys):
        return f'{alg}-change-wrong'
    return f'{alg}-none-of-the-clauses-fails'


def nontrivial(case, res):
    r = res.get('res')
    if not r or not case['pool']:
        return False
    return (r[0] == 'ok' and len(r[1]) >= 1) or r[0] == 'err'


def in_domain(case):
    def neg(v):
        return v[0] < 0 or any(q < 0 for _, names in v[1] for _, q in names)
    return not any(neg(v) for v in case['pool'] + case['outs']) and (case['lim'] is None or case['lim'] > 0)


CHUNK = 30000


def correspond(ctx, sizes=None):
    n_small, n_large, exh = sizes or ctx.n((2200, 900, (2, QUICK_ALPHA[:3] + QUICK_ALPHA[4:], 1)), (20000, 40000, (3, QUICK_ALPHA, 2)))
    cases, ncorpus = gen_cases(ctx, n_small, n_large, exh)
    kinds, algs, sizes_h, nsel = {}, {}, {}, {}
    distinct, mism_p, ofail_p = set(), [], []
    mc_calls = outside = 0
    topups = {}
    for k0 in range(0, len(cases), CHUNK):            # bounded memory: implementation + Coq evaluation per chunk
        part = cases[k0:k0 + CHUNK]
        results = C.run_impl('coinsel_driver', {'cases': part})
        mism, ofail, errs = evaluate(part, results)
        if errs:
            raise RuntimeError('cases file failed to compile: ' + errs[0])
        for c, r in zip(part, results):
            res = r.get('res', ['driver_error'])
            k = 'ok' if res[0] == 'ok' else res[-1]
            kinds[f'{c["alg"]}:{k}'] = kinds.get(f'{c["alg"]}:{k}', 0) + 1
            algs[c['alg']] = algs.get(c['alg'], 0) + 1
            sizes_h[len(c['pool'])] = sizes_h.get(len(c['pool']), 0) + 1
            if res[0] == 'ok':
                nsel[len(res[1])] = nsel.get(len(res[1]), 0) + 1
            if r.get('mc') is not None:
                mc_calls += 1
                if r.get('topup'):
                    topups[k] = topups.get(k, 0) + 1
            if not in_domain(c):
                outside += 1
            elif nontrivial(c, r):
                distinct.add(C.canon_hash(c))
        mism_p += [{'input': part[i], 'impl': results[i], 'region': classify(part[i], results[i])} for i in sorted(mism)[:20]]
        ofail_p += [{'input': part[i], 'impl': results[i], 'region': classify(part[i], results[i])} for i in sorted(ofail)[:50]]
    return dict(
        evaluations=len(cases), distinct_nontrivial=len(distinct),
        rule='corpus (former defect witnesses) first; small scope: pools of 0..4 UTxOs over {1,2,5 ADA} x {no token, A:1, A:2, B:1}, '
             '11 request shapes incl. exact-total and total+1 (ADA and token) and key ties, spread over 1..3 outputs, limits '
             'None/1..4, fee on/off over 4 protocol-parameter sets, min-change on/off, index streams (valid, all-zero, short, '
             'out-of-range / negative entries) for the injected generator and arbitrary outcome streams for the built-in random '
             'path; exhaustive over ordered pools of <= %d UTxOs (alphabet of %d) x request shapes x limits x fee x min-change, '
             'largest-first + %d sampled streams each; random larger pools (3..10 UTxOs, <= 4 assets). non-trivial = in the '
             'property domain, non-empty pool and (>= 1 input selected or an exception); distinct by hash of the input. '
             '%d cases lie OUTSIDE the domain on purpose (negative quantities / limit <= 0: correspondence + pool-unmodified only)'
             % (exh[0], len(exh[1]), exh[2], outside),
        samples=[cases[ncorpus] if len(cases) > ncorpus else cases[0], cases[-1]],
        corpus_cases=ncorpus, outside_domain_cases=outside, outcome_histogram=kinds, algorithm_histogram=algs,
        pool_size_histogram=sizes_h, selected_count_histogram=nsel, min_change_calls=mc_calls,
        min_change_topups_by_outcome=topups,
        traces_validated_against_impl=len(cases),
        compared='selected pool positions in returned order (by object identity), raw change Value (coin + ordered dict of '
                 'dicts), exception kind; oracle (Coq) = distinct positions inside the pool, request(+fee) <= sum selected '
                 'component-wise, change == selected - requested, |selected| <= limit, pool snapshot and object identities '
                 'unchanged, errors are UTxOSelectionException kinds, largest-first Insufficient only if the pool cannot cover',
        mismatches=mism_p[:20],
        oracle_fail=ofail_p[:50],
    )


def search(ctx, mism):
    """Something no longer checks: look harder for an input on which the property itself fails on the implementation."""
    ctx.rng.seed(f'search-{ctx.seed}')
    r = correspond(ctx, (9000, 4000, (2, SMALL_ALPHA[:6], 2)) if ctx.quick else (40000, 40000, (3, SMALL_ALPHA[:6], 1)))
    if r['oracle_fail']:
        return min(r['oracle_fail'], key=lambda f: len(json.dumps(f)))
    return None


def replay(ctx, rep):
    case = rep['case']['input']
    res = C.run_impl('coinsel_driver', {'cases': [case]}, nshards=1)
    mism, ofail, errs = evaluate([case], res)
    print('input:', json.dumps(case))
    print('implementation:', json.dumps(res[0]))
    print('classification:', classify(case, res[0]))
    print('model agrees:', 0 not in mism, ' property oracle holds:', 0 not in ofail)
    return 1 if ofail else 0
