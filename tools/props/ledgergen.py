"""C02 helpers: seeded generator of Conway transaction CONTENT (JSON mirror of coq/theories/Ledger.v), printer of the
content as a Coq term of the matching Ledger.v type, and a coverage histogram.

JSON content format (null = None / absent; every hash / byte string is hex; text is hex of its UTF-8 bytes):
 tx       {"tagged": bool, "body": body, "wits": wits, "valid": bool, "aux": null|aux}
 body     {"tagged", "inputs": [[txid, ix]], "outputs": [output], "fee", "ttl", "certs": null|[cert],
           "withdrawals": null|[[reward, n]], "aux_hash", "validity_start", "mint": null|bundle, "script_data_hash",
           "collateral": null|[input], "required_signers": null|[hex], "network_id": null|0|1,
           "collateral_return": null|output, "total_collateral", "reference_inputs": null|[input],
           "votes": null|[[voter, [[gaid, [vote, anchor|null]]]]], "proposals": null|[proposal], "treasury", "donation"}
 bundle   [[policy, [[name, q]]]]
 output   {"addr", "coin", "assets": bundle, "datum": null|["hash", h]|["inline", data], "script": null|script, "map": bool}
 script   ["native", nscript] | ["plutus", 1|2|3, hex]
 nscript  ["sig", h] | ["all", [..]] | ["any", [..]] | ["ofk", n, [..]] | ["invalid_before", s] | ["invalid_hereafter", s]
 data     ["constr", i, [..]] | ["map", [[k, v]..]] | ["list", [..]] | ["int", z] | ["bytes", hex]
 cred     ["key", h] | ["script", h]      drep  ["key", h] | ["script", h] | ["abstain"] | ["noconf"]
 anchor   [url, hash]
 pool     {"operator", "vrf", "pledge", "cost", "margin": [n, d], "reward", "owners": [h], "relays": [relay], "meta": null|[url, h]}
 relay    ["addr", port|null, ipv4|null, ipv6|null] | ["name", port|null, dns] | ["multi", dns]
 cert     ["reg", cred] ["dereg", cred] ["deleg", cred, pool] ["poolreg", pool] ["poolretire", h, epoch] ["regc", cred, coin]
          ["deregc", cred, coin] ["votedeleg", cred, drep] ["stakevotedeleg", cred, pool, drep] ["stakeregdeleg", cred, pool, coin]
          ["voteregdeleg", cred, drep, coin] ["stakevoteregdeleg", cred, pool, drep, coin] ["authhot", cold, hot]
          ["resigncold", cold, anchor|null] ["regdrep", cred, coin, anchor|null] ["unregdrep", cred, coin] ["updatedrep", cred, anchor|null]
 voter    ["cckey", h] ["ccscript", h] ["drepkey", h] ["drepscript", h] ["pool", h]        gaid [txid, ix]
 ppu      30 slots aligned with Ledger.ppu_keys: null | ["int", n] | ["rat", [n, d]] | ["prices", [n, d], [n, d]] | ["units", m, s] | ["thr", [[n, d]..]]
 gov      ["param", gaid|null, ppu, policy|null] ["hardfork", gaid|null, major, minor] ["treasury", [[reward, n]], policy|null]
          ["noconf", gaid|null] ["committee", gaid|null, [cred], [[cred, epoch]], [n, d]] ["constitution", gaid|null, anchor, h|null] ["info"]
 proposal {"tagged", "deposit", "reward", "action": gov, "anchor"}
 wits     {"tagged", "vkeys": null|[[vk, sig]], "native": null|[nscript], "bootstrap": null|[[k, s, c, a]], "v1": null|[hex],
           "data": null|[data], "redeemers": null|[as_map, [{"tag", "index", "data", "mem", "steps"}]], "v2", "v3"}
 metadatum ["int", z] | ["bytes", hex] | ["text", hex] | ["list", [..]] | ["map", [[k, v]..]]       metadata [[label, metadatum]]
 aux      ["shelley", md] | ["shelleyma", md, [nscript]] | ["alonzo", md|null, native|null, v1|null, v2|null, v3|null]
 case     {"kind": "tx"|"body"|"wits"|"output"|"proposal"|"aux", "content": <the content>}
          {"kind": "cert", "content": {"tagged": bool, "cert": cert}}

Generator conventions (restrictions of the generated region; each is a statement about what the reference model
or a Fraction-typed field can express, not about what pycardano gets right):
  * rationals are coprime pairs with d >= 1 (fractions.Fraction normalises, 2/4 is not expressible);
  * legacy outputs (map = false) carry no inline datum and no script (Ledger.output_wf);
  * elements of sets and keys of maps are pairwise distinct; nested `tagged` flags equal the outer one;
  * map keys inside Plutus data are int / bytes, inside metadata int / bytes / text (hashable Python values);
  * the ROOT of a datum / redeemer is never the empty list nor bytes > 64 (RawPlutusData(…) rejects both with
    TypeError in validate(); nested occurrences are generated);
  * Plutus integers stay below 2^512 in magnitude (bignums of at most 64 bytes, cf. C18 for the chunked region);
  * metadata bytes / text are at most 64 bytes, text is valid UTF-8; metadata ints are in [-2^64, 2^64);
  * the ppu slot of key 18 (cost models) is always empty;
  * addresses are Shelley addresses (header types 0-7, 14, 15), no Byron addresses;
  * collections are empty only where the CDDL allows it.

render_case(case) — pure function of the case:
  kind      returns                              reference bytes
  tx        term : Ledger.tx  (str)              enc (ref_tx T)
  output    term : Ledger.output  (str)          enc (ref_output T)
  aux       term : Ledger.aux_data  (str)        enc (ref_aux T)
  body      (term : Ledger.body, "true"|"false") enc (ref_body B T)
  wits      (term : witness_set, bool)           enc (ref_witness_set B T)
  cert      (term : cert, bool)                  enc (ref_cert B T)
  proposal  (term : proposal, bool)              enc (ref_proposal B T)
ref_term(case) assembles `(ref_xxx [B] T)` : cbor from REF_FN / REF_TAGGED.
"""
from math import gcd

from lib.common import cz, cn, cbool, clist, cpair, copt, chx

REF_FN = {'tx': 'ref_tx', 'body': 'ref_body', 'wits': 'ref_witness_set', 'output': 'ref_output',
          'cert': 'ref_cert', 'proposal': 'ref_proposal', 'aux': 'ref_aux'}
REF_TAGGED = {'body', 'wits', 'cert', 'proposal'}     # kinds whose ref function takes `tagged : bool` first

HEADER = '''From Coq Require Import NArith ZArith String List Bool.
From PyC Require Import Base Cbor Value Ledger.
From PyC Require Plutus.
Import ListNotations.
Open Scope string_scope.
'''

# ---------------------------------------------------------------- pools of boundary values
U64 = [0, 1, 23, 24, 255, 256, 65535, 65536, 2**32 - 1, 2**32, 2**63 - 1, 2**64 - 1]
U32 = [0, 1, 23, 24, 255, 256, 65535, 65536, 2**32 - 1]
U16 = [0, 1, 23, 24, 255, 256, 65535]
POS64 = [1, 23, 24, 255, 256, 65535, 65536, 2**32 - 1, 2**32, 2**63 - 1, 2**64 - 1]
INT64NZ = [1, 23, 24, 256, 65536, 2**32, 2**63 - 1, -1, -24, -25, -256, -257, -65537, -2**32 - 1, -2**63]
MDINT = [0, 1, 23, 24, 255, 256, 65535, 65536, 2**32 - 1, 2**32, 2**63 - 1, 2**64 - 1,
         -1, -24, -25, -256, -257, -65536, -65537, -2**32 - 1, -2**63, -2**64]
PINT = MDINT + [2**64, 2**64 + 1, 2**70, -2**64 - 1, -2**70, 2**200, -2**200, 2**511, -2**511]
CONSTR = [0, 1, 2, 6, 7, 8, 23, 24, 126, 127, 128, 129, 255, 256, 65535, 65536, 2**32 - 1, 2**32]
NAMELEN = [0, 1, 5, 32]
PBLEN = [0, 1, 2, 28, 32, 63, 64, 65, 128, 129]
TEXTS = ['', 'a', 'x.io', 'https://example.com/meta.json', 'ü', '日本', 'ipfs://Qm' + 'Z' * 20,
         'résumé ✓', 'y' * 64]
DNS = ['a', 'relay.example.com', 'r1.pool.io', 'xn--bcher-kva.example', 'z' * 64]
SIZES = [0, 1, 1, 2, 3]
NSIZES = [1, 1, 2, 3]            # non-empty collections
PPU_KEYS = [0, 1, 2, 3, 4, 5, 6, 7, 8, 9, 10, 11, 16, 17, 18, 19, 20, 21, 22, 23, 24, 25, 26, 27, 28, 29, 30, 31, 32, 33]
CERT_KINDS = ['reg', 'dereg', 'deleg', 'poolreg', 'poolretire', 'regc', 'deregc', 'votedeleg', 'stakevotedeleg',
              'stakeregdeleg', 'voteregdeleg', 'stakevoteregdeleg', 'authhot', 'resigncold', 'regdrep', 'unregdrep',
              'updatedrep']
GOV_KINDS = ['param', 'hardfork', 'treasury', 'noconf', 'committee', 'constitution', 'info']
VOTER_KINDS = ['cckey', 'ccscript', 'drepkey', 'drepscript', 'pool']
KINDS = ['tx'] * 10 + ['body'] * 2 + ['wits'] * 2 + ['output'] * 2 + ['cert'] * 2 + ['proposal'] + ['aux']


def ppu_kind(k):
    if k in (9, 10, 11, 33):
        return 'rat'
    if k == 18:
        return 'cost'
    if k == 19:
        return 'prices'
    if k in (20, 21):
        return 'units'
    if k == 25:
        return 'thr5'
    if k == 26:
        return 'thr10'
    return 'int'


# ---------------------------------------------------------------- atoms
def rb(rng, n):
    """n random bytes; for hashes / ids (n >= 28) one draw in four is a LOOK-ALIKE of an earlier value of the same length
    (one byte changed: the last, the first, or a random position), so that any shortened, prefixed or otherwise lossy notion of
    identity (str(), hash(), a cache key) meets two different values it cannot tell apart."""
    b = bytes(rng.randrange(256) for _ in range(n))
    if n < 28:
        return b
    seen = rng.__dict__.setdefault('_lookalike', {}).setdefault(n, [])
    if seen and rng.random() < 0.25:
        old = bytearray(rng.choice(seen))
        pos = rng.choice([n - 1, 0, rng.randrange(n), rng.randrange(n // 2, n)])
        old[pos] ^= 1 + rng.randrange(255)
        b = bytes(old)
    seen.append(b)
    del seen[:-6]          # recent values only: the look-alike and its sibling tend to meet in one object
    return b


def rh(rng, n):
    return rb(rng, n).hex()


def pick(rng, pool, lo=0, hi=None):
    """boundary value from the pool (70 %) or a uniformly random one"""
    if rng.random() < 0.7:
        return rng.choice(pool)
    return rng.randint(lo, hi if hi is not None else max(pool))


def u64(rng):
    return pick(rng, U64)


def u32(rng):
    return pick(rng, U32)


def u16(rng):
    return pick(rng, U16)


def maybe(rng, f, p=0.35):
    return f() if rng.random() < p else None


def distinct(rng, n, f, key=repr):
    out, seen = [], set()
    for _ in range(8 * n + 8):
        if len(out) >= n:
            break
        x = f()
        if key(x) not in seen:
            seen.add(key(x))
            out.append(x)
    return out


def text(rng, pool=TEXTS):
    return rng.choice(pool).encode('utf-8').hex()


def rational(rng, unit=True):
    r = rng.random()
    if r < 0.3:
        n, d = rng.choice([(0, 1), (1, 1), (1, 2), (2, 3), (1, 10), (3, 100), (577, 10000), (721, 10000000),
                           (2**63 - 1, 2**64 - 1), (1, 2**64 - 1)])
    else:
        d = rng.choice([1, 2, 3, 10, 24, 100, 256, 1000, 65536, 2**32, 2**64 - 1]) if r < 0.7 else rng.randint(1, 10**6)
        n = rng.randint(0, d if unit else min(3 * d, 2**64 - 1))      # numerator and denominator are uint64
    g = gcd(n, d)
    if g > 1:
        n, d = n // g, d // g
    return [n, d]


def varint(n):
    out = [n & 0x7f]
    n >>= 7
    while n:
        out.append((n & 0x7f) | 0x80)
        n >>= 7
    return bytes(reversed(out))


def address(rng):
    t = rng.choice([0, 1, 2, 3, 4, 5, 6, 7, 14, 15])
    hdr = bytes([(t << 4) | rng.choice([0, 1])])
    if t <= 3:
        return (hdr + rb(rng, 56)).hex()
    if t in (4, 5):
        ptr = b''.join(varint(rng.choice([0, 1, 127, 128, 300, 16383, 16384, 2**32])) for _ in range(3))
        return (hdr + rb(rng, 28) + ptr).hex()
    return (hdr + rb(rng, 28)).hex()


def reward(rng):
    return (bytes([rng.choice([0xe0, 0xe1, 0xf0, 0xf1])]) + rb(rng, 28)).hex()


def cred(rng):
    return [rng.choice(['key', 'script']), rh(rng, 28)]


def drep(rng):
    k = rng.choice(['key', 'script', 'abstain', 'noconf'])
    return [k, rh(rng, 28)] if k in ('key', 'script') else [k]


def anchor(rng):
    return [text(rng), rh(rng, 32)]


def tx_input(rng):
    i = [rh(rng, 32), u16(rng)]
    last = rng.__dict__.get('_last_input')
    if last and rng.random() < 0.3:      # same index as the previous input: only the (possibly look-alike) id differs
        i[1] = last[1]
    rng.__dict__['_last_input'] = i
    return i


gaid = tx_input


# ---------------------------------------------------------------- scripts, data
def nscript(rng, depth):
    r = rng.random()
    if depth <= 0 or r < 0.4:
        k = rng.choice(['sig', 'sig', 'invalid_before', 'invalid_hereafter'])
        return [k, rh(rng, 28)] if k == 'sig' else [k, u64(rng)]
    subs = [nscript(rng, depth - 1) for _ in range(rng.choice(SIZES))]
    k = rng.choice(['all', 'any', 'ofk'])
    return [k, pick(rng, [0, 1, 2, 3, 24, 2**32 - 1]), subs] if k == 'ofk' else [k, subs]


def ns_depth(s):
    if s[0] in ('all', 'any'):
        return 1 + max([ns_depth(x) for x in s[1]] + [0])
    if s[0] == 'ofk':
        return 1 + max([ns_depth(x) for x in s[2]] + [0])
    return 0


def nscripts(rng, n):
    return distinct(rng, n, lambda: nscript(rng, rng.choice([0, 1, 2, 3])))


def plutus_bytes(rng):
    return rh(rng, rng.choice([0, 1, 5, 24, 40, 70]))


def plutus_list(rng, n):
    return distinct(rng, n, lambda: plutus_bytes(rng))


def script(rng):
    k = rng.choice(['native', 'v1', 'v2', 'v3'])
    if k == 'native':
        return ['native', nscript(rng, rng.choice([0, 1, 2, 3]))]
    return ['plutus', int(k[1]), plutus_bytes(rng)]


def data_atom(rng):
    if rng.random() < 0.5:
        return ['int', rng.choice(PINT) if rng.random() < 0.7 else rng.randint(-2**72, 2**72)]
    return ['bytes', rh(rng, rng.choice(PBLEN) if rng.random() < 0.6 else rng.randint(0, 40))]


def data(rng, depth):
    r = rng.random()
    if depth <= 0 or r < 0.3:
        return data_atom(rng)
    if r < 0.55:
        i = rng.choice(CONSTR) if rng.random() < 0.8 else rng.randint(0, 2**33)
        return ['constr', i, [data(rng, depth - 1) for _ in range(rng.choice(SIZES))]]
    if r < 0.78:
        return ['list', [data(rng, depth - 1) for _ in range(rng.choice(SIZES))]]
    keys = distinct(rng, rng.choice(SIZES), lambda: data_atom(rng))
    return ['map', [[k, data(rng, depth - 1)] for k in keys]]


def data_depth(d):
    if d[0] == 'constr':
        return 1 + max([data_depth(x) for x in d[2]] + [0])
    if d[0] == 'list':
        return 1 + max([data_depth(x) for x in d[1]] + [0])
    if d[0] == 'map':
        return 1 + max([max(data_depth(a), data_depth(b)) for a, b in d[1]] + [0])
    return 0


def top_data(rng):
    """a datum / redeemer / witness datum.  RawPlutusData.validate() (pycardano/plutus.py, `data: RawDatum`) rejects a
    TOP-LEVEL plain `[]` and a TOP-LEVEL ByteString with TypeError, so the canonical raw form cannot express an empty
    list or bytes > 64 at the root (nested they are fine): those two roots are not generated."""
    for _ in range(50):
        d = data(rng, rng.choice([0, 1, 2, 3]))
        if d == ['list', []] or (d[0] == 'bytes' and len(d[1]) > 128):
            continue
        return d
    return ['int', 0]


# ---------------------------------------------------------------- values, outputs
def bundle(rng, mint=False):
    pols = distinct(rng, rng.choice(NSIZES), lambda: rh(rng, 28))
    out = []
    for p in pols:
        names = distinct(rng, rng.choice(NSIZES), lambda: rh(rng, rng.choice(NAMELEN)))
        out.append([p, [[n, rng.choice(INT64NZ) if mint else pick(rng, POS64, 1)] for n in names]])
    return out


def output(rng, form=None):
    is_map = rng.random() < 0.6 if form is None else form
    o = {'addr': address(rng), 'coin': u64(rng), 'assets': bundle(rng) if rng.random() < 0.5 else [],
         'datum': None, 'script': None, 'map': is_map}
    d = rng.choice(['none', 'hash', 'inline'] if is_map else ['none', 'hash'])
    if d == 'hash':
        o['datum'] = ['hash', rh(rng, 32)]
    elif d == 'inline':
        o['datum'] = ['inline', top_data(rng)]
    if is_map and rng.random() < 0.55:
        o['script'] = script(rng)
    return o


# ---------------------------------------------------------------- certificates
def relay(rng):
    k = rng.choice(['addr', 'name', 'multi'])
    port = maybe(rng, lambda: u16(rng), 0.6)
    if k == 'addr':
        return ['addr', port, maybe(rng, lambda: rh(rng, 4), 0.6), maybe(rng, lambda: rh(rng, 16), 0.5)]
    if k == 'name':
        return ['name', port, text(rng, DNS)]
    return ['multi', text(rng, DNS)]


def pool(rng):
    return {'operator': rh(rng, 28), 'vrf': rh(rng, 32), 'pledge': u64(rng), 'cost': u64(rng),
            'margin': rational(rng), 'reward': reward(rng),
            'owners': distinct(rng, rng.choice([0, 1, 2, 3]), lambda: rh(rng, 28)),
            'relays': [relay(rng) for _ in range(rng.choice([0, 1, 2, 3]))],
            'meta': maybe(rng, lambda: [text(rng), rh(rng, 32)], 0.5)}


def cert(rng, k=None):
    k = k or rng.choice(CERT_KINDS)
    c, p, d, n = (lambda: cred(rng)), (lambda: rh(rng, 28)), (lambda: drep(rng)), (lambda: u64(rng))
    a = lambda: maybe(rng, lambda: anchor(rng), 0.5)
    return {'reg': lambda: ['reg', c()], 'dereg': lambda: ['dereg', c()], 'deleg': lambda: ['deleg', c(), p()],
            'poolreg': lambda: ['poolreg', pool(rng)], 'poolretire': lambda: ['poolretire', p(), n()],
            'regc': lambda: ['regc', c(), n()], 'deregc': lambda: ['deregc', c(), n()],
            'votedeleg': lambda: ['votedeleg', c(), d()], 'stakevotedeleg': lambda: ['stakevotedeleg', c(), p(), d()],
            'stakeregdeleg': lambda: ['stakeregdeleg', c(), p(), n()],
            'voteregdeleg': lambda: ['voteregdeleg', c(), d(), n()],
            'stakevoteregdeleg': lambda: ['stakevoteregdeleg', c(), p(), d(), n()],
            'authhot': lambda: ['authhot', c(), c()], 'resigncold': lambda: ['resigncold', c(), a()],
            'regdrep': lambda: ['regdrep', c(), n(), a()], 'unregdrep': lambda: ['unregdrep', c(), n()],
            'updatedrep': lambda: ['updatedrep', c(), a()]}[k]()


# ---------------------------------------------------------------- governance
def voter(rng):
    return [rng.choice(VOTER_KINDS), rh(rng, 28)]


def votes(rng):
    vs = distinct(rng, rng.choice(NSIZES), lambda: voter(rng))
    out = []
    for v in vs:
        gs = distinct(rng, rng.choice(NSIZES), lambda: gaid(rng))
        out.append([v, [[g, [rng.choice([0, 1, 2]), maybe(rng, lambda: anchor(rng), 0.4)]] for g in gs]])
    return out


def ppval(rng, key):
    k = ppu_kind(key)
    if k == 'int':
        return ['int', u64(rng) if key in (0, 1, 5, 6, 16, 17, 30, 31) else u16(rng) if key in (4, 8) else u32(rng)]
    if k == 'rat':
        return ['rat', rational(rng, unit=key in (10, 11))]
    if k == 'prices':
        return ['prices', rational(rng, False), rational(rng, False)]
    if k == 'units':
        return ['units', u64(rng), u64(rng)]
    if k == 'thr5':
        return ['thr', [rational(rng) for _ in range(5)]]
    if k == 'thr10':
        return ['thr', [rational(rng) for _ in range(10)]]
    raise ValueError(k)


def ppu(rng):
    p = rng.choice([0.0, 0.1, 0.3, 0.6])
    return [None if key == 18 or rng.random() >= p else ppval(rng, key) for key in PPU_KEYS]


def gov_action(rng, k=None):
    k = k or rng.choice(GOV_KINDS)
    prev = lambda: maybe(rng, lambda: gaid(rng), 0.5)
    policy = lambda: maybe(rng, lambda: rh(rng, 28), 0.5)
    if k == 'param':
        return ['param', prev(), ppu(rng), policy()]
    if k == 'hardfork':
        return ['hardfork', prev(), rng.randint(1, 10), u32(rng)]
    if k == 'treasury':
        rs = distinct(rng, rng.choice(SIZES), lambda: reward(rng))
        return ['treasury', [[r, u64(rng)] for r in rs], policy()]
    if k == 'noconf':
        return ['noconf', prev()]
    if k == 'committee':
        rm = distinct(rng, rng.choice(SIZES), lambda: cred(rng))
        add = distinct(rng, rng.choice(SIZES), lambda: cred(rng))
        return ['committee', prev(), rm, [[c, u64(rng)] for c in add], rational(rng)]
    if k == 'constitution':
        return ['constitution', prev(), anchor(rng), maybe(rng, lambda: rh(rng, 28), 0.5)]
    return ['info']


def proposal(rng, tagged):
    return {'tagged': tagged, 'deposit': u64(rng), 'reward': reward(rng), 'action': gov_action(rng), 'anchor': anchor(rng)}


# ---------------------------------------------------------------- body
def body(rng, tagged):
    P = rng.choice([0.15, 0.35, 0.35, 0.7])
    m = lambda f: maybe(rng, f, P)
    inputs = lambda n: distinct(rng, n, lambda: tx_input(rng))
    return {
        'tagged': tagged,
        'inputs': inputs(rng.choice(SIZES)),
        'outputs': [output(rng) for _ in range(rng.choice(SIZES))],
        'fee': u64(rng),
        'ttl': m(lambda: u64(rng)),
        'certs': m(lambda: [cert(rng) for _ in range(rng.choice(NSIZES))]),
        'withdrawals': m(lambda: [[r, u64(rng)] for r in distinct(rng, rng.choice(NSIZES), lambda: reward(rng))]),
        'aux_hash': m(lambda: rh(rng, 32)),
        'validity_start': m(lambda: u64(rng)),
        'mint': m(lambda: bundle(rng, mint=True)),
        'script_data_hash': m(lambda: rh(rng, 32)),
        'collateral': m(lambda: inputs(rng.choice(NSIZES))),
        'required_signers': m(lambda: distinct(rng, rng.choice(NSIZES), lambda: rh(rng, 28))),
        'network_id': m(lambda: rng.choice([0, 1])),
        'collateral_return': m(lambda: output(rng)),
        'total_collateral': m(lambda: u64(rng)),
        'reference_inputs': m(lambda: inputs(rng.choice(NSIZES))),
        'votes': m(lambda: votes(rng)),
        'proposals': m(lambda: [proposal(rng, tagged) for _ in range(rng.choice(NSIZES))]),
        'treasury': m(lambda: u64(rng)),
        'donation': m(lambda: pick(rng, POS64, 1)),
    }


# ---------------------------------------------------------------- witness set
def redeemers(rng):
    as_map = rng.random() < 0.5
    keys = distinct(rng, rng.choice(NSIZES), lambda: [rng.randint(0, 5), u32(rng)])
    return [as_map, [{'tag': t, 'index': i, 'data': top_data(rng), 'mem': u64(rng), 'steps': u64(rng)} for t, i in keys]]


def wits(rng, tagged):
    P = rng.choice([0.1, 0.3, 0.3, 0.6])
    m = lambda f: maybe(rng, f, P)
    n = lambda: rng.choice(NSIZES)
    return {
        'tagged': tagged,
        'vkeys': m(lambda: distinct(rng, n(), lambda: [rh(rng, 32), rh(rng, 64)])),
        'native': m(lambda: nscripts(rng, n())),
        'bootstrap': m(lambda: [[rh(rng, 32), rh(rng, 64), rh(rng, 32), rng.choice(['a0', '', rh(rng, 5)])] for _ in range(n())]),
        'v1': m(lambda: plutus_list(rng, n())),
        'data': m(lambda: [top_data(rng) for _ in range(n())]),
        'redeemers': m(lambda: redeemers(rng)),
        'v2': m(lambda: plutus_list(rng, n())),
        'v3': m(lambda: plutus_list(rng, n())),
    }


# ---------------------------------------------------------------- auxiliary data
def md_atom(rng):
    k = rng.choice(['int', 'bytes', 'text'])
    if k == 'int':
        return ['int', rng.choice(MDINT) if rng.random() < 0.7 else rng.randint(-2**64, 2**64 - 1)]
    if k == 'bytes':
        return ['bytes', rh(rng, rng.choice([0, 1, 23, 24, 32, 64]))]
    return ['text', text(rng)]


def metadatum(rng, depth):
    r = rng.random()
    if depth <= 0 or r < 0.45:
        return md_atom(rng)
    if r < 0.72:
        return ['list', [metadatum(rng, depth - 1) for _ in range(rng.choice(SIZES))]]
    keys = distinct(rng, rng.choice(SIZES), lambda: md_atom(rng))
    return ['map', [[k, metadatum(rng, depth - 1)] for k in keys]]


def md_depth(m):
    if m[0] == 'list':
        return 1 + max([md_depth(x) for x in m[1]] + [0])
    if m[0] == 'map':
        return 1 + max([max(md_depth(a), md_depth(b)) for a, b in m[1]] + [0])
    return 0


def metadata(rng):
    labels = distinct(rng, rng.choice(SIZES), lambda: pick(rng, [0, 1, 23, 24, 255, 256, 674, 721, 65535, 65536, 2**32, 2**64 - 1]))
    return [[l, metadatum(rng, rng.choice([0, 1, 2, 3]))] for l in labels]


def aux(rng, k=None):
    k = k or rng.choice(['shelley', 'shelleyma', 'alonzo', 'alonzo'])
    if k == 'shelley':
        return ['shelley', metadata(rng)]
    if k == 'shelleyma':
        return ['shelleyma', metadata(rng), nscripts(rng, rng.choice(SIZES))]
    m = lambda f: maybe(rng, f, 0.5)
    return ['alonzo', m(lambda: metadata(rng)), m(lambda: nscripts(rng, rng.choice(SIZES))),
            m(lambda: plutus_list(rng, rng.choice(SIZES))), m(lambda: plutus_list(rng, rng.choice(SIZES))),
            m(lambda: plutus_list(rng, rng.choice(SIZES)))]


# ---------------------------------------------------------------- cases
def gen_case(rng):
    """one seeded case {"kind", "content"}; every random choice goes through `rng` (a random.Random)"""
    kind = rng.choice(KINDS)
    tagged = rng.random() < 0.5
    if kind == 'tx':
        c = {'tagged': tagged, 'body': body(rng, tagged), 'wits': wits(rng, tagged), 'valid': rng.random() < 0.7,
             'aux': maybe(rng, lambda: aux(rng), 0.5)}
    elif kind == 'body':
        c = body(rng, tagged)
    elif kind == 'wits':
        c = wits(rng, tagged)
    elif kind == 'output':
        c = output(rng)
    elif kind == 'cert':
        c = {'tagged': tagged, 'cert': cert(rng)}
    elif kind == 'proposal':
        c = proposal(rng, tagged)
    else:
        c = aux(rng)
    return {'kind': kind, 'content': c}


# ---------------------------------------------------------------- Coq literals
def hx(h):
    return chx(bytes.fromhex(h))


def cq(q):
    return cpair(cn(q[0]), cn(q[1]))


def app(f, *args):
    return '(' + ' '.join((f,) + args) + ')'


def ropt(f, x):
    return copt(None if x is None else f(x))


def rlist(f, xs):
    return clist([f(x) for x in xs])


def r_cred(c):
    return app({'key': 'CKey', 'script': 'CScript'}[c[0]], hx(c[1]))


def r_drep(d):
    if d[0] == 'key':
        return app('DKey', hx(d[1]))
    if d[0] == 'script':
        return app('DScript', hx(d[1]))
    return {'abstain': 'DAbstain', 'noconf': 'DNoConfidence'}[d[0]]


def r_anchor(a):
    return app('mkAnchor', hx(a[0]), hx(a[1]))


def r_relay(r):
    if r[0] == 'addr':
        return app('RAddr', ropt(cn, r[1]), ropt(hx, r[2]), ropt(hx, r[3]))
    if r[0] == 'name':
        return app('RName', ropt(cn, r[1]), hx(r[2]))
    if r[0] == 'multi':
        return app('RMulti', hx(r[1]))
    raise ValueError(r[0])


def r_pool(p):
    return app('mkPool', hx(p['operator']), hx(p['vrf']), cn(p['pledge']), cn(p['cost']), cq(p['margin']),
               hx(p['reward']), rlist(hx, p['owners']), rlist(r_relay, p['relays']),
               ropt(lambda m: cpair(hx(m[0]), hx(m[1])), p['meta']))


def r_cert(c):
    k = c[0]
    if k == 'reg':
        return app('CertReg', r_cred(c[1]))
    if k == 'dereg':
        return app('CertDereg', r_cred(c[1]))
    if k == 'deleg':
        return app('CertDeleg', r_cred(c[1]), hx(c[2]))
    if k == 'poolreg':
        return app('CertPoolReg', r_pool(c[1]))
    if k == 'poolretire':
        return app('CertPoolRetire', hx(c[1]), cn(c[2]))
    if k == 'regc':
        return app('CertRegC', r_cred(c[1]), cn(c[2]))
    if k == 'deregc':
        return app('CertDeregC', r_cred(c[1]), cn(c[2]))
    if k == 'votedeleg':
        return app('CertVoteDeleg', r_cred(c[1]), r_drep(c[2]))
    if k == 'stakevotedeleg':
        return app('CertStakeVoteDeleg', r_cred(c[1]), hx(c[2]), r_drep(c[3]))
    if k == 'stakeregdeleg':
        return app('CertStakeRegDeleg', r_cred(c[1]), hx(c[2]), cn(c[3]))
    if k == 'voteregdeleg':
        return app('CertVoteRegDeleg', r_cred(c[1]), r_drep(c[2]), cn(c[3]))
    if k == 'stakevoteregdeleg':
        return app('CertStakeVoteRegDeleg', r_cred(c[1]), hx(c[2]), r_drep(c[3]), cn(c[4]))
    if k == 'authhot':
        return app('CertAuthHot', r_cred(c[1]), r_cred(c[2]))
    if k == 'resigncold':
        return app('CertResignCold', r_cred(c[1]), ropt(r_anchor, c[2]))
    if k == 'regdrep':
        return app('CertRegDRep', r_cred(c[1]), cn(c[2]), ropt(r_anchor, c[3]))
    if k == 'unregdrep':
        return app('CertUnregDRep', r_cred(c[1]), cn(c[2]))
    if k == 'updatedrep':
        return app('CertUpdateDRep', r_cred(c[1]), ropt(r_anchor, c[2]))
    raise ValueError(k)


def r_nscript(s):
    k = s[0]
    if k == 'sig':
        return app('NSig', hx(s[1]))
    if k == 'all':
        return app('NAll', rlist(r_nscript, s[1]))
    if k == 'any':
        return app('NAny', rlist(r_nscript, s[1]))
    if k == 'ofk':
        return app('NOfK', cn(s[1]), rlist(r_nscript, s[2]))
    if k == 'invalid_before':
        return app('NInvalidBefore', cn(s[1]))
    if k == 'invalid_hereafter':
        return app('NInvalidHereafter', cn(s[1]))
    raise ValueError(k)


def r_script(s):
    if s[0] == 'native':
        return app('SNative', r_nscript(s[1]))
    if s[0] == 'plutus':
        return app('SPlutus', cn(s[1]), hx(s[2]))
    raise ValueError(s[0])


def r_data(d):
    k = d[0]
    if k == 'constr':
        return app('Plutus.Constr', cn(d[1]), rlist(r_data, d[2]))
    if k == 'map':
        return app('Plutus.Map', clist([cpair(r_data(a), r_data(b)) for a, b in d[1]]))
    if k == 'list':
        return app('Plutus.List', rlist(r_data, d[1]))
    if k == 'int':
        return app('Plutus.I', cz(d[1]))
    if k == 'bytes':
        return app('Plutus.Bs', hx(d[1]))
    raise ValueError(k)


def r_bundle(b):
    return clist([cpair(hx(p), clist([cpair(hx(n), cz(q)) for n, q in names])) for p, names in b])


def r_datum(d):
    if d[0] == 'hash':
        return app('DHash', hx(d[1]))
    if d[0] == 'inline':
        return app('DInline', r_data(d[1]))
    raise ValueError(d[0])


def r_output(o):
    return app('mkOutput', hx(o['addr']), cn(o['coin']), r_bundle(o['assets']), ropt(r_datum, o['datum']),
               ropt(r_script, o['script']), cbool(o['map']))


def r_input(i):
    return cpair(hx(i[0]), cn(i[1]))


r_gaid = r_input


def r_voter(v):
    return app({'cckey': 'VCommitteeKey', 'ccscript': 'VCommitteeScript', 'drepkey': 'VDRepKey',
                'drepscript': 'VDRepScript', 'pool': 'VPool'}[v[0]], hx(v[1]))


def r_votes(vs):
    return clist([cpair(r_voter(v), clist([cpair(r_gaid(g), cpair(cn(vp[0]), ropt(r_anchor, vp[1]))) for g, vp in procs]))
                  for v, procs in vs])


def r_ppval(v):
    k = v[0]
    if k == 'int':
        return app('PInt', cn(v[1]))
    if k == 'rat':
        return app('PRat', cq(v[1]))
    if k == 'prices':
        return app('PPrices', cq(v[1]), cq(v[2]))
    if k == 'units':
        return app('PUnits', cn(v[1]), cn(v[2]))
    if k == 'thr':
        return app('PThresholds', rlist(cq, v[1]))
    raise ValueError(k)


def r_ppu(u):
    assert len(u) == len(PPU_KEYS)
    return clist([ropt(r_ppval, v) for v in u])


def r_rewards(ws):
    return clist([cpair(hx(r), cn(n)) for r, n in ws])


def r_gov_action(g):
    k = g[0]
    if k == 'param':
        return app('GParamChange', ropt(r_gaid, g[1]), r_ppu(g[2]), ropt(hx, g[3]))
    if k == 'hardfork':
        return app('GHardFork', ropt(r_gaid, g[1]), cn(g[2]), cn(g[3]))
    if k == 'treasury':
        return app('GTreasury', r_rewards(g[1]), ropt(hx, g[2]))
    if k == 'noconf':
        return app('GNoConfidence', ropt(r_gaid, g[1]))
    if k == 'committee':
        return app('GUpdateCommittee', ropt(r_gaid, g[1]), rlist(r_cred, g[2]),
                   clist([cpair(r_cred(c), cn(e)) for c, e in g[3]]), cq(g[4]))
    if k == 'constitution':
        return app('GNewConstitution', ropt(r_gaid, g[1]), r_anchor(g[2]), ropt(hx, g[3]))
    if k == 'info':
        return 'GInfo'
    raise ValueError(k)


def r_proposal(p):
    return app('mkProposal', cn(p['deposit']), hx(p['reward']), r_gov_action(p['action']), r_anchor(p['anchor']))


def r_body(b):
    return app('mkBody',
               rlist(r_input, b['inputs']), rlist(r_output, b['outputs']), cn(b['fee']), ropt(cn, b['ttl']),
               ropt(lambda l: rlist(r_cert, l), b['certs']), ropt(r_rewards, b['withdrawals']),
               ropt(hx, b['aux_hash']), ropt(cn, b['validity_start']), ropt(r_bundle, b['mint']),
               ropt(hx, b['script_data_hash']), ropt(lambda l: rlist(r_input, l), b['collateral']),
               ropt(lambda l: rlist(hx, l), b['required_signers']), ropt(cn, b['network_id']),
               ropt(r_output, b['collateral_return']), ropt(cn, b['total_collateral']),
               ropt(lambda l: rlist(r_input, l), b['reference_inputs']), ropt(r_votes, b['votes']),
               ropt(lambda l: rlist(r_proposal, l), b['proposals']), ropt(cn, b['treasury']), ropt(cn, b['donation']))


def r_redeemer(r):
    return app('mkRedeemer', cn(r['tag']), cn(r['index']), r_data(r['data']), cn(r['mem']), cn(r['steps']))


def r_wits(w):
    hexes = lambda l: rlist(hx, l)
    return app('mkWits',
               ropt(lambda l: clist([cpair(hx(k), hx(s)) for k, s in l]), w['vkeys']),
               ropt(lambda l: rlist(r_nscript, l), w['native']),
               ropt(lambda l: clist(['(' + ', '.join(hx(x) for x in bw) + ')' for bw in l]), w['bootstrap']),
               ropt(hexes, w['v1']),
               ropt(lambda l: rlist(r_data, l), w['data']),
               ropt(lambda r: cpair(cbool(r[0]), rlist(r_redeemer, r[1])), w['redeemers']),
               ropt(hexes, w['v2']), ropt(hexes, w['v3']))


def r_metadatum(m):
    k = m[0]
    if k == 'int':
        return app('MInt', cz(m[1]))
    if k == 'bytes':
        return app('MBytes', hx(m[1]))
    if k == 'text':
        return app('MText', hx(m[1]))
    if k == 'list':
        return app('MList', rlist(r_metadatum, m[1]))
    if k == 'map':
        return app('MMap', clist([cpair(r_metadatum(a), r_metadatum(b)) for a, b in m[1]]))
    raise ValueError(k)


def r_metadata(md):
    return clist([cpair(cn(l), r_metadatum(v)) for l, v in md])


def r_aux(a):
    k = a[0]
    if k == 'shelley':
        return app('AuxShelley', r_metadata(a[1]))
    if k == 'shelleyma':
        return app('AuxShelleyMA', r_metadata(a[1]), rlist(r_nscript, a[2]))
    if k == 'alonzo':
        hexes = lambda l: rlist(hx, l)
        return app('AuxAlonzo', ropt(r_metadata, a[1]), ropt(lambda l: rlist(r_nscript, l), a[2]),
                   ropt(hexes, a[3]), ropt(hexes, a[4]), ropt(hexes, a[5]))
    raise ValueError(k)


def r_tx(t):
    return app('mkTx', cbool(t['tagged']), r_body(t['body']), r_wits(t['wits']), cbool(t['valid']), ropt(r_aux, t['aux']))


def render_case(case):
    """Coq literal of the content (see the module docstring for what is returned per kind)."""
    k, c = case['kind'], case['content']
    if k == 'tx':
        return r_tx(c)
    if k == 'output':
        return r_output(c)
    if k == 'aux':
        return r_aux(c)
    if k == 'body':
        return (r_body(c), cbool(c['tagged']))
    if k == 'wits':
        return (r_wits(c), cbool(c['tagged']))
    if k == 'cert':
        return (r_cert(c['cert']), cbool(c['tagged']))
    if k == 'proposal':
        return (r_proposal(c), cbool(c['tagged']))
    raise ValueError(k)


def ref_term(case):
    """`(ref_xxx [tagged] content)` : cbor — the reference item whose `enc` must equal the implementation bytes"""
    r = render_case(case)
    fn = REF_FN[case['kind']]
    if case['kind'] in REF_TAGGED:
        return app(fn, r[1], r[0])
    return app(fn, r)


# ---------------------------------------------------------------- coverage
def coverage(cases):
    """histogram of what the cases exercise (for the evidence file)"""
    from collections import Counter
    H = {k: Counter() for k in ['kinds', 'tagged', 'cert_kinds', 'body_keys_present', 'body_keys_absent', 'output_forms',
                                'output_datum_script', 'address_types', 'relay_kinds', 'relay_nulls', 'pool_sizes',
                                'gov_actions', 'ppu_slots', 'voter_kinds', 'votes', 'drep_kinds', 'redeemer_forms',
                                'redeemer_tags', 'aux_forms', 'alonzo_keys', 'witness_keys', 'nscript_kinds',
                                'data_shapes', 'metadatum_shapes', 'collection_sizes', 'asset_name_lengths']}
    mx = Counter()
    BODY_KEYS = [('inputs', 0), ('outputs', 1), ('fee', 2), ('ttl', 3), ('certs', 4), ('withdrawals', 5), ('aux_hash', 7),
                 ('validity_start', 8), ('mint', 9), ('script_data_hash', 11), ('collateral', 13), ('required_signers', 14),
                 ('network_id', 15), ('collateral_return', 16), ('total_collateral', 17), ('reference_inputs', 18),
                 ('votes', 19), ('proposals', 20), ('treasury', 21), ('donation', 22)]
    WIT_KEYS = [('vkeys', 0), ('native', 1), ('bootstrap', 2), ('v1', 3), ('data', 4), ('redeemers', 5), ('v2', 6), ('v3', 7)]

    def size(what, n):
        H['collection_sizes'][f'{what}:{min(n, 3)}'] += 1

    def w_ns(s):
        H['nscript_kinds'][s[0]] += 1
        mx['nscript_depth'] = max(mx['nscript_depth'], ns_depth(s))
        for x in (s[1] if s[0] in ('all', 'any') else s[2] if s[0] == 'ofk' else []):
            w_ns(x)

    def w_data(d, top=True):
        if top:
            mx['data_depth'] = max(mx['data_depth'], data_depth(d))
        k = d[0]
        if k == 'bytes':
            H['data_shapes']['bytes>64' if len(d[1]) > 128 else 'bytes'] += 1
        elif k == 'int':
            H['data_shapes']['int>64bit' if not -2**64 <= d[1] < 2**64 else 'int'] += 1
        else:
            H['data_shapes'][k] += 1
            if k == 'constr':
                H['data_shapes']['constr:' + ('121+' if d[1] < 7 else '1280+' if d[1] < 128 else '102')] += 1
            for x in (d[2] if k == 'constr' else d[1] if k == 'list' else [y for kv in d[1] for y in kv]):
                w_data(x, False)

    def w_md(m, top=True):
        if top:
            mx['metadatum_depth'] = max(mx['metadatum_depth'], md_depth(m))
        H['metadatum_shapes'][m[0]] += 1
        for x in (m[1] if m[0] == 'list' else [y for kv in m[1] for y in kv] if m[0] == 'map' else []):
            w_md(x, False)

    def w_bundle(b):
        size('policies', len(b))
        for _, names in b:
            for n, _ in names:
                H['asset_name_lengths'][len(n) // 2] += 1

    def w_script(s):
        if s[0] == 'native':
            w_ns(s[1])

    def w_output(o):
        H['output_forms']['map' if o['map'] else 'legacy'] += 1
        d = 'none' if o['datum'] is None else o['datum'][0]
        s = 'none' if o['script'] is None else 'native' if o['script'][0] == 'native' else f"v{o['script'][1]}"
        H['output_datum_script'][('map' if o['map'] else 'legacy') + f'/datum={d}/script={s}'] += 1
        H['address_types'][int(o['addr'][0], 16)] += 1
        w_bundle(o['assets'])
        if d == 'inline':
            w_data(o['datum'][1])
        if o['script'] is not None:
            w_script(o['script'])

    def w_drep(d):
        H['drep_kinds'][d[0]] += 1

    def w_cert(c):
        H['cert_kinds'][c[0]] += 1
        if c[0] in ('votedeleg', 'voteregdeleg'):
            w_drep(c[2])
        if c[0] in ('stakevotedeleg', 'stakevoteregdeleg'):
            w_drep(c[3])
        if c[0] == 'poolreg':
            p = c[1]
            H['pool_sizes'][f"owners:{len(p['owners'])}"] += 1
            H['pool_sizes'][f"relays:{len(p['relays'])}"] += 1
            H['pool_sizes']['meta:' + ('none' if p['meta'] is None else 'some')] += 1
            for r in p['relays']:
                H['relay_kinds'][r[0]] += 1
                if r[0] in ('addr', 'name'):
                    H['relay_nulls'][f"{r[0]}:port={'null' if r[1] is None else 'some'}"] += 1
                if r[0] == 'addr':
                    H['relay_nulls'][f"addr:ipv4={'null' if r[2] is None else 'some'},ipv6={'null' if r[3] is None else 'some'}"] += 1

    def w_gov(g):
        H['gov_actions'][g[0]] += 1
        if g[0] == 'param':
            for key, v in zip(PPU_KEYS, g[2]):
                if v is not None:
                    H['ppu_slots'][key] += 1
            size('ppu', sum(v is not None for v in g[2]))
        if g[0] == 'treasury':
            size('treasury_withdrawals', len(g[1]))
        if g[0] == 'committee':
            size('committee_remove', len(g[2]))
            size('committee_add', len(g[3]))

    def w_body(b):
        for name, key in BODY_KEYS:
            H['body_keys_present' if b[name] is not None else 'body_keys_absent'][key] += 1
        size('inputs', len(b['inputs']))
        size('outputs', len(b['outputs']))
        for o in b['outputs'] + ([b['collateral_return']] if b['collateral_return'] else []):
            w_output(o)
        for c in b['certs'] or []:
            w_cert(c)
        if b['mint'] is not None:
            w_bundle(b['mint'])
        for v, procs in b['votes'] or []:
            H['voter_kinds'][v[0]] += 1
            for _, vp in procs:
                H['votes'][f"{vp[0]}/anchor={'null' if vp[1] is None else 'some'}"] += 1
        for p in b['proposals'] or []:
            w_gov(p['action'])

    def w_wits(w):
        for name, key in WIT_KEYS:
            if w[name] is not None:
                H['witness_keys'][key] += 1
        for s in w['native'] or []:
            w_ns(s)
        for d in w['data'] or []:
            w_data(d)
        if w['redeemers'] is not None:
            H['redeemer_forms']['map' if w['redeemers'][0] else 'list'] += 1
            for r in w['redeemers'][1]:
                H['redeemer_tags'][r['tag']] += 1
                w_data(r['data'])

    def w_metadata(md):
        size('metadata', len(md))
        for _, v in md:
            w_md(v)

    def w_aux(a):
        H['aux_forms'][a[0]] += 1
        if a[0] == 'shelley':
            w_metadata(a[1])
        elif a[0] == 'shelleyma':
            w_metadata(a[1])
            size('shelleyma_scripts', len(a[2]))
            for s in a[2]:
                w_ns(s)
        else:
            H['alonzo_keys'][''.join(str(i) for i in range(5) if a[1 + i] is not None) or 'none'] += 1
            if a[1] is not None:
                w_metadata(a[1])
            for s in a[2] or []:
                w_ns(s)

    for case in cases:
        k, c = case['kind'], case['content']
        H['kinds'][k] += 1
        if 'tagged' in c:
            H['tagged'][str(c['tagged']).lower()] += 1
        if k == 'tx':
            w_body(c['body'])
            w_wits(c['wits'])
            H['aux_forms']['tx:' + ('none' if c['aux'] is None else 'some')] += 1
            if c['aux'] is not None:
                w_aux(c['aux'])
        elif k == 'body':
            w_body(c)
        elif k == 'wits':
            w_wits(c)
        elif k == 'output':
            w_output(c)
        elif k == 'cert':
            w_cert(c['cert'])
        elif k == 'proposal':
            w_gov(c['action'])
        elif k == 'aux':
            w_aux(c)
    out = {k: {str(a): b for a, b in sorted(v.items(), key=lambda kv: str(kv[0]))} for k, v in H.items()}
    out['max_nesting'] = dict(mx)
    return out
