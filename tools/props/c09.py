"""C09 — inputs are selected only from permitted UTxOs, each at most once, canonical order, caller's objects unmodified."""
import ast, json, os
from lib import common as C
from props import alike as A
from lib.common import cn, cnat, cbool, chx, clist

PID = 'C09'
TARGETS = ['props/C09.vo', 'theories/InputsOracle.vo']
LEVEL = 'proof'
GEN_OBLIGATIONS = ['UTxO.__hash__ hashes only the input (consistent with the dataclass ==), re-read from the source on every run']

MANIFEST = dict(
    text='Theorems (Coq, unbounded: all pools, all histories of registrations and builds, every selector list whose members '
         'return a sub-multiset of the pool they are given, hence every random seed): no UTxO is selected twice and the body '
         'inputs are pairwise different; every selected UTxO is an explicit input, a potential input or reported by the context '
         'at a registered address; every explicit input is present; no excluded UTxO is selected; explicit and excluded '
         'overlap <=> build refuses with TransactionBuilderException; body inputs strictly ascending in (tx id bytes, index), '
         'with the lemma that ordering lower-case hex strings = ordering bytes (all byte strings); on a chain that MOVES between '
         'builds of one builder every selected UTxO was handed over by the caller, selected by an earlier build, or is reported '
         'by the context in force at that build (C09_history_live); the body input set as pycardano writes it -- an '
         'OrderedSet keyed by str(item) -- equals the set by equality whenever the key is injective on the references in play '
         '(C09_ordered_set_key, KeyedSet.v), a hypothesis decided per case on the keys the implementation computes (keys_ok), and '
         'without it an explicit input is dropped (C09_non_injective_key_refuted). Partial: "caller objects '
         'unmodified" is monitored (byte/field snapshots around every build), not proved.',
    note='Trusted: Coq kernel+vm_compute; hand model Inputs.v of the input slice of TransactionBuilder.build tied by exact '
         'correspondence on the real build() (ordered builder.inputs, ordered body inputs, exception kind) with the selector '
         'choices recorded by wrapping the selector objects; the property oracle is evaluated in Coq on the implementation\'s '
         'own body. No axioms.',
    technique='Coq proof (list induction, permutation/sortedness, hex-order lemma) + slice correspondence + snapshot monitor',
    ref='C09')
TRUSTED = [
    'Coq 8.16.1 kernel incl. vm_compute (no native_compute); no axioms (see Print Assumptions lines)',
    'hand model coq/theories/Inputs.v of txbuilder.py (add_input, add_script_input, add_input_address, potential/excluded '
    'lists, _ensure_no_input_exclusion_conflict, pre-selection, pool assembly, selector chain, sort, write-back, OrderedSet of '
    'body inputs), tied by correspondence on the real build(); `need` (whether more value is required) and every selector '
    'call (pool received, result) are taken from the run as data, the pool and the result are checked against the model',
    'UTxO identity = (tx id, index, payload id): == and hash of the generated objects are checked pairwise against it on every '
    'case; UTxO.__hash__ is re-read from transaction.py (must be hash(self.input))',
    'str(TransactionInput) is injective on (tx id, index); list.sort is the stable sort; CPython set/list membership',
    'tools/impl/inputs_driver.py (fake ChainContext, recording selector wrappers, snapshots), tools/props/c09.py (generator)',
]
ASSUMPTIONS = [
    'selectors return a sub-multiset of the pool they are given (C14 for pycardano\'s selectors; checked at run time on every call)',
    'body-level statements about excluded UTxOs assume a reference (tx id, index) stands for one UTxO among those involved',
    'the "caller\'s objects unmodified" clause is monitored on every case, not proved (aliasing is outside the functional model)',
    'build() failures after the write-back of the selected inputs (change/fee computation) are outside the slice: only the '
    'input list left in the builder is compared for them',
]

ADA = 1000000
PA, PB = '01' * 28, 'fe' * 28
TOKENS = [(PA, '61'), (PA, '62'), (PB, '')]
FIRST = [0x00, 0x09, 0x0a, 0x0f, 0x10, 0x1f, 0x9f, 0xa0, 0xaf, 0xf0, 0xff]
INDICES = [0, 0, 1, 1, 2, 3, 9, 10, 11, 20, 100, 255, 256, 1000]
N_KEY_ADDRS = 4
SCRIPT_ADDR = 4
PLUTUS_ADDR = 5          # address of a Plutus V2 script: spending from it makes the builder pick collateral
FAMILIES = [('std', 58), ('improve', 8), ('improve2', 10), ('plutus', 12), ('moving', 12)]


def txids(rng, k):
    out = []
    base = bytes([rng.choice(FIRST)]) + bytes(rng.getrandbits(8) for _ in range(31))
    out.append(base)
    while len(out) < k:
        m = rng.random()
        if m < 0.3:                                   # same 31-byte prefix, last byte differs
            t = out[0][:31] + bytes([rng.choice([0x00, 0x09, 0x0a, 0x10, 0x9f, 0xa0, 0xff])])
        elif m < 0.45:                                # differs in the low nibble of the first byte
            t = bytes([(out[0][0] & 0xf0) | rng.randrange(16)]) + out[0][1:]
        elif m < 0.6:                                 # same head and tail, another middle (ids that print alike when abbreviated)
            t = out[0][:rng.choice([4, 8, 9])] + bytes(rng.getrandbits(8) for _ in range(32))
            t = t[:32 - 5] + out[0][-5:]
        else:
            t = bytes([rng.choice(FIRST)]) + bytes(rng.getrandbits(8) for _ in range(31))
        if t not in out:
            out.append(t)
    return [t.hex() for t in out]


def mk_ma(toks):
    ma = []
    for (p, n), q in toks:
        for e in ma:
            if e[0] == p:
                e[1].append([n, q]); break
        else:
            ma.append([p, [[n, q]]])
    return ma


SEL_CONFIGS = [('default', 22), ('ri', 8), ('ri_bad+lf', 14), ('lf', 10), ('lf1+rb', 8), ('rb1+lf', 8), ('fail+lf', 5),
               ('crash+lf', 3), ('lf+crash', 3), ('all', 5), ('empty', 2), ('fail', 2), ('rb+lf', 7), ('ri+fail+lf', 3)]


def sel_config(rng):
    name = rng.choices([n for n, _ in SEL_CONFIGS], [w for _, w in SEL_CONFIGS])[0]
    small = lambda k: [rng.randrange(3) for _ in range(k)]
    if name == 'default':
        return name, None
    if name == 'ri':
        return name, [dict(k='ri', stream=[0] * 40 if rng.random() < 0.5 else small(40))]
    if name == 'ri_bad+lf':
        bad = rng.choice([[], [0], [99], [-1], [0, 0, 50], small(2)])
        return name, [dict(k='ri', stream=bad or [99]), dict(k='lf')]
    if name == 'lf':
        return name, [dict(k='lf')]
    if name == 'lf1+rb':
        return name, [dict(k='lf', lim=1), dict(k='rb')]
    if name == 'rb1+lf':
        return name, [dict(k='rb', lim=rng.choice([1, 1, 2])), dict(k='lf')]
    if name == 'fail+lf':
        return name, [dict(k='fail'), dict(k='lf')]
    if name == 'crash+lf':
        return name, [dict(k='crash'), dict(k='lf')]
    if name == 'lf+crash':
        return name, [dict(k='lf', lim=rng.choice([None, 1])), dict(k='crash')]
    if name == 'all':
        return name, [dict(k='all')]
    if name == 'empty':
        return name, []
    if name == 'fail':
        return name, [dict(k='fail')]
    if name == 'rb+lf':
        return name, [dict(k='rb'), dict(k='lf')]
    return name, [dict(k='ri', stream=small(1)), dict(k='fail'), dict(k='lf', lim=rng.choice([None, 2]))]


def gen_case(rng):
    """families: std = the general history; improve = token-rich pool, small multi-asset request, randomized strategy with
    low-index streams (the improvement phases of several assets draw from one shrinking pool); plutus = a Plutus script input,
    so that build() also picks collateral (from its inputs, the potential inputs, the context's list for the change address);
    moving = the chain moves between two builds of one builder (UTxOs of a registered address are spent elsewhere, new ones
    arrive) and the second build needs more inputs"""
    family = rng.choices([f for f, _ in FAMILIES], [w for _, w in FAMILIES])[0]
    if family == 'improve2':
        return gen_improve(rng)
    n = rng.choice([2, 3, 4, 4, 5, 6, 7, 8, 10, 12])
    if family == 'improve':
        n = rng.choice([8, 10, 12])
    ids = txids(rng, rng.choice([1, 2, 2, 3, 4]))
    refs = set()
    utxos, payloads, inst = [], [], []
    roles = []                  # per utxo: set of routes
    with_script = family == 'std' and rng.random() < 0.12
    with_plutus = family == 'plutus'
    tokens_on = rng.random() < 0.35 or family == 'improve'
    p_tok = 0.8 if family == 'improve' else 0.4
    for k in range(n):
        while True:
            r = (rng.choice(ids), rng.choice(INDICES))
            if r not in refs:
                refs.add(r); break
        addr = rng.randrange(N_KEY_ADDRS) if rng.random() < 0.5 else 0
        if with_script and k == 0:
            addr = SCRIPT_ADDR
        if with_plutus and k == 0:
            addr = PLUTUS_ADDR
        coin = rng.choice([1500000, 2 * ADA, 3 * ADA, 5 * ADA, 8 * ADA, 12 * ADA, 30 * ADA]) + k      # unique per payload
        toks = []
        if family == 'improve':                       # many small UTxOs, about half of them with a few tokens
            coin = rng.choice([1500000, 2 * ADA, 2 * ADA, 3 * ADA, 5 * ADA]) + k
            if rng.random() < 0.5:
                toks = [(t, rng.choice([2, 3, 6])) for t in rng.sample(TOKENS[:2], rng.choice([1, 1, 2]))]
                coin = max(coin, 2 * ADA + k)
        elif tokens_on and rng.random() < p_tok:
            toks = [(t, rng.choice([1, 5, 40])) for t in rng.sample(TOKENS, rng.randint(1, 2))]
            coin = max(coin, 3 * ADA + k)
        if with_plutus and k == 0:
            coin = rng.choice([2 * ADA, 8 * ADA, 30 * ADA]) + k
        payloads.append([addr, coin, mk_ma(toks)])
        utxos.append([r[0], r[1], k])
        inst.append([k, rng.choice([0, 0, 0, 1, 2])])
    if rng.random() < 0.06 and n >= 2:                # a second payload under an existing reference (incoherent)
        j = rng.randrange(n)
        payloads.append([payloads[j][0] if payloads[j][0] != SCRIPT_ADDR else 0, payloads[j][1] + 777, []])
        utxos.append([utxos[j][0], utxos[j][1], len(payloads) - 1])
        inst.append([len(utxos) - 1, 0])
    nu = len(utxos)

    def an_instance(ui):
        """the canonical object of the UTxO, or (30%) another object that is == to it, possibly in the other wire form"""
        if rng.random() < 0.3:
            inst.append([ui, rng.choice([0, 1, 2])])
            return len(inst) - 1
        return ui                                       # instance k (k < nu) is the canonical object of utxo k

    reg, ctx_lists = [], {a: [] for a in range(N_KEY_ADDRS + 2)}
    routes = [set() for _ in range(nu)]
    for ui in range(nu):
        addr = payloads[utxos[ui][2]][0]
        if addr == SCRIPT_ADDR:
            if rng.random() < 0.8:
                reg.append(['sin', an_instance(ui)]); routes[ui].add('e')
                if rng.random() < 0.3:
                    reg.append(['sin', an_instance(ui)])
        elif addr == PLUTUS_ADDR:
            if rng.random() < 0.95:
                reg.append(['psin', ui]); routes[ui].add('e')
        elif rng.random() < (0.25 if family != 'improve' else 0.1):
            reg.append(['in', an_instance(ui)]); routes[ui].add('e')
            if rng.random() < 0.3:
                reg.append(['in', an_instance(ui)])
        if rng.random() < 0.3:
            reg.append(['pot', an_instance(ui)]); routes[ui].add('p')
            if rng.random() < 0.15:
                reg.append(['pot', an_instance(ui)])
        if rng.random() < 0.7:
            a = addr if rng.random() < 0.9 else rng.randrange(N_KEY_ADDRS)
            ctx_lists[a].append(an_instance(ui)); routes[ui].add('a')
            if rng.random() < 0.06:
                ctx_lists[a].append(an_instance(ui))
        if rng.random() < (0.22 if 'e' not in routes[ui] else 0.06):
            reg.append(['exc', an_instance(ui)]); routes[ui].add('x')
    for a in range(N_KEY_ADDRS + 1):
        if rng.random() < (0.8 if ctx_lists[a] else 0.2):
            reg.append(['addr', a, rng.random() < 0.3])
            if rng.random() < 0.15:
                reg.append(['addr', a, rng.random() < 0.5])
    rng.shuffle(reg)
    if rng.random() < 0.12:                           # exclusion list handed over as one caller-owned list
        exc = [r[1] for r in reg if r[0] == 'exc']
        reg = [r for r in reg if r[0] != 'exc']
        reg.insert(rng.randint(0, len(reg)), ['setexc', exc])
    for a in ctx_lists:
        rng.shuffle(ctx_lists[a])
    # amounts: what the explicit inputs provide / what the additional pool can provide
    def coin_of(ui):
        return payloads[utxos[ui][2]][1]
    iu = lambda k: inst[k][0]
    reg_addrs = {r[1] for r in reg if r[0] == 'addr'}
    excl = {iu(r[1]) for r in reg if r[0] == 'exc'} | {iu(x) for r in reg if r[0] == 'setexc' for x in r[1]}
    expl = {iu(r[1]) for r in reg if r[0] in ('in', 'sin', 'psin')}
    poolset = ({iu(r[1]) for r in reg if r[0] == 'pot'} | {iu(x) for a in reg_addrs for x in ctx_lists[a]}) - excl - expl
    exp_sum = sum(coin_of(ui) for ui in expl)
    avail = sum(coin_of(ui) for ui in poolset)
    pool_tokens = [t for ui in poolset for t in payloads[utxos[ui][2]][2]]
    mode = rng.choices(['noneed', 'need', 'toomuch'], [14, 76, 10] if family != 'plutus' else [50, 45, 5])[0]
    if mode == 'noneed' and exp_sum > 4 * ADA:
        want = rng.randint(ADA, exp_sum - 3 * ADA)
    elif mode == 'toomuch':
        want = exp_sum + avail + rng.choice([1, ADA, 50 * ADA])
    else:
        want = exp_sum + int(avail * rng.choice([0.02, 0.1, 0.25, 0.4, 0.6, 0.8])) + rng.choice([0, 1, ADA])
    if mode == 'need' and poolset and rng.random() < 0.3:
        # aimed at a selection boundary: the j largest pool UTxOs cover the request, the fee estimated before selection and
        # the minimum change by a few thousand lovelace more or less (what build() does when the final fee tips the balance)
        coins = sorted((coin_of(ui) for ui in poolset), reverse=True)
        j = rng.randint(1, len(coins))
        want = (exp_sum + sum(coins[:j]) - rng.choice([165000, 168000, 170000, 172000, 175000])
                - rng.choice([978370, 857690, 969750]) + rng.randrange(-6000, 6001, 50))
    want = max(want, ADA)
    if family == 'improve':                           # a fraction of the pool: the improvement phases have room
        want = exp_sum + int(avail * rng.choice([0.2, 0.25, 0.33, 0.4]))
    outs = []
    k = rng.choice([1, 1, 2])
    for j in range(k):
        part = want // k if j < k - 1 else want - (want // k) * (k - 1)
        toks = []
        if family == 'improve' and pool_tokens:       # 1-3 token kinds the pool holds, small quantities
            kinds = sorted({(p_, nm[0]) for p_, names_ in pool_tokens for nm in names_})
            toks = [(t, rng.choice([3, 5, 6])) for t in rng.sample(kinds, min(len(kinds), rng.choice([1, 1, 2])))]
        elif tokens_on and rng.random() < 0.4:
            if pool_tokens and rng.random() < 0.8:
                p_, names_ = rng.choice(pool_tokens)
                toks = [((p_, names_[0][0]), rng.choice([1, 1, 3]))]
            else:
                toks = [(rng.choice(TOKENS), rng.choice([1, 3, 30]))]
        outs.append(['out', rng.randrange(N_KEY_ADDRS), max(part, ADA), mk_ma(toks)])
    items = reg[:]
    for o in outs:
        items.insert(rng.randint(0, len(items)), o)
    change = None if rng.random() < 0.3 else rng.randrange(N_KEY_ADDRS)
    bopt = dict(change=change, merge=rng.random() < 0.1)
    items.append(['build', bopt])
    # longer histories: register more / exclude something that was spent / lift the exclusion, build again
    m = rng.random()
    if m < 0.28:
        extra = []
        for _ in range(rng.randint(0, 3)):
            ui = rng.randrange(nu)
            kind = rng.choice(['in', 'pot', 'exc', 'addr', 'out', 'setexc'])
            if kind == 'in' and payloads[utxos[ui][2]][0] == SCRIPT_ADDR:
                kind = 'sin'
            if kind in ('in', 'sin', 'pot', 'exc'):
                extra.append([kind, an_instance(ui)])
            elif kind == 'addr':
                extra.append(['addr', rng.randrange(N_KEY_ADDRS), rng.random() < 0.3])
            elif kind == 'out':
                extra.append(['out', rng.randrange(N_KEY_ADDRS), rng.choice([ADA, 2 * ADA, 9 * ADA]), []])
            else:
                extra.append(['setexc', [] if rng.random() < 0.6 else [an_instance(rng.randrange(nu))]])
        items += extra + [['build', dict(change=change if rng.random() < 0.8 else None, merge=bopt['merge'])]]
        if m < 0.06:
            items += [['setexc', []], ['build', dict(change=None, merge=False)]]
    if family == 'moving':
        # the chain moves: at 1-2 addresses some reported UTxOs disappear, new ones arrive; then more is requested
        cur = {a: list(l) for a, l in ctx_lists.items()}
        for _ in range(rng.randint(1, 2)):
            for a in rng.sample(sorted(cur), rng.randint(1, 2)):
                keep = [x for x in cur[a] if rng.random() < 0.5]
                for _ in range(rng.choice([0, 1, 1, 2])):
                    tries = 0
                    while True:
                        tries += 1
                        r = (rng.choice(ids), rng.choice(INDICES) if tries < 30 else 2000 + len(refs))
                        if r not in refs:
                            refs.add(r); break
                    payloads.append([a if a < N_KEY_ADDRS else 0, rng.choice([2 * ADA, 5 * ADA, 12 * ADA, 30 * ADA]) + len(payloads), []])
                    utxos.append([r[0], r[1], len(payloads) - 1])
                    inst.append([len(utxos) - 1, rng.choice([0, 0, 1, 2])])
                    keep.insert(rng.randint(0, len(keep)), len(inst) - 1)
                cur[a] = keep
                items.append(['ctxset', a, list(keep)])
            if rng.random() < 0.85:
                items.append(['out', rng.randrange(N_KEY_ADDRS), rng.choice([2 * ADA, 5 * ADA, 9 * ADA, 20 * ADA, 40 * ADA]), []])
            if rng.random() < 0.2 and a in reg_addrs:
                items.append(['addr', a, False])
            items.append(['build', dict(change=change if rng.random() < 0.9 else None, merge=bopt['merge'])])
    name, sels = sel_config(rng)
    if family == 'improve' and rng.random() < 0.8:
        small = [rng.randrange(2) for _ in range(60)]
        name, sels = rng.choice([('ri', [dict(k='ri', stream=small)]), ('ri', [dict(k='ri', stream=[0] * 60)]),
                                 ('default', None), ('ri+lf', [dict(k='ri', stream=small), dict(k='lf')])])
    return dict(utxos=utxos, payloads=payloads, inst=inst,
                ctx=[[a, l] for a, l in ctx_lists.items() if l or rng.random() < 0.1],
                selectors=sels, stream=([rng.randrange(1000) for _ in range(300)] if family != 'improve' or rng.random() < 0.3
                                         else [rng.randrange(3) for _ in range(300)]), items=items, cfg=name, family=family)


def gen_improve(rng):
    """improvement-phase scenarios of the randomized strategy: K ADA-only UTxOs and M token UTxOs of one address, a request
    of ADA + tokens that phase 1 covers with a few of them, so that the improvement phase of the token and then the one of
    ADA both still add UTxOs from what remains (interleaved pool order, low random indices)"""
    ids = txids(rng, rng.choice([2, 3, 4]))
    K, M = rng.choice([4, 5, 6]), rng.choice([3, 4, 5])
    A, B = rng.choice([3, 5, 5, 8]) * ADA, rng.choice([2, 2, 3]) * ADA
    q = rng.choice([4, 6, 6, 10])
    tok = rng.choice(TOKENS)
    utxos, payloads, refs = [], [], set()
    order = []
    for k in range(K + M):
        while True:
            r = (rng.choice(ids), rng.choice(INDICES + [30 + k]))
            if r not in refs:
                refs.add(r); break
        if k < K:
            payloads.append([0, A + 10000 * k, []])
        else:
            payloads.append([0, B + 10000 * k, mk_ma([(tok, q)])])
        utxos.append([r[0], r[1], k])
    inst = [[k, rng.choice([0, 0, 1, 2])] for k in range(K + M)]
    ada, tk = list(range(K)), list(range(K, K + M))
    while ada or tk:                                   # interleave
        if ada and (not tk or rng.random() < 0.55):
            order.append(ada.pop(0))
        else:
            order.append(tk.pop(0))
    want = rng.choice([2 * A, 2 * A, A + B, 3 * A]) + rng.choice([0, 0, ADA])
    t = rng.choice([q - 1, q - 1, q // 2 + 1, q + 1])
    items = [['addr', 0, rng.random() < 0.3], ['out', 1, want, mk_ma([(tok, t)])]]
    if rng.random() < 0.3:
        items.insert(0, ['pot', order[-1]])
    items.append(['build', dict(change=rng.choice([0, 0, 2]), merge=False)])
    low = [rng.randrange(rng.choice([1, 2, 3, 4])) for _ in range(300)]
    sels = rng.choice([None, None, [dict(k='ri', stream=low[:80])], [dict(k='ri', stream=low[:80]), dict(k='lf')]])
    return dict(utxos=utxos, payloads=payloads, inst=inst, ctx=[[0, order]], selectors=sels,
                stream=low if rng.random() < 0.7 else [rng.randrange(1000) for _ in range(300)], items=items,
                cfg='default' if sels is None else '+'.join(x['k'] for x in sels), family='improve2')


T7 = '07' * 32


def corpus():
    """fixed scenarios that always run first; W1/W2 = the witnesses of the fixed finding utxo_hash_form"""
    w1 = dict(utxos=[[T7, 0, 0]], payloads=[[0, 10 * ADA, []]], inst=[[0, 0], [0, 2]], ctx=[], selectors=None, stream=[1] * 50,
              items=[['in', 0], ['setexc', [1]], ['out', 0, 3 * ADA, []], ['build', dict(change=0, merge=False)]], cfg='W1')
    w2a = dict(utxos=[[T7, 0, 0]], payloads=[[0, 10 * ADA, []]], inst=[[0, 2], [0, 0]], ctx=[[0, [1]]],
               selectors=[dict(k='lf')], stream=[1] * 50,
               items=[['in', 0], ['addr', 0, False], ['out', 0, 12 * ADA, []], ['build', dict(change=0, merge=False)]], cfg='W2a')
    w2b = dict(utxos=[[T7, 0, 0], [T7, 1, 1]], payloads=[[0, 10 * ADA, []], [0, 5 * ADA, []]],
               inst=[[0, 2], [1, 0], [0, 0], [0, 1]], ctx=[[0, [2, 1, 3]]], selectors=[dict(k='all')], stream=[1] * 50,
               items=[['in', 0], ['addr', 0, False], ['out', 0, 12 * ADA, []], ['build', dict(change=0, merge=False)]], cfg='W2b')
    # the fixed finding ffdce23: potential inputs honour the exclusion list and are not offered twice
    p1 = dict(utxos=[[T7, 0, 0], [T7, 1, 1]], payloads=[[0, 10 * ADA, []], [0, 9 * ADA + 1, []]], inst=[[0, 0], [1, 0]], ctx=[],
              selectors=[dict(k='all')], stream=[1] * 50,
              items=[['pot', 0], ['pot', 1], ['exc', 1], ['out', 0, 3 * ADA, []], ['build', dict(change=0, merge=False)]], cfg='P1')
    p2 = dict(utxos=[[T7, 0, 0], [T7, 1, 1]], payloads=[[0, 4 * ADA, []], [0, 9 * ADA + 1, []]], inst=[[0, 0], [1, 0], [0, 1]], ctx=[],
              selectors=[dict(k='all')], stream=[1] * 50,
              items=[['in', 0], ['in', 0], ['pot', 2], ['pot', 1], ['pot', 1], ['out', 0, 6 * ADA, []],
                     ['build', dict(change=0, merge=False)]], cfg='P2')
    # order: numeric index (2 < 10), hex order across 9/a, same id different index
    o1 = dict(utxos=[['a0' + '00' * 31, 10, 0], ['a0' + '00' * 31, 2, 1], ['9f' + 'ff' * 31, 300, 2], ['0a' + '00' * 31, 1, 3],
                     ['10' + '00' * 31, 0, 4]],
              payloads=[[0, 5 * ADA + k, []] for k in range(5)], inst=[[k, 0] for k in range(5)], ctx=[[1, [4, 2]]],
              selectors=[dict(k='all')], stream=[1] * 50,
              items=[['in', 0], ['in', 1], ['pot', 3], ['addr', 1, True], ['out', 0, 22 * ADA, []],
                     ['build', dict(change=None, merge=False)]], cfg='O1')
    return [w1, w2a, w2b, p1, p2, o1]


# ---------------------------------------------------------------- translator-style tie: UTxO.__hash__
def _method(tree, cls, name):
    for node in tree.body:
        if isinstance(node, ast.ClassDef) and node.name == cls:
            for f in node.body:
                if isinstance(f, ast.FunctionDef) and f.name == name:
                    return node, f
            return node, None
    return None, None


def regen(ctx):
    """The model identifies set membership with list membership: UTxO.__hash__ must be consistent with the dataclass ==.
    Accepts exactly `return hash(self.input)` and TransactionInput.__hash__ over str(transaction_id)+str(index); fails closed."""
    src = open(os.path.join(C.REPO, 'pycardano', 'transaction.py')).read()
    tree = ast.parse(src)
    cls, f = _method(tree, 'UTxO', '__hash__')
    if cls is None or f is None:
        raise RuntimeError('UTxO.__hash__ not found')
    if any(isinstance(x, ast.FunctionDef) and x.name == '__eq__' for x in cls.body):
        raise RuntimeError('UTxO defines its own __eq__: the model assumes the dataclass field-wise ==')
    body = [s for s in f.body if not (isinstance(s, ast.Expr) and isinstance(getattr(s, 'value', None), ast.Constant))]
    got = ast.dump(ast.Module(body=body, type_ignores=[]))
    want = ast.dump(ast.parse('return hash(self.input)'))
    if got != want:
        raise RuntimeError('UTxO.__hash__ is not `return hash(self.input)`: ' + ast.unparse(f).replace('\n', ' ')[:200])
    cls, f = _method(tree, 'TransactionInput', '__hash__')
    if cls is None or f is None:
        raise RuntimeError('TransactionInput.__hash__ not found')
    got = ast.dump(ast.Module(body=[s for s in f.body if not isinstance(s, ast.Expr)], type_ignores=[]))
    want = ast.dump(ast.parse('return hash(str(self.transaction_id) + str(self.index))'))
    if got != want:
        raise RuntimeError('TransactionInput.__hash__ has an unknown shape: ' + ast.unparse(f).replace('\n', ' ')[:200])
    if any(isinstance(x, ast.FunctionDef) and x.name == '__eq__' for x in cls.body):
        raise RuntimeError('TransactionInput defines its own __eq__')


# ---------------------------------------------------------------- Coq rendering
HEADER = '''From Coq Require Import NArith String List Bool.
From PyC Require Import Base Inputs InputsProofs InputsOracle.
Import ListNotations.
Open Scope N_scope.
'''


def r_nats(l):
    return clist([cnat(x if 0 <= x < 4999 else 4999) for x in l])


def r_build(b):
    calls = []
    for pool, res in b['calls']:
        if res[0] == 'ok':
            r = f'RSelOk {r_nats(res[1])}'
        elif res[0] == 'fail':
            r = 'RSelFail'
        else:
            r = 'RSelCrash'
        calls.append(f'({r_nats(pool)}, {r})')
    o = b['out']
    if o[0] == 'ok':
        body = clist([f'({chx(bytes.fromhex(t))}, {cn(i)})' for t, i in o[2]])
        out = f'(ROk {r_nats(o[1])} {body})'
    else:
        out = f'(RErr {cn(o[1])} {r_nats(o[3])})'
    addrs = clist([cn(a) for a in b['addrs']])
    return (f'(mkRB {r_nats(b["exp"])} {r_nats(b["pot"])} {r_nats(b["exc"])} {addrs} {cnat(b["nsel"])} '
            f'{clist(calls)} {out} {cbool(b["snap"])})')


def r_case(case, res):
    inst = case['inst']
    ui = lambda k: inst[k][0]
    utx = clist([f'(mkU {chx(bytes.fromhex(t))} {cn(i)} {cn(p)})' for t, i, p in case['utxos']])
    cx = clist([f'({cn(a)}, {r_nats([ui(k) for k in l])})' for a, l in case['ctx']])
    items, bi = [], 0
    cur = {a: list(l) for a, l in case['ctx']}
    for it in case['items']:
        k = it[0]
        if k == 'ctxset':
            cur[it[1]] = list(it[2])
            items.append('RCtx ' + clist([f'({cn(a)}, {r_nats([ui(x) for x in l])})' for a, l in cur.items()]))
        elif k == 'in':
            items.append(f'ROp (RIn {cnat(ui(it[1]))})')
        elif k in ('sin', 'psin'):
            items.append(f'ROp (RSIn {cnat(ui(it[1]))})')
        elif k == 'pot':
            items.append(f'ROp (RPot {cnat(ui(it[1]))})')
        elif k == 'exc':
            items.append(f'ROp (RExc {cnat(ui(it[1]))})')
        elif k == 'setexc':
            items.append(f'ROp (RSetExc {r_nats([ui(x) for x in it[1]])})')
        elif k == 'addr':
            items.append(f'ROp (RAddr {cn(it[1])})')
        elif k == 'build':
            items.append(f'RBuild {r_build(res["builds"][bi])}'); bi += 1
    keys = res.get('keys') if res.get('keys_inst_ok', True) else []       # keys that differ between instances: no table
    return f'(mkRC {utx} {cx} {clist(items)} {clist([cn(k) for k in (keys or [])])})'


def render(part):
    rows = [f'({j}%nat, {r_case(c, r)})' for j, (c, r) in enumerate(part)]
    body = 'Definition cases : list (nat * rcase) :=\n' + clist(rows).replace('; (', ';\n (') + '.\n'
    body += 'Eval vm_compute in (map fst (filter (fun c => negb (c09_corr (snd c))) cases)).\n'
    body += 'Eval vm_compute in (map fst (filter (fun c => negb (c09_oracle (snd c))) cases)).\n'
    return body


def evaluate(cases, results, shard=120):
    mism, ofail, errs = set(), set(), []
    good = []
    for i, (c, r) in enumerate(zip(cases, results)):
        if 'driver_error' in r:
            mism.add(i); ofail.add(i)
        else:
            if not r.get('eqhash_ok', False):
                mism.add(i)                           # == / hash of the generated objects do not mean what the model says
            good.append((i, c, r))
    shards, maps = [], []
    for k in range(0, len(good), shard):
        part = good[k:k + shard]
        shards.append(render([(c, r) for _, c, r in part]))
        maps.append([i for i, _, _ in part])
    for (ok, lists, log), mp in zip(C.run_cases(PID, shards, HEADER), maps):
        if not ok or len(lists) != 2:
            errs.append(log[-1500:]); continue
        mism.update(mp[j] for j in lists[0]); ofail.update(mp[j] for j in lists[1])
    return mism, ofail, errs


def classify(case, res):
    if 'driver_error' in res:
        return 'driver'
    if any(not b['snap'] for b in res['builds']):
        return 'unmodified'
    if not res.get('eqhash_ok', True):
        return 'utxo_eq_hash'
    return 'inputs'


def routes_of(case):
    """utxo index -> set of registration routes used in the case"""
    ui = lambda k: case['inst'][k][0]
    r = {}
    for it in case['items']:
        if it[0] in ('in', 'sin', 'psin', 'pot', 'exc'):
            r.setdefault(ui(it[1]), set()).add(it[0][0] if it[0] not in ('sin', 'psin') else 'i')
        elif it[0] == 'setexc':
            for x in it[1]:
                r.setdefault(ui(x), set()).add('e')
    registered = {it[1] for it in case['items'] if it[0] == 'addr'}
    for a, l in case['ctx']:
        if a in registered:
            for x in l:
                r.setdefault(ui(x), set()).add('a')
    return r


def nontrivial(case, res):
    if 'driver_error' in res:
        return False
    overlap = any(len(v) >= 2 for v in routes_of(case).values())
    deep = any((b['calls'] and len(b['calls'][0][0]) >= 2) or (b['out'][0] == 'err' and b['out'][1] == 0) for b in res['builds'])
    return overlap and deep


def correspond(ctx, n=None):
    n = n or ctx.n(900, 24000)
    cases = corpus() + [A.lookalike_ids(ctx.rng, gen_case(ctx.rng)) for _ in range(n)]
    results = C.run_impl('inputs_driver', {'cases': cases})
    mism, ofail, errs = evaluate(cases, results)
    if errs:
        raise RuntimeError('cases file failed to compile: ' + errs[0])
    hist = dict(outcome={}, config={}, builds={}, selector_calls={}, fallback=0, late_failure=0, conflict_refused=0,
                all_selectors_failed=0, selector_crash=0, pool_size={}, body_len={}, multi_route_utxos=0, other_form_instances=0,
                incoherent_refs=0)
    for c, r in zip(cases, results):
        hist['config'][c['cfg']] = hist['config'].get(c['cfg'], 0) + 1
        if 'driver_error' in r:
            hist['outcome']['driver_error'] = hist['outcome'].get('driver_error', 0) + 1
            continue
        hist['builds'][len(r['builds'])] = hist['builds'].get(len(r['builds']), 0) + 1
        hist['multi_route_utxos'] += sum(1 for v in routes_of(c).values() if len(v) >= 2)
        hist['other_form_instances'] += sum(1 for k, (u, f) in enumerate(c['inst']) if k >= len(c['utxos']))
        hist['incoherent_refs'] += len(c['utxos']) - len({(t, i) for t, i, _ in c['utxos']})
        for b in r['builds']:
            o = b['out']
            key = 'ok' if o[0] == 'ok' else 'err:' + o[2]
            hist['outcome'][key] = hist['outcome'].get(key, 0) + 1
            k = len(b['calls'])
            hist['selector_calls'][k] = hist['selector_calls'].get(k, 0) + 1
            hist['fallback'] += k >= 2
            if o[0] == 'err':
                hist['late_failure'] += o[1] == 3
                hist['conflict_refused'] += o[1] == 0
                hist['all_selectors_failed'] += o[1] == 1
                hist['selector_crash'] += o[1] == 2
            if o[0] == 'ok':
                bl = min(len(o[2]), 8)
                hist['body_len'][bl] = hist['body_len'].get(bl, 0) + 1
            if b['calls']:
                ps = min(len(b['calls'][0][0]), 8)
                hist['pool_size'][ps] = hist['pool_size'].get(ps, 0) + 1
    distinct = len({C.canon_hash({k: v for k, v in c.items() if k != 'cfg'}) for c, r in zip(cases, results) if nontrivial(c, r)})

    def pack(i):
        return {'input': cases[i], 'impl': results[i], 'region': classify(cases[i], results[i])}
    fails = [pack(i) for i in sorted(ofail)]
    return dict(
        evaluations=len(cases), distinct_nontrivial=distinct,
        rule='6 fixed corpus scenarios (W1/W2 of the fixed finding utxo_hash_form first) + random histories: 2-10 UTxOs over 1-4 '
             'transaction ids (shared prefixes, first bytes across the 9/a and 0f/10 boundaries) and indices incl. 2/10/100/256, '
             'each UTxO independently explicit (add_input / add_script_input, possibly twice), potential, reported by the context '
             'at a registered address (possibly twice, address given as object or str, registered twice), excluded (append or '
             'caller-owned list); registrations use the same object or a separate == object in legacy / post-alonzo / decoded '
             'form; 6% second payload under an existing reference; outputs sized below / between / above what explicit and '
             'available inputs provide, tokens; 14 selector configurations (default, injected streams incl. depleted and '
             'out-of-range, fallback chains made to fail by stream, by max_input_count or by a user selector, a crashing '
             'selector, take-all, empty list); 28% build twice or three times with further registrations in between. '
             'non-trivial = some UTxO registered through >= 2 routes AND (a selector saw a pool of >= 2 UTxOs OR the build was '
             'refused for a conflict); distinct by hash',
        samples=[cases[0], cases[len(cases) // 2]],
        histograms=hist,
        compared='per build(): builder lists before the call = model state; pool passed to every selector = model pool; selector '
                 'results are sub-multisets of their pool (theorem hypothesis); ordered builder.inputs afterwards, ordered body '
                 'inputs (also after a CBOR round trip of the body), exception kind = model; oracle (Coq) on the '
                 'implementation\'s body: distinct, permitted only, explicit present, no excluded, conflict refused, strictly '
                 'ascending by (tx id bytes, index); monitor: byte/field snapshot of every UTxO object and of the '
                 'potential/excluded/context lists before = after',
        unmodified_monitor=dict(builds_checked=sum(len(r.get('builds', [])) for r in results),
                                violations=sum(1 for r in results for b in r.get('builds', []) if not b['snap'])),
        mismatches=[pack(i) for i in sorted(mism)[:20]],
        oracle_fail=fails[:50],
    )


def search(ctx, mism):
    """Something no longer checks: look for an input on which the property itself fails on the implementation."""
    ctx.rng.seed(f'search-{ctx.seed}')
    r = correspond(ctx, 4000 if ctx.quick else 40000)
    if r['oracle_fail']:
        return min(r['oracle_fail'], key=lambda f: len(json.dumps(f, default=str)))
    return None


def replay(ctx, rep):
    case = rep['case']['input']
    res = C.run_impl('inputs_driver', {'cases': [case]}, nshards=1)
    mism, ofail, errs = evaluate([case], res)
    print('input:', json.dumps(case))
    print('implementation:', json.dumps(res[0]))
    if errs:
        print('cases file failed to compile:', errs[0])
        return 1
    print('model agrees:', 0 not in mism, ' property oracle holds:', 0 not in ofail)
    return 1 if ofail else 0
