"""C01 — decoding an encoded ledger object returns an equal object (and re-encodes to the same bytes)."""
import json
from lib import common as C
from props import codecgen as G

PID = 'C01'
TARGETS = ['props/C01.vo', 'theories/CodecOracle.vo', 'gen/SchemaGen.vo']
LEVEL = 'proof'
MANIFEST = dict(
    text='Generic codec interpreter (coq/theories/Codec.v) over class tables REGENERATED from /repo on every run '
         '(T1, runtime introspection -> coq/gen/SchemaGen.v). Theorems: C01_roundtrip (for every schema, every well-typed value '
         'of any depth/width: from_prim (to_prim v) = v, hence equal object and identical re-encoding), CBOR layer dec(enc x)=x '
         '(CborProofs.dec_enc), and the per-run obligation C01_sites_known (the decidable list of unsound sites of TODAY\'s tables '
         '= the recorded list). Classes overriding their codec are opaque leaves in the theorem; their own round trip is decided by '
         'direct differential runs on the implementation (labelled partial in the evidence).',
    note='Trusted: Coq kernel+vm_compute; T1 translator; hand model Codec.v validated by correspondence on every class; '
         'acceptance shapes of custom classes; generator/driver. No axioms.',
    technique='Coq proof over regenerated class tables (translator) + model/implementation correspondence', ref='C01')
TRUSTED = [
    'Coq 8.16.1 kernel incl. vm_compute (no native_compute); no axioms (see Print Assumptions lines)',
    'T1 translator tools/translate/schema.py + tools/props/codecgen.py (class tables, unions with order, keys, codes, sizes; '
    'AST digests of hand-modelled framework functions and custom codecs)',
    'hand model coq/theories/Codec.v of serialization.py (array/coded/map/dict/set/union/optional restoration, error kinds), '
    'custom classes as opaque leaves with acceptance shapes (tools/props/codecgen.py OPAQUE_SHAPES)',
    'tools/impl/codec_driver.py (seeded object generator through the public constructors)',
]
ASSUMPTIONS = ['pure-Python cbor2 backend (the one pycardano patches); PYTHONHASHSEED=0',
               'objects are generated through public constructors; typeguard rejections are retried']
GEN_OBLIGATIONS = ['SchemaGen.schema regenerated and compiled', 'C01_sites_known', 'C01_fingerprints_known']

HEADER = '''From Coq Require Import ZArith NArith List String.
From PyC Require Import Base Cbor Value Codec CodecOracle.
From PyCGen Require Import SchemaGen.
Import ListNotations.
Open Scope string_scope.
'''
KNOWN_RETYPED = 'plutus-data-retyped'
KNOWN_KEY = 'witness-key-retyped'


def regen(ctx):
    sch = G.load_schema(C.REPO)
    C.write_gen('SchemaGen', G.schema_v(sch))
    ctx.schema = sch
    return sch


def gen_cases(ctx, sch, n):
    names = sorted(sch['classes'])
    cases = []
    per = max(3, n // len(names))
    for name in names:
        for k in range(per):
            cases.append({'cls': name, 'seed': ctx.rng.getrandbits(32)})
    heavy = ['ProtocolParamUpdate', 'TransactionBody', 'Transaction', 'TransactionWitnessSet', 'TransactionOutput', 'ProposalProcedure', 'PoolParams',
             'AuxiliaryData', 'ProtocolParamUpdate', 'VotingProcedures']
    while len(cases) < n:
        cases.append({'cls': ctx.rng.choice(heavy), 'seed': ctx.rng.getrandbits(32)})
    return cases


def render(part):
    items = []
    for i, c, r in part:
        items.append(f'({i}%nat, ({G.cstr(c["cls"])}, {G.r_pv(r["pv"])}, {G.chx(bytes.fromhex(r["cbor"]))}))')
    body = 'Definition cases : list (nat * (string * pv * bytes)) :=\n' + G.clist(items) + '.\n'
    body += 'Eval vm_compute in (map fst (filter (fun c => match snd c with (cl, v, bs) => negb (c01_enc_ok schema v bs && c01_rt_exact schema cl v bs) end) cases)).\n'
    return body


def retyped_region(r):
    """plutus_data elements that are bare primitives come back wrapped in RawPlutusData (known finding)"""
    def walk(v):
        if v[0] == 'obj' and v[1] == 'TransactionWitnessSet':
            pd = v[2][4]
            if pd[0] == 'list' and any(e[0] != 'opq' for e in pd[1]):
                return True
        if v[0] in ('obj',):
            return any(walk(x) for x in v[2])
        if v[0] in ('list',):
            return any(walk(x) for x in v[1])
        return False
    return 'pv' in r and walk(r['pv'])


def evaluate(cases, results, shard=120):
    mism, ofail, errs = set(), {}, []
    good = []
    for i, (c, r) in enumerate(zip(cases, results)):
        if 'driver_error' in r:
            mism.add(i); ofail[i] = 'driver'
            continue
        if 'skip' in r:
            continue
        impl_ok = r.get('decode') == 'ok' and r.get('eq') and r.get('reenc') == r['cbor']
        if not impl_ok:
            if 'cost_models' in r.get('flags', []) and r.get('decode') in ('DeserializeException', 'Other:AttributeError'):
                ofail[i] = 'cost-models-bare-dict'
            elif 'typed_vkey' in r.get('flags', []) and r.get('decode') == 'ok' and r.get('reenc') == r['cbor'] and not retyped_region(r):
                ofail[i] = KNOWN_KEY
            else:
                ofail[i] = KNOWN_RETYPED if retyped_region(r) and r.get('decode') == 'ok' and r.get('reenc') == r['cbor'] else 'roundtrip'
        if 'pv' in r:
            good.append((i, c, r))
        else:
            mism.add(i)
    shards = []
    for k in range(0, len(good), shard):
        shards.append(render(good[k:k + shard]))
    for (ok, lists, log) in C.run_cases(PID, shards, HEADER):
        if not ok or len(lists) != 1:
            errs.append(log[-1500:]); continue
        mism.update(lists[0])
    # a model failure on a case where the implementation itself fails the property is not a tie problem
    mism = {i for i in mism if i not in ofail or ofail[i] == 'driver'}
    return mism, ofail, errs


def correspond(ctx, n=None):
    sch = getattr(ctx, 'schema', None) or regen(ctx)
    n = n or ctx.n(900, 30000)
    cases = gen_cases(ctx, sch, n)
    opaque = [k for k, c in sch['classes'].items() if G.is_opaque(c)]
    results = C.run_impl('codec_driver', {'cases': cases, 'opaque': opaque})
    mism, ofail, errs = evaluate(cases, results)
    if errs:
        raise RuntimeError('cases file failed to compile: ' + errs[0])
    per_class, skipped = {}, {}
    for c, r in zip(cases, results):
        if 'skip' in r:
            skipped[c['cls']] = skipped.get(c['cls'], 0) + 1
        else:
            per_class[c['cls']] = per_class.get(c['cls'], 0) + 1
    distinct = len({r['cbor'] for r in results if 'cbor' in r and len(r['cbor']) > 8})
    def pack(i):
        r = dict(results[i]); r.pop('pv', None)
        return {'input': cases[i], 'impl': r, 'region': ofail.get(i, 'model')}
    return dict(
        evaluations=len(cases), distinct_nontrivial=distinct,
        rule='for every CBORSerializable class of the ledger modules (regenerated list), seeded random objects built through the '
             'public constructors: every union alternative, optional-field subsets, tagged/untagged sets, boundary integers '
             '(0,23,24,2^8,2^16,2^32,2^63-1,2^64-1), nesting up to 5; extra weight on Transaction/Body/WitnessSet/Output/'
             'ProposalProcedure/PoolParams/AuxiliaryData. non-trivial = encoding longer than 4 bytes; distinct by bytes',
        samples=[{'cls': cases[0]['cls'], 'seed': cases[0]['seed'], 'cbor': results[0].get('cbor')}],
        classes_covered=len(per_class), classes_total=len(sch['classes']), classes_not_generated=sorted(skipped),
        opaque_classes=len(opaque), per_class_min=min(per_class.values()) if per_class else 0,
        traces_validated_against_impl=sum(per_class.values()),
        compared='model to_cbor(value tree) = implementation bytes; model from_cbor(bytes) re-encodes to the same bytes; oracle on the '
                 'implementation: from_cbor(to_cbor(x)) == x and to_cbor of the result == original bytes',
        partial='custom classes (codec overrides) are opaque leaves of the theorem: their own decode/encode is decided by the direct '
                'differential oracle only',
        mismatches=[pack(i) for i in sorted(mism)[:20]],
        oracle_fail=[pack(i) for i in sorted(ofail)[:60]],
    )


def search(ctx, mism):
    ctx.rng.seed(f'search-{ctx.seed}')
    r = correspond(ctx, 6000 if ctx.quick else 60000)
    bad = [f for f in r['oracle_fail'] if f['region'] not in (KNOWN_RETYPED, KNOWN_KEY, 'cost-models-bare-dict')]
    return bad[0] if bad else None


def replay(ctx, rep):
    case = rep['case']['input']
    sch = regen(ctx)
    opaque = [k for k, c in sch['classes'].items() if G.is_opaque(c)]
    res = C.run_impl('codec_driver', {'cases': [case], 'opaque': opaque}, nshards=1)
    r = dict(res[0]); r.pop('pv', None)
    print('input:', json.dumps(case)); print('implementation:', json.dumps(r))
    ok = r.get('decode') == 'ok' and r.get('eq') and r.get('reenc') == r.get('cbor')
    print('property holds on this input:', bool(ok))
    return 0 if ok else 1
