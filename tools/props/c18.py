"""C18 — Plutus data is encoded the way the ledger's Plutus codec encodes it."""
import ast, json, os
from lib import common as C
from props import plutusgen as G

PID = 'C18'
TARGETS = ['props/C18.vo', 'theories/PlutusOracle.vo']
LEVEL = 'proof'

MANIFEST = dict(
    text='Theorems (Coq, induction over all Plutus data / all class descriptions): the constructor-id/tag mapping is a bijection onto '
         '121-127, 1280-1400, 102; canonically shaped typed dataclasses (maps keyed by int/bytes or by class instances included), '
         'RawPlutusData and the JSON form encode to exactly '
         'enc(plutus_ref d) (reference encoder transcribed from the ledger codec); decoding those bytes and re-encoding, and the '
         'JSON route, preserve the bytes on decidable sound regions; each unsound region of the pinned tree has a _refuted witness. '
         'Long-bytes guard: the constructor refuses exactly the value lists holding plain bytes over 64 bytes, for EVERY list of declared '
         'field types (bytes, Datum, Union, Dict, postponed string annotations), and an object holding such a value could not encode to the '
         'reference bytes (C18_long_guard_iff / _needed); postponed annotations leave every route unchanged for classes with atomic fields. '
         'get_tag / get_constructor_id_and_fields are re-translated from the current source on every run and proved equal to the model.',
    note='Trusted: Coq kernel+vm_compute; reference encoder plutus_ref (specification, cross-checked against the Haskell-generated fixture in '
         'test/resources); hand model Plutus.v of plutus.py/serialization.py/cbor2 validated by differential runs on generated typed '
         'dataclasses, raw data and JSON; AST translator for the two tag functions; generator; driver. No axioms.',
    technique='Coq proof (nested induction over data/values) + Python-AST->Gallina translator + correspondence against the reference encoder',
    ref='C18')
TRUSTED = [
    'Coq 8.16.1 kernel incl. vm_compute (no native_compute); no axioms (see Print Assumptions lines)',
    'coq/theories/Plutus.v plutus_ref: transcription of plutus-core PlutusCore/Data.hs encodeData (specification); anchored on the '
    'Haskell-generated fixture test/resources/haskell/PlutusData/plutus-data.cbor (Example in PlutusProofs.v)',
    'hand model coq/theories/Plutus.v of PlutusData / RawPlutusData / cbor2 pure-Python codec, tied by correspondence on every route',
    'tools/props/c18.py translator (Python ast -> Gallina) for get_tag and get_constructor_id_and_fields, fail-closed',
    'tools/impl/plutus_driver.py, tools/props/plutusgen.py (generator, Coq literal printer, Python twin of the reference encoder '
    're-checked against Coq on every case)',
]
ASSUMPTIONS = [
    'pure-Python cbor2 is forced (pycardano\'s decoder patches do not reach the C extension)',
    'CONSTR_ID is set explicitly in generated classes (the sha256-derived default id is not modelled)',
    'Python dict key equality is modelled structurally; map keys that are maps are not generated (FrozenDict keys outside the model)',
    'generated classes are declared @dataclass(unsafe_hash=True) so that instances can be dict keys (Map Credential Integer, '
    'Dict[Slot, ..]); hash(obj) succeeds iff all field values are hashable, which is what the model\'s `hashable` states',
    'to_primitive freezes map keys (FrozenList / IndefiniteFrozenList / FrozenDict); the model identifies a frozen container with '
    'its unfrozen twin (same encoding, equal as Python values) -- this identification is what every generated map keyed by class '
    'instances checks against the reference bytes',
    'DOMAIN RESTRICTION (explicit): classes used as dict KEYS have only int / bytes / ByteString / key-class / Union-of-key-class '
    'fields. A Datum-typed field inside a key class is left out: with an int or bytes in it the object is hashable and encodes '
    'correctly, but from_dict rebuilds the field as RawPlutusData, which is unhashable, so from_dict(to_dict(x)) raises TypeError '
    '(reported to the coordinator as a finding of the unchanged tree)',
    'json.dumps/json.loads is the identity on the dict form (checked: the from_json(to_json) route is compared with from_dict(to_dict))',
    'lists hold fewer than 24 elements (the patched decode_array mis-reads definite arrays of 24+ elements; reported separately)',
    'blake2b is external: datum_hash is checked to be the hash of the same bytes as to_cbor; equal bytes give equal hashes',
    'LONG-BYTES GUARD (refuse or canonical): a value with plain bytes over 64 bytes as a field value of a typed class is not a legal '
    'typed object.  The oracle accepts for it (a) the constructor refusing with InvalidArgumentException and (b) from_cbor of the '
    'reference bytes of its content refusing with InvalidArgumentException (the decoder joins the chunks into plain bytes and the '
    'constructor refuses them; for a Datum-typed field there is no legal Python value holding such a byte string directly, so these '
    'canonical bytes cannot be decoded by the class -- fail-closed, no other bytes are written).  Any route that yields bytes other '
    'than the reference bytes for such a value falls into region long-bytes-guard-bypassed, which is never a known finding',
    'a Dict[..]-annotated field lets ANY value through validate() (typing.Dict[..].__origin__ is dict, the test `origin is Dict` never '
    'holds); plain long bytes there are generated for the constructor routes only (the class cannot decode a byte string into a '
    'Dict field: skip_ref)',
    'POSTPONED ANNOTATIONS: a fifth of the typed cases declare their classes in a fresh module under `from __future__ import '
    'annotations`; dataclasses.Field.type is then a string until ArrayCBORSerializable.from_primitive replaces it by the evaluated '
    'hint (it MUTATES the Field).  The driver therefore runs construction, to_cbor, hash, redeemer, to_dict, from_dict, from_json '
    'BEFORE the two from_cbor routes and creates fresh classes per such case; the state after a first from_cbor (some classes '
    'resolved, some not) is not observed',
    'DOMAIN RESTRICTION (explicit, new findings of the unchanged tree reported to the coordinator, not yet in known_findings.json): '
    'the from_dict / from_json routes fail closed (a) for a Union-typed field holding an int / bytes / ByteString value: from_dict looks '
    'up f["constructor"] (KeyError), or DeserializeException when no alternative is a class (region typed-json-union-primitive, '
    'theorem C18_typed_json_union_prim_refuted); (b) for classes declared under postponed annotations whenever the string '
    'annotations change what from_dict does, e.g. a class-typed field (region typed-json-postponed-annotations, theorem '
    'C18_typed_json_postponed_refuted).  These routes are run and compared with the model exactly; their oracle failures are '
    'counted (domain_restricted_hits) and not reported as violations',
    'DOMAIN RESTRICTION (explicit): a generated Union has at most one of bytes / ByteString: in Union[bytes, ByteString] a ByteString '
    'of over 64 bytes is rebuilt by from_primitive through the first alternative as plain bytes and the guard refuses the class\'s '
    'own output (fail-closed); Datum is not generated as a Union alternative (typing flattens it and from_dict then consults the '
    'sha256-derived CONSTR_ID of the abstract PlutusData base, which is not modelled)',
    'DOMAIN RESTRICTION (explicit): on the two build routes of a raw case (RawPlutusData over the canonical / the Python-list '
    'shape) data whose maps have duplicate keys or keys that are lists / constructors with fields is outside the quantifier: a '
    'Python dict cannot hold such keys, the object cannot be written down. The decode, to_dict and JSON routes of the same data '
    'are inside the quantifier and their failures are reported (regions map-dup-keys, map-key-unhashable-decode/-build)',
    'failures inside a region are reported to tools/check.py with the region string (shortest input per region); whether a '
    'region is a known finding is decided by /verif/known_findings.json, not by this module',
]

REGIONS = {
    0: None,
    1: 'chunk-flatten-on-decode',
    2: 'raw-indefinite-not-recursed',
    3: 'json-empty-list-indefinite',
    4: 'json-empty-constr102-indefinite',
    5: 'untag-beyond-1400',
    6: 'raw-top-empty-list',
    7: 'raw-top-bytestring',
    8: 'map-key-unhashable-decode',
    9: 'map-key-unhashable-build',
    10: 'map-dup-keys',
    11: 'int-over-64-bytes-unchunked',
    12: 'typed-pylist-definite',
    13: 'typed-empty-ilist-indefinite',
    14: 'typed-list-field-decoded-definite',
    15: 'typed-json-bytes-kind',
    16: 'typed-json-nested-list',
    17: 'typed-long-bytes-in-container',
    18: 'typed-datum-field-shape',
    19: 'map-key-list-to-dict',
    20: 'typed-to-dict-cbortag',
    21: 'long-bytes-guard-bypassed',
    22: 'typed-json-union-primitive',
    23: 'typed-json-postponed-annotations',
}
# Every region except 'typed-datum-field-shape' (an invariant of the generator: raw data inside Datum fields is generated
# canonical) is a genuine violation of the property text on the unchanged tree.  They are NOT filtered here: a failing
# route is returned in `oracle_fail` with its region string and tools/check.py decides -- region listed in
# /verif/known_findings.json (property C18, status known) => KNOWN-FINDING line, anything else => VIOLATION.
# 'long-bytes-guard-bypassed' is no defect of the pinned tree either: it is the set of values the long-bytes guard has to
# refuse (plain bytes over 64 bytes as a field value of a typed class, whatever the declared field type).  On the pinned
# tree nothing can fail there (the constructor refuses, the oracle accepts a refusal); a failing route in that region
# means the guard let the value through and other bytes than the ledger's were written => VIOLATION.
FINDING_REGIONS = [v for k, v in REGIONS.items() if v and v not in ('typed-datum-field-shape', 'long-bytes-guard-bypassed')]
# DOMAIN RESTRICTION (explicit, see ASSUMPTIONS; reported to the coordinator as findings of the unchanged tree that are
# not yet listed in known_findings.json): the from_dict / from_json routes of (a) a Union-typed field holding an int /
# bytes / ByteString value and (b) a class declared under postponed annotations whose from_dict result depends on the
# annotations being strings.  Both fail closed (KeyError / DeserializeException, never other bytes).  The routes are
# RUN and compared with the model exactly (a change of behaviour there is a correspondence mismatch); their oracle
# failures are counted in `domain_restricted_hits` instead of being reported as violations.
RESTRICTED_REGIONS = {'typed-json-union-primitive', 'typed-json-postponed-annotations'}
# DOMAIN RESTRICTION (not a finding, see ASSUMPTIONS): a Python dict cannot hold two equal keys nor an unhashable key, so
# raw data with duplicate map keys or with list-/constructor-with-fields keys has no RawPlutusData(dict) representation
# at all; on the two BUILD routes of a raw case such data is outside the quantifier (the driver's own dict literal
# collapses / raises).  The decode and JSON routes of the same data ARE inside and are reported.
UNREPRESENTABLE = {('raw', 'canon'), ('raw', 'py')}
UNREPRESENTABLE_REGIONS = {'map-dup-keys', 'map-key-unhashable-build'}


def listed_regions():
    """regions listed as known findings of C18 in /verif/known_findings.json"""
    return {f['region'] for f in C.known_findings(PID)}


# ================================================================ translator (Python ast -> Gallina)
class Untranslatable(Exception):
    pass


CMP = {ast.Lt: '<?', ast.LtE: '<=?', ast.Eq: '=?'}


class Tr:
    """Translates the two tag functions of pycardano/plutus.py. Integers are Z. Fails closed."""

    def __init__(self, params, attr_map, ret, raises):
        self.names = dict(params)        # python name -> gallina name (Z-valued)
        self.attr_map = attr_map         # ('raw_tag', 'tag') -> gallina Z expr / symbolic
        self.ret = ret                   # function: ast node -> gallina text of a return value
        self.raises = raises

    def zexpr(self, e):
        if isinstance(e, ast.Constant) and isinstance(e.value, int) and not isinstance(e.value, bool):
            return f'({e.value})' if e.value < 0 else str(e.value)
        if isinstance(e, ast.Name):
            if e.id in self.names:
                return self.names[e.id]
            raise Untranslatable(f'unknown name {e.id}')
        if isinstance(e, ast.Attribute) and isinstance(e.value, ast.Name) and (e.value.id, e.attr) in self.attr_map:
            v = self.attr_map[(e.value.id, e.attr)]
            if v is None:
                raise Untranslatable('non-integer attribute in integer position')
            return v
        if isinstance(e, ast.BinOp) and isinstance(e.op, (ast.Add, ast.Sub, ast.Mult)):
            op = {ast.Add: '+', ast.Sub: '-', ast.Mult: '*'}[type(e.op)]
            return f'({self.zexpr(e.left)} {op} {self.zexpr(e.right)})'
        if isinstance(e, ast.UnaryOp) and isinstance(e.op, ast.USub):
            return f'(- {self.zexpr(e.operand)})'
        if (isinstance(e, ast.Call) and isinstance(e.func, ast.Name) and e.func.id == 'len' and len(e.args) == 1
                and not e.keywords and isinstance(e.args[0], ast.Attribute) and isinstance(e.args[0].value, ast.Name)
                and (e.args[0].value.id, e.args[0].attr, 'len') in self.attr_map):
            return self.attr_map[(e.args[0].value.id, e.args[0].attr, 'len')]
        raise Untranslatable('integer expression: ' + ast.dump(e)[:120])

    def bexpr(self, e):
        if isinstance(e, ast.Compare):
            parts, left = [], e.left
            for op, right in zip(e.ops, e.comparators):
                l, r = self.zexpr(left), self.zexpr(right)
                if type(op) in CMP:
                    parts.append(f'({l} {CMP[type(op)]} {r})')
                elif isinstance(op, ast.Gt):
                    parts.append(f'({r} <? {l})')
                elif isinstance(op, ast.GtE):
                    parts.append(f'({r} <=? {l})')
                elif isinstance(op, ast.NotEq):
                    parts.append(f'(negb ({l} =? {r}))')
                else:
                    raise Untranslatable('comparison ' + ast.dump(op))
                left = right
            return parts[0] if len(parts) == 1 else '(' + ' && '.join(parts) + ')'
        if isinstance(e, ast.BoolOp):
            op = ' && ' if isinstance(e.op, ast.And) else ' || '
            return '(' + op.join(self.bexpr(v) for v in e.values) + ')'
        if isinstance(e, ast.UnaryOp) and isinstance(e.op, ast.Not):
            return f'(negb {self.bexpr(e.operand)})'
        raise Untranslatable('condition: ' + ast.dump(e)[:120])

    def block(self, stmts, ind):
        """statements -> Gallina expression; every path must end in return/raise"""
        if not stmts:
            raise Untranslatable('path without return')
        s, rest = stmts[0], stmts[1:]
        pad = ' ' * ind
        if isinstance(s, ast.Expr) and isinstance(s.value, ast.Constant) and isinstance(s.value.value, str):
            return self.block(rest, ind)                                   # docstring
        if isinstance(s, ast.Return):
            return pad + self.ret(self, s.value)
        if isinstance(s, ast.Raise):
            exc = s.exc
            if isinstance(exc, ast.Call) and isinstance(exc.func, ast.Name):
                return pad + self.raises(exc.func.id)
            raise Untranslatable('raise of ' + ast.dump(exc)[:80])
        if isinstance(s, ast.Assign) and len(s.targets) == 1 and isinstance(s.targets[0], ast.Name):
            name = s.targets[0].id
            g = name + '_'
            val = self.zexpr(s.value)
            saved = dict(self.names)
            self.names[name] = g
            body = self.block(rest, ind)
            self.names = saved
            return f'{pad}let {g} := {val} in\n{body}'
        if isinstance(s, ast.If):
            saved = dict(self.names)
            c = self.bexpr(s.test)
            a = self.block(list(s.body) + ([] if self.terminates(s.body) else rest), ind + 2)
            self.names = dict(saved)
            b = self.block((list(s.orelse) if s.orelse else []) + ([] if (s.orelse and self.terminates(s.orelse)) else rest), ind + 2)
            self.names = saved
            return f'{pad}if {c} then\n{a}\n{pad}else\n{b}'
        raise Untranslatable('statement: ' + ast.dump(s)[:120])

    def terminates(self, stmts):
        if not stmts:
            return False
        s = stmts[-1]
        if isinstance(s, (ast.Return, ast.Raise)):
            return True
        if isinstance(s, ast.If):
            return bool(s.orelse) and self.terminates(s.body) and self.terminates(s.orelse)
        return False


def _args(fn, expect):
    names = [a.arg for a in fn.args.args]
    if (names != expect or fn.args.vararg or fn.args.kwarg or fn.args.kwonlyargs or fn.args.defaults
            or fn.decorator_list):
        raise Untranslatable(f'{fn.name}: signature {names}')


def translate(src):
    tree = ast.parse(src)
    fns = {n.name: n for n in tree.body if isinstance(n, ast.FunctionDef)}
    for need in ('get_tag', 'get_constructor_id_and_fields'):
        if need not in fns:
            raise Untranslatable('missing function ' + need)
    # --- get_tag(constr_id) -> Optional[int]
    f = fns['get_tag']
    _args(f, ['constr_id'])

    def ret_opt(tr, e):
        if e is None or (isinstance(e, ast.Constant) and e.value is None):
            return 'None'
        return f'Some {tr.zexpr(e)}'

    def no_raise(name):
        raise Untranslatable('get_tag raises ' + name)
    t1 = Tr({'constr_id': 'constr_id'}, {}, ret_opt, no_raise)
    body1 = t1.block(f.body, 2)
    # --- get_constructor_id_and_fields(raw_tag) -> (id, fields)
    g = fns['get_constructor_id_and_fields']
    _args(g, ['raw_tag'])
    amap = {('raw_tag', 'tag'): 'raw_tag_tag', ('raw_tag', 'value'): None, ('raw_tag', 'value', 'len'): 'len_value'}

    def is_value(e):
        return isinstance(e, ast.Attribute) and isinstance(e.value, ast.Name) and e.value.id == 'raw_tag' and e.attr == 'value'

    def gval(tr, e):
        if is_value(e):
            return 'GValue'
        if isinstance(e, ast.Subscript) and is_value(e.value):
            k = e.slice
            if isinstance(k, ast.Constant) and isinstance(k.value, int):
                return f'(GAt {k.value})'
            raise Untranslatable('subscript ' + ast.dump(k)[:80])
        return f'(GInt {tr.zexpr(e)})'

    def ret_pair(tr, e):
        if not (isinstance(e, ast.Tuple) and len(e.elts) == 2):
            raise Untranslatable('return of get_constructor_id_and_fields is not a pair')
        return f'GRet {gval(tr, e.elts[0])} {gval(tr, e.elts[1])}'

    def raises(name):
        return f'GRaise "{name}"'
    t2 = Tr({}, amap, ret_pair, raises)
    body2 = t2.block(g.body, 2)
    return ('(* GENERATED by tools/props/c18.py from pycardano/plutus.py (get_tag, get_constructor_id_and_fields). Do not edit. *)\n'
            'From Coq Require Import ZArith String Bool.\nFrom PyC Require Import Plutus.\n'
            'Open Scope string_scope.\nOpen Scope Z_scope.\n\n'
            'Definition get_tag (constr_id : Z) : option Z :=\n' + body1 + '.\n\n'
            'Definition get_constructor_id_and_fields (raw_tag_tag len_value : Z) : gres :=\n' + body2 + '.\n')


def regen(ctx):
    src = open(os.path.join(C.REPO, 'pycardano', 'plutus.py')).read()
    C.write_gen('PlutusGen', translate(src))


# ================================================================ cases
def finish_case(c):
    if c['kind'] == 'raw':
        c['ref'] = G.ref_enc(c['d']).hex()
        c['json'] = G.json_of(c['d'])
    elif c['kind'] == 'typed':
        c['ref'] = G.ref_enc(G.abs_tree(c['x'])).hex()
    return c


def fixed_cases():
    """boundaries of the quantifier, each at least once"""
    cs = []
    for i in G.IDS + [3, 4, 9, 100, 130, 200, 2**31]:
        cs.append({'kind': 'tag', 'id': i})
        cs.append({'kind': 'raw', 'd': ['C', i, []]})
        cs.append({'kind': 'raw', 'd': ['C', i, [['I', 1], ['C', i, [['B', 'ab']]]]]})
        cs.append({'kind': 'raw', 'd': ['L', [['C', i, [['I', 1]]]]]})
    for t in [0, 24, 101, 102, 103, 120, 121, 122, 127, 128, 258, 1279, 1280, 1281, 1399, 1400, 1401, 1402, 1500, 1535, 1536, 1537, 2000]:
        cs.append({'kind': 'tag', 'tag': t})
    cs.append({'kind': 'tag', 'tag': 102, 'bad102': True})
    for z in G.INTS + G.HUGE:
        cs.append({'kind': 'raw', 'd': ['I', z]})
        cs.append({'kind': 'raw', 'd': ['L', [['I', z]]]})
    for n in G.BLEN + [192, 193]:
        b = bytes((7 * i + n) % 256 for i in range(n)).hex()
        cs.append({'kind': 'raw', 'd': ['B', b]})
        cs.append({'kind': 'raw', 'd': ['C', 0, [['B', b]]]})
        cs.append({'kind': 'raw', 'd': ['M', [[['B', b], ['B', b]]]]})
        cs.append({'kind': 'typed', 't': ['cls', 1, [['bstr'], ['list', ['bstr']]]],
                   'x': ['o', 1, [['bstr'], ['list', ['bstr']]], [['s', b], ['il', [['s', b]]]]]})
        cs.append({'kind': 'guard', 'id': 1, 'n': n})
        if n <= 64:
            cs.append({'kind': 'typed', 't': ['cls', 2, [['bytes'], ['dict', ['bytes'], ['bytes']]]],
                       'x': ['o', 2, [['bytes'], ['dict', ['bytes'], ['bytes']]], [['b', b], ['d', [[['b', b], ['b', b]]]]]]})
    cs += [{'kind': 'raw', 'd': d} for d in [
        ['L', []], ['M', []], ['L', [['L', []]]], ['C', 0, [['L', []]]], ['C', 200, [['L', []]]],
        ['L', [['C', 0, []]]], ['L', [['C', 200, []]]], ['C', 200, [['C', 0, [['I', 1]]]]], ['C', 0, [['C', 200, [['C', 1, [['I', 1]]]]]]],
        ['M', [[['C', 0, []], ['I', 1]]]], ['M', [[['C', 0, [['I', 1]]], ['I', 1]]]], ['M', [[['L', []], ['I', 1]]]],
        ['M', [[['L', [['I', 1]]], ['I', 1]]]], ['M', [[['I', 1], ['I', 2]], [['I', 1], ['I', 3]]]],
        ['M', [[['I', 2], ['L', [['C', 1, [['I', 1]]]]]], [['I', 1], ['M', [[['B', ''], ['L', []]]]]]]],
        # the Haskell-generated fixture of test/resources/haskell/PlutusData
        ['C', 1, [['B', 'c2ff616e11299d9094ce0a7eb5b7284b705147a822f4ffbd471f971a'], ['I', 1643235300000],
                  ['C', 8, [['C', 130, [['I', 123], ['B', '31323334'], ['L', [['I', 4], ['I', 5], ['I', 6]]],
                                        ['M', [[['I', 1], ['B', '31']], [['I', 2], ['B', '32']]]]]]]],
                  ['C', 9, []]]],
    ]]
    inner = ['cls', 2, [['int']]]
    big = ['cls', 130, [['bytes']]]
    T = ['cls', 4, [['union', [inner, big]], ['dict', ['int'], inner], ['list', inner]]]
    for lst in (['il', [['o', 2, [['int']], [['i', 3]]]]], ['l', [['o', 2, [['int']], [['i', 3]]]]], ['l', []], ['il', []]):
        cs.append({'kind': 'typed', 't': T, 'x': ['o', 4, T[2], [['o', 130, [['bytes']], [['b', '78']]],
                                                                  ['d', [[['i', 1], ['o', 2, [['int']], [['i', 2]]]]]], lst]]})
    LL = ['cls', 5, [['list', ['list', inner]]]]
    cs.append({'kind': 'typed', 't': LL, 'x': ['o', 5, LL[2], [['il', [['il', [['o', 2, [['int']], [['i', 3]]]]]]]]]})
    E = ['cls', 9, []]
    cs.append({'kind': 'typed', 't': E, 'x': ['o', 9, [], []]})
    E2 = ['cls', 200, []]
    cs.append({'kind': 'typed', 't': E2, 'x': ['o', 200, [], []]})
    # plain bytes over 64 bytes inside a container escape the long-bytes guard (region typed-long-bytes-in-container)
    LB = ['cls', 1, [['list', ['bytes']]]]
    cs.append({'kind': 'typed', 't': LB, 'x': ['o', 1, LB[2], [['il', [['b', '01' * 65]]]]]})
    cs += objkey_cases()
    cs += guard_cases()
    D = ['cls', 3, [['datum'], ['ilist']]]
    for dv in (['i', 5], ['b', '6162'], ['il', [['i', 1]]], ['il', []], ['d', [[['i', 1], ['i', 2]]]], ['r', ['t', 121, ['il', [['i', 1]]]]],
               ['r', ['t', 121, ['l', []]]], ['o', 2, [['int']], [['i', 1]]], ['r', ['t', 102, ['l', [['i', 200], ['il', [['t', 122, ['l', []]]]]]]]]):
        cs.append({'kind': 'typed', 't': D, 'x': ['o', 3, D[2], [dv, ['il', [['i', 1], ['t', 121, ['l', []]]]]]]})
    return cs


def guard_cases():
    """the long-bytes guard over every declaration form of the field (bytes, Datum, Union with bytes first / last / next
    to int, Dict[..] -- any value passes validate() there --), with evaluated and with postponed (string) annotations,
    at the top level and in an instance nested below a field / list / dict value / Union, lengths around 64 and the
    chunk boundaries; the same classes holding legal values (short bytes, the other Union alternative, ByteString)"""
    cs = []
    inner = ['cls', 1, [['int']]]
    iv = ['o', 1, [['int']], [['i', 7]]]
    forms = [(['bytes'], True), (['datum'], True), (['union', [['bytes'], inner]], True), (['union', [inner, ['bytes']]], True),
             (['union', [['int'], ['bytes'], inner]], True), (['union', [['int'], ['bytes']]], True),
             (['dict', ['int'], ['int']], False)]

    def blob(n):
        return bytes((i * 11 + 5 + n) % 256 for i in range(n)).hex()
    for ft, conf in forms:
        for pp in (False, True):
            for n in ([1, 64, 65, 128, 129, 193] if not pp else [64, 65, 129]):
                if not conf and n <= 64:
                    continue
                fts = [['bytes'], ft]
                t = ['cls', 0, fts]
                c = {'kind': 'typed', 't': t, 'x': ['o', 0, fts, [['b', '6b'], ['b', blob(n)]]]}
                if pp:
                    c['pp'] = True
                if not conf:
                    c['skip_ref'] = True
                cs.append(c)
            # nested: the refusing constructor is the inner one
            for wrap in ('field', 'list', 'dictval', 'union'):
                fts = [ft]
                t = ['cls', 2, fts]
                o = ['o', 2, fts, [['b', blob(65)]]]
                if wrap == 'field':
                    top, x = ['cls', 9, [['int'], t]], None
                    x = ['o', 9, top[2], [['i', 1], o]]
                elif wrap == 'list':
                    top = ['cls', 9, [['list', t]]]
                    x = ['o', 9, top[2], [['il', [o]]]]
                elif wrap == 'dictval':
                    top = ['cls', 9, [['dict', ['int'], t]]]
                    x = ['o', 9, top[2], [['d', [[['i', 5], o]]]]]
                else:
                    top = ['cls', 9, [['union', [inner, t]]]]
                    x = ['o', 9, top[2], [o]]
                c = {'kind': 'typed', 't': top, 'x': x}
                if pp:
                    c['pp'] = True
                if not conf:
                    c['skip_ref'] = True
                cs.append(c)
    # legal values in Union / Datum fields next to a primitive alternative; ByteString in a Union
    for pp in (False, True):
        for ft, v in [(['union', [['bytes'], inner]], iv), (['union', [inner, ['bytes']]], ['b', '']),
                      (['union', [['bstr'], inner]], ['s', blob(129)]), (['union', [inner, ['bstr']]], ['s', blob(3)]),
                      (['union', [['int'], inner]], ['i', 2**64]), (['union', [['int'], ['bytes']]], ['i', -1]),
                      (['datum'], ['b', blob(64)])]:
            fts = [ft, ['int']]
            c = {'kind': 'typed', 't': ['cls', 3, fts], 'x': ['o', 3, fts, [v, ['i', 0]]]}
            if pp:
                c['pp'] = True
            cs.append(c)
    # postponed annotations over the other declaration forms (nested class, List / Dict of classes, Datum, plain fields)
    T = ['cls', 4, [inner, ['list', inner], ['dict', ['int'], inner], ['datum'], ['bstr'], ['ilist']]]
    xs = ['o', 4, T[2], [iv, ['il', [iv]], ['d', [[['i', 1], iv]]], ['i', 5], ['s', blob(70)], ['il', [['i', 1]]]]]
    cs.append({'kind': 'typed', 't': T, 'x': xs, 'pp': True})
    A = ['cls', 5, [['int'], ['bytes'], ['bstr'], ['ilist']]]
    cs.append({'kind': 'typed', 't': A, 'x': ['o', 5, A[2], [['i', 1], ['b', blob(64)], ['s', blob(65)], ['il', [['i', 2]]]]], 'pp': True})
    return cs


def objkey_cases():
    """maps keyed by class instances (Map Credential Integer, Dict[Slot, ..]): every constructor-id class of key (compact
    tags 121-127 / 1280-1400, general form 102), keys without fields, nested keys, Union-typed fields inside a key, Union key
    types, ByteString over 64 bytes inside a key, such maps below lists / dicts / nested classes, as keys AND values"""
    cs = []

    def obj(t, vals):
        return ['o', t[1], t[2], vals]

    def add(fts, vals, cid=2):
        t = ['cls', cid, fts]
        cs.append({'kind': 'typed', 't': t, 'x': obj(t, vals)})
    h1, h2, h3 = '11' * 28, '22' * 28, '03' * 28
    for i in [0, 6, 7, 127, 128, 1000, 2**32]:
        K = ['cls', i, [['int'], ['bytes']]]
        add([['dict', K, ['int']]], [['d', [[obj(K, [['i', 1], ['b', '61']]), ['i', 1]], [obj(K, [['i', 2], ['b', '']]), ['i', 2]]]]])
        K0 = ['cls', i, []]
        add([['dict', K0, ['int']]], [['d', [[obj(K0, []), ['i', 1]]]]])
        add([['dict', K, ['int']]], [['d', []]])
    # the script-context shapes: Map StakingCredential Integer with a Union inside the key; a general-form key
    pk, sc = ['cls', 0, [['bytes']]], ['cls', 1, [['bytes']]]
    sh = ['cls', 0, [['union', [pk, sc]]]]
    add([['dict', sh, ['int']], ['bytes']],
        [['d', [[obj(sh, [obj(sc, [['b', h2]])]), ['i', 5000000]], [obj(sh, [obj(pk, [['b', h1]])]), ['i', 0]],
                [obj(sh, [obj(pk, [['b', h3]])]), ['i', 2**64]]]], ['b', '6d656d6f']])
    slot = ['cls', 1000, [['int'], ['int']]]
    add([['dict', slot, ['ilist']], ['dict', pk, ['int']]],
        [['d', [[obj(slot, [['i', 400], ['i', 7]]), ['il', [['i', 1], ['i', 2]]]],
                [obj(slot, [['i', 3], ['i', 2**32]]), ['il', [['b', '78']]]]]],
         ['d', [[obj(pk, [['b', h3]]), ['i', -1]], [obj(pk, [['b', h1]]), ['i', 3]]]]], cid=9)
    # nested key with a chunked ByteString; key objects as values too; Union key type
    kn = ['cls', 1, [pk, ['bstr']]]
    add([['dict', kn, pk]], [['d', [[obj(kn, [obj(pk, [['b', h1]]), ['s', '71' * 70]]), obj(pk, [['b', h2]])]]]])
    ku = ['union', [pk, slot]]
    add([['dict', ku, ['int']]], [['d', [[obj(pk, [['b', h1]]), ['i', 1]], [obj(slot, [['i', 2], ['i', 3]]), ['i', 2]]]]])
    # the keyed map below a list, below a dict value, below a nested class
    inner = ['cls', 5, [['dict', pk, ['ilist']]]]
    iv = obj(inner, [['d', [[obj(pk, [['b', h1]]), ['il', [['i', 1]]]]]]])
    add([['list', inner]], [['il', [iv, iv]]], cid=4)
    add([['dict', ['int'], inner]], [['d', [[['i', 7], iv]]]], cid=4)
    add([['dict', ['bytes'], ['dict', slot, ['int']]]],
        [['d', [[['b', '6b'], ['d', [[obj(slot, [['i', 1], ['i', 2]]), ['i', 3]]]]]]]], cid=4)
    add([['union', [inner, pk]], inner], [iv, iv], cid=130)
    return cs


def gen_cases(ctx, n):
    rng = ctx.rng
    cases = fixed_cases()
    while len(cases) < n:
        r = rng.random()
        if r < 0.5:
            cases.append({'kind': 'raw', 'd': G.rand_data(rng, rng.choice([1, 2, 3, 4, 4]))})
        elif r < 0.56:
            # plain bytes over 64 bytes in a field whose declared type lets them through validate()
            t, x, how = G.rand_guard_case(rng)
            c = {'kind': 'typed', 't': t, 'x': x}
            if how == 'nonconf':
                c['skip_ref'] = True               # a Dict[..] field: the value does not conform, the class cannot decode it
            if rng.random() < 0.4:
                c['pp'] = True
            cases.append(c)
        else:
            t = G.rand_cls(rng, rng.choice([1, 2, 2, 3]))
            c = {'kind': 'typed', 't': t, 'x': G.rand_val(rng, t)}
            if rng.random() < 0.06:
                how = G.inject_long(rng, c['x'])
                if how == 'nonconf':
                    c['skip_ref'] = True
            if rng.random() < 0.2:
                c['pp'] = True                     # the classes of this case are declared under postponed annotations
            elif rng.random() < 0.15 and not c.get('skip_ref'):
                # class hierarchy: the case's class subclasses a class of the same fields with ANOTHER constructor id, whose
                # instance is serialized first
                c['sub_of'] = rng.choice([i for i in G.IDS if i != t[1]])
            cases.append(c)
            if rng.random() < 0.5 and not c.get('skip_ref') and c.get('sub_of') is None:
                # sequence on one object: after all routes the object is edited IN PLACE into a second content and
                # serialized again; the second content is also a case of its own (fresh object, decided against the reference)
                c['x2'] = G.rand_val(rng, t)
                cases.append({'kind': 'typed', 't': t, 'x': c['x2'], **({'pp': True} if c.get('pp') else {})})
    return [finish_case(c) for c in cases]


# ================================================================ evaluation
def render(part):
    items = [f'({i}%nat, {G.c_case(c, r)})' for i, (c, r) in enumerate(part)]
    body = 'Definition cases : list (nat * ccase) :=\n' + C.clist(items).replace('); (', ');\n (') + '.\n'
    body += 'Eval vm_compute in (run_corr cases).\n'
    body += 'Eval vm_compute in (run_oracle cases).\n'
    body += 'Eval vm_compute in (run_stats cases).\n'
    return body


def evaluate(cases, results, shard=75):
    """returns (mismatches {(idx, route)}, oracle failures {(idx, route, region)}, errors, [observed routes, of which sound])"""
    mism, ofail, errs, stats = set(), set(), [], [0, 0]
    good = []
    for i, (c, r) in enumerate(zip(cases, results)):
        if 'driver_error' in r:
            mism.add((i, -1)); ofail.add((i, -1, 0))
        else:
            good.append((i, c, r))
            if r.get('mut') and 'same' in r['mut'] and not r['mut']['same']:
                ofail.add((i, 90, 0))                 # in-place edit then re-encode != a fresh object of the same content
    shards, maps = [], []
    for k in range(0, len(good), shard):
        part = good[k:k + shard]
        shards.append(render([(c, r) for _, c, r in part]))
        maps.append([i for i, _, _ in part])
    for (ok, lists, log), mp in zip(C.run_cases(PID, shards, G.HEADER), maps):
        if not ok or len(lists) != 3:
            errs.append(log[-1500:])
            continue
        a, b, st = lists
        stats[0] += st[0]; stats[1] += st[1]
        for j in range(0, len(a), 2):
            mism.add((mp[a[j]], a[j + 1]))
        for j in range(0, len(b), 3):
            ofail.add((mp[b[j]], b[j + 1], b[j + 2]))
    return mism, ofail, errs, stats


def nontrivial(c):
    if c['kind'] == 'raw':
        return G.depth_of(c['d']) >= 1
    if c['kind'] == 'typed':
        return len(c['t'][2]) >= 1
    return False


def route_name(c, route):
    return G.ROUTE_NAMES.get(c['kind'], {}).get(route, str(route))


def correspond(ctx, n=None):
    n = n or ctx.n(1200, 20000)
    cases = gen_cases(ctx, n)
    results = C.run_impl('plutus_driver', {'cases': cases})
    mism, ofail, errs, stats = evaluate(cases, results)
    if errs:
        raise RuntimeError('cases file failed to compile: ' + errs[0])
    kinds, regions, depth_hist = {}, {}, {}
    objkey = {'typed_cases_with_class_instance_keys': 0, 'of_which_some_key_has_fields': 0}
    for c in cases:
        kinds[c['kind']] = kinds.get(c['kind'], 0) + 1
        if c['kind'] == 'typed' and G.has_objkey(c['x'], False):
            objkey['typed_cases_with_class_instance_keys'] += 1
            objkey['of_which_some_key_has_fields'] += int(G.has_objkey(c['x'], True))
        if c['kind'] == 'raw':
            dd = G.depth_of(c['d']); depth_hist[dd] = depth_hist.get(dd, 0) + 1
    region_hits, unrepresentable, new_fail, per_region = 0, 0, [], {}
    restricted = {}
    for (i, route, reg) in sorted(ofail):
        name = REGIONS.get(reg)
        if name in UNREPRESENTABLE_REGIONS and (cases[i]['kind'], route_name(cases[i], route)) in UNREPRESENTABLE:
            unrepresentable += 1                           # outside the quantifier (see ASSUMPTIONS)
            continue
        if name in RESTRICTED_REGIONS:
            restricted[name] = restricted.get(name, 0) + 1  # explicit domain restriction (see ASSUMPTIONS)
            continue
        regions[name or 'NONE'] = regions.get(name or 'NONE', 0) + 1
        if name is None:
            new_fail.append((i, route, name))
        else:
            region_hits += 1
            size = len(json.dumps(cases[i].get('d') or cases[i].get('x') or cases[i]))
            if name not in per_region or size < per_region[name][0]:
                per_region[name] = (size, i, route)        # shortest input per region
    reps = [(i, route, name) for name, (_, i, route) in sorted(per_region.items())]
    distinct = len({C.canon_hash({k: v for k, v in c.items() if k not in ('ref', 'json')}) for c in cases if nontrivial(c)})
    guard_hist = {'typed_cases_with_long_plain_bytes_in_a_field': 0, 'refused_by_constructor': 0, 'constructed': 0,
                  'postponed_annotation_cases': 0, 'union_with_primitive_alternative_cases': 0}
    for c, r in zip(cases, results):
        if c['kind'] != 'typed':
            continue
        guard_hist['postponed_annotation_cases'] += int(bool(c.get('pp')))
        guard_hist['union_with_primitive_alternative_cases'] += int(G.has_prim_union(c['t']))
        if G.has_long_field(c['x']):
            guard_hist['typed_cases_with_long_plain_bytes_in_a_field'] += 1
            guard_hist['constructed' if r.get('construct') == 'ok' else 'refused_by_constructor'] += 1

    def pack(i, route, region=None):
        c = {k: v for k, v in cases[i].items() if k != 'json'}
        return {'input': c, 'impl': results[i], 'route': route_name(cases[i], route), 'region': region}
    return dict(
        evaluations=len(cases), distinct_nontrivial=distinct,
        rule='fixed boundary cases (every constructor-id/tag boundary incl. 6,7,127,128,2^32; every CBOR integer width boundary, +-2^64, +-2^70, '
             '+-2^512; byte strings of 0,1,63,64,65,128,129,.. bytes; empty lists/maps/fields; exotic map keys; the Haskell fixture) plus random '
             'recursive data to depth 4 and random typed class descriptions to depth 3 (int/bytes/ByteString/List/Dict/nested class/Union/'
             'IndefiniteList/Datum fields; Unions with int/bytes/ByteString alternatives at any position; Dict keys int/bytes/ByteString or '
             'instances of hashable classes (any constructor id, with or '
             'without fields, nested, Union inside and as the key type); generated as Python dataclass source in the driver, for a fifth of '
             'the cases under `from __future__ import annotations` in a fresh module) with '
             'conforming values, plus values with plain bytes of 65..300 bytes in a field of any declaration form that lets them through '
             'validate() (bytes, Datum, Union[.., bytes, ..], Dict[..]) of the top-level or a nested instance; per case every route '
             '(build = constructor verdict, decode+encode of own and of the reference bytes -- the latter also when the constructor refused --, '
             'to_dict, from_dict, from_json, datum_hash, the object as redeemer data) is compared with the model and with enc(plutus_ref d); '
             'non-trivial = raw data of depth >= 1 or a class with >= 1 field; distinct by hash of the input',
        samples=[{k: v for k, v in cases[j].items() if k != 'json'} for j in (0, len(cases) // 2, len(cases) - 1)],
        kind_histogram=kinds, raw_depth_histogram=depth_hist, region_histogram=regions, map_key_histogram=objkey,
        guard_histogram=guard_hist, domain_restricted_hits=restricted, domain_restricted_regions=sorted(RESTRICTED_REGIONS),
        known_region_hits=region_hits, known_regions=sorted(listed_regions()), finding_regions=FINDING_REGIONS,
        unrepresentable_build_inputs=unrepresentable,
        routes_observed=stats[0], routes_in_sound_region=stats[1],
        compared='implementation bytes/JSON/exception kind of every route = model (exact) and = enc(plutus_ref d) / json_of d (oracle)',
        mismatches=[pack(i, r) for i, r in sorted(mism)[:20]],
        oracle_fail=[pack(i, r, name) for i, r, name in new_fail[:50]] + [pack(i, r, name) for i, r, name in reps],
    )


def search(ctx, mism):
    n = 4000 if ctx.quick else 40000
    ctx.rng.seed(f'search-{ctx.seed}')
    r = correspond(ctx, n)
    known = listed_regions()
    new = [f for f in r['oracle_fail'] if f.get('region') not in known and f.get('region') not in RESTRICTED_REGIONS]
    return new[0] if new else None


def replay(ctx, rep):
    src = rep.get('case') or rep.get('witness') or rep          # a replay file, a known_findings entry, or a bare case
    case = finish_case({k: v for k, v in src['input'].items() if k not in ('ref', 'json')})
    res = C.run_impl('plutus_driver', {'cases': [case]}, nshards=1)
    mism, ofail, errs, _ = evaluate([case], res)
    print('input:', json.dumps({k: v for k, v in case.items() if k != 'json'}))
    print('implementation:', json.dumps(res[0]))
    print('reference bytes:', case.get('ref'))
    print('model differs on routes:', sorted(route_name(case, r) for _, r in mism))
    print('property fails on routes:', sorted((route_name(case, r), REGIONS.get(g)) for _, r, g in ofail))
    known = listed_regions()
    bad = [x for x in ofail if REGIONS.get(x[2]) not in known and REGIONS.get(x[2]) not in RESTRICTED_REGIONS
           and not (REGIONS.get(x[2]) in UNREPRESENTABLE_REGIONS and (case['kind'], route_name(case, x[1])) in UNREPRESENTABLE)]
    print('regions listed in known_findings.json:', sorted(known))
    return 1 if bad or errs else 0
