"""C03 — transaction identity survives decode and re-encode (backend x hash-seed matrix)."""
import json
from lib import common as C
from props import codecgen as G, c01

PID = 'C03'
TARGETS = ['props/C03.vo', 'theories/CodecOracle.vo', 'gen/SchemaGen.vo']
LEVEL = 'proof'
MANIFEST = dict(
    text='Theorems (Coq): decode3(enc p) = p for every well-formed item; for every class table and every well-typed object, '
         'the bytes decode to the object and every object decoded from them re-encodes to exactly those bytes (C03_reencode_py); '
         'the body is a slice of the transaction bytes and the id computed from the decoded body is H(body bytes as received) '
         '(C03_tx_id, H abstract). Per-run obligations tie the premises to today\'s regenerated tables. Pure-Python backend: proof + '
         'correspondence (model decode/re-encode of whole transactions). C extension / hash seeds: partial — CPython set iteration '
         'order cannot be exhibited by the model; decided by the direct oracle over the configuration matrix, known finding C03-cext.',
    note='Trusted: Coq kernel+vm_compute; T1 translator; hand model Codec.v; the 30-line CBOR skipper that slices the body; '
         'hashlib.blake2b; custom classes (outputs, credentials, ...) are opaque leaves. No axioms.',
    technique='Coq proof (codec + CBOR round trip) over regenerated tables + correspondence + configuration-matrix oracle', ref='C03')
TRUSTED = c01.TRUSTED + ['own CBOR length-walker in tools/impl/codec_driver.py (body slice), cross-checked in Coq by decode3',
                         'hashlib.blake2b for the expected id']
ASSUMPTIONS = ['configurations: cbor2 backend in {pure-Python, C extension} x PYTHONHASHSEED in {0,1,2} (thorough: 0..7)']
GEN_OBLIGATIONS = ['SchemaGen.schema regenerated and compiled']
HEADER = c01.HEADER
KNOWN_C = 'c-extension-backend'


def regen(ctx):
    return c01.regen(ctx)


def render(part):
    items = []
    for i, r in part:
        tx = bytes.fromhex(r['tx'])
        body = tx[r['body_start']:r['body_end']]
        items.append(f'({i}%nat, ({G.chx(tx)}, {G.chx(body)}))')
    body = 'Definition cases : list (nat * (bytes * bytes)) :=\n' + G.clist(items) + '.\n'
    body += 'Eval vm_compute in (map fst (filter (fun c => negb (c03_slice_ok (fst (snd c)) (snd (snd c)) && c03_model_ok schema (fst (snd c)) (snd (snd c)))) cases)).\n'
    return body


def impl_ok(r):
    body = r['tx'][2 * r['body_start']:2 * r['body_end']]
    return r.get('decode') == 'ok' and r.get('body_reenc') == body and r.get('id') == r['expected_id']


def correspond(ctx, n=None):
    regen(ctx)
    n = n or ctx.n(500, 12000)
    cases = [{'mode': 'c03', 'seed': ctx.rng.getrandbits(32)} for _ in range(n)]
    seeds = ['0', '1', '2'] if ctx.quick else [str(i) for i in range(8)]
    matrix, ofail, mism = {}, [], set()
    base = None
    for be in ('py', 'c'):
        for hs in seeds:
            sub = cases if (be == 'py' and hs == '0') or not ctx.quick else cases[:200]
            res = C.run_impl('codec_driver', {'cases': sub, 'opaque': []}, backend=be, hashseed=hs)
            if be == 'py' and hs == '0':
                base = res
            good = bad = 0
            for c, r in zip(sub, res):
                if 'skip' in r:
                    continue
                if 'driver_error' in r:
                    ofail.append({'input': c, 'impl': r, 'config': [be, hs], 'region': 'driver'}); bad += 1; continue
                if 'cost_models' in r.get('flags', []):
                    continue                      # undecodable by the known C01 finding; not a C03 wire form
                if impl_ok(r):
                    good += 1
                else:
                    bad += 1
                    reg = KNOWN_C if be == 'c' and any(f in r['features'] for f in ('tagged-set', 'indefinite-list', 'indefinite-map')) else 'reencode'
                    rr = {k: v for k, v in r.items() if k not in ('tx', 'body_reenc')}
                    ofail.append({'input': c, 'impl': rr, 'config': [be, hs], 'tx': r['tx'], 'region': reg})
            matrix[f'{be}/seed{hs}'] = {'ok': good, 'failed': bad}
    # model correspondence on the pure-Python base configuration
    good = [(i, r) for i, r in enumerate(base) if 'tx' in r and 'cost_models' not in r.get('flags', []) and impl_ok(r)]
    shards = [render(good[k:k + 60]) for k in range(0, len(good), 60)]
    for ok, lists, log in C.run_cases(PID, shards, HEADER):
        if not ok or len(lists) != 1:
            raise RuntimeError('cases file failed to compile: ' + log[-1200:])
        mism.update(lists[0])
    feats = {}
    for r in base:
        for f in r.get('features', []):
            feats[f] = feats.get(f, 0) + 1
    return dict(
        evaluations=sum(v['ok'] + v['failed'] for v in matrix.values()),
        distinct_nontrivial=len({r['tx'] for r in base if 'tx' in r and len(r['tx']) > 60}),
        rule='seeded random Transactions built through the public constructors (tagged and untagged sets, legacy and map-form '
             'outputs, datum hash / inline datum / reference scripts, certificates, governance, optional fields in random subsets, '
             '0..3 elements per collection), serialized, then decoded and re-encoded under each configuration; non-trivial = tx longer '
             'than 30 bytes; distinct by bytes',
        samples=[{'seed': cases[0]['seed'], 'tx': base[0].get('tx', '')[:200]}],
        configuration_matrix=matrix, wire_features=feats,
        traces_validated_against_impl=len(good),
        compared='implementation: Transaction.from_cbor(b).transaction_body.to_cbor() == body slice of b (own CBOR walker) and .id == '
                 'blake2b-256(slice); model (py/seed0): from_cbor + to_cbor of the body inside Coq == slice; slice cross-checked by decode3',
        partial='C extension / hash seed: set iteration order is runtime behaviour the model cannot exhibit (direct oracle only)',
        mismatches=[{'input': cases[i], 'impl': {'tx': base[i]['tx']}, 'region': 'model'} for i in sorted(mism)[:10]],
        oracle_fail=sorted(ofail, key=lambda f: (f['region'] == KNOWN_C, len(f.get('tx', ''))))[:60],
    )


def search(ctx, mism):
    ctx.rng.seed(f'search-{ctx.seed}')
    r = correspond(ctx, 3000 if ctx.quick else 30000)
    bad = [f for f in r['oracle_fail'] if f['region'] != KNOWN_C]
    return bad[0] if bad else None


def replay(ctx, rep):
    case = rep['case']['input']; be, hs = rep['case'].get('config', ['py', '0'])
    res = C.run_impl('codec_driver', {'cases': [case], 'opaque': []}, nshards=1, backend=be, hashseed=hs)
    r = res[0]
    print('input:', json.dumps(case), 'config:', be, hs)
    print('implementation:', json.dumps({k: v for k, v in r.items() if k != 'tx'})[:1500])
    ok = 'tx' in r and impl_ok(r)
    print('property holds on this input:', ok)
    return 0 if ok else 1
