"""C03 — transaction identity survives decode and re-encode (backend x hash-seed matrix)."""
import json, os, re
from concurrent.futures import ThreadPoolExecutor
from lib import common as C
from props import codecgen as G, c01, ledgergen as L

PID = 'C03'
TARGETS = ['props/C03.vo', 'theories/CodecOracle.vo', 'gen/SchemaGen.vo', 'theories/Ledger.vo']
LEVEL = 'proof'
MANIFEST = dict(
    text='Theorems (Coq): decode3(enc p) = p for every well-formed item; for every class table and every well-typed object, '
         'the bytes decode to the object and every object decoded from them re-encodes to exactly those bytes (C03_reencode_py); '
         'the body is a slice of the transaction bytes and the id computed from the decoded body is H(body bytes as received) '
         '(C03_tx_id, H abstract). Per-run obligations tie the premises to today\'s regenerated tables. Pure-Python backend: proof + '
         'correspondence (model decode/re-encode of whole transactions). C extension / hash seeds: partial — CPython set iteration '
         'order cannot be exhibited by the model; decided by the direct oracle over the configuration matrix, known finding C03-cext.',
    note='Trusted: Coq kernel+vm_compute; T1 translator; hand model Codec.v; the 30-line CBOR skipper that slices the body; '
         'hashlib.blake2b; custom classes (outputs, credentials, ...) are opaque leaves. No axioms.',
    technique='Coq proof (codec + CBOR round trip) over regenerated tables + correspondence + configuration-matrix oracle', ref='C03')
TRUSTED = c01.TRUSTED + ['own CBOR length-walker in tools/impl/codec_driver.py (body slice), cross-checked in Coq by decode3',
                         'hashlib.blake2b for the expected id']
ASSUMPTIONS = ['configurations: cbor2 backend in {pure-Python, C extension} x PYTHONHASHSEED in {0,1,2} (thorough: 0..7)']
GEN_OBLIGATIONS = ['SchemaGen.schema regenerated and compiled']
HEADER = c01.HEADER
KNOWN_C = 'c-extension-backend'


def regen(ctx):
    return c01.regen(ctx)


def render(part):
    items = []
    for i, r in part:
        tx = bytes.fromhex(r['tx'])
        body = tx[r['body_start']:r['body_end']]
        items.append(f'({i}%nat, ({G.chx(tx)}, {G.chx(body)}))')
    body = 'Definition cases : list (nat * (bytes * bytes)) :=\n' + G.clist(items) + '.\n'
    body += 'Eval vm_compute in (map fst (filter (fun c => negb (c03_slice_ok (fst (snd c)) (snd (snd c)) && c03_model_ok schema (fst (snd c)) (snd (snd c)))) cases)).\n'
    return body


# ---------------------------------------------------------------- wire bytes from the independent reference encoder
REF_HEADER = '''From Coq Require Import NArith ZArith String List Bool.
From PyC Require Import Base Cbor Value Ledger.
From PyC Require Plutus.
Import ListNotations.
Open Scope string_scope.
'''


def _long_bytes(d):
    """Plutus data holding a byte string above 64 bytes: its canonical wire form is CHUNKED, which the property does not
    list among the supported wire forms (cbor2 flattens chunks on decode: C18)"""
    k = d[0]
    if k == 'bytes':
        return len(d[1]) > 128
    if k == 'int':
        return abs(d[1]) >= 2 ** 512
    if k == 'constr':
        return any(_long_bytes(x) for x in d[2])
    if k == 'list':
        return any(_long_bytes(x) for x in d[1])
    if k == 'map':
        return any(_long_bytes(a) or _long_bytes(b) for a, b in d[1])
    return False


def in_wire_domain(tx):
    outs = list(tx['body']['outputs']) + ([tx['body']['collateral_return']] if tx['body']['collateral_return'] else [])
    return not any(o['datum'] and o['datum'][0] == 'inline' and _long_bytes(o['datum'][1]) for o in outs)


def ref_wire(ctx, n, per=20):
    """n transaction contents (tools/props/ledgergen.py) and their bytes as emitted by Ledger.ref_tx inside Coq"""
    txs = []
    while len(txs) < n:
        c = L.gen_case(ctx.rng)
        if c['kind'] == 'tx' and in_wire_domain(c['content']):
            txs.append(c)
    d = os.path.join(C.WORK, PID)
    os.makedirs(d, exist_ok=True)
    paths = []
    for k in range(0, len(txs), per):
        part = txs[k:k + per]
        body = 'Eval vm_compute in (map (fun t => tohex (ref_tx_bytes t)) ' + G.clist([L.render_case(c) for c in part]) + ').\n'
        p = os.path.join(d, f'refwire_{k // per}.v')
        open(p, 'w').write(REF_HEADER + body)
        paths.append((p, len(part)))
    def run(pn):
        ok, out, err, _ = C.coqc_file(pn[0])
        hexes = re.findall(r'"([0-9a-f]*)"', out)
        if not ok or len(hexes) != pn[1]:
            raise RuntimeError('reference wire file failed: ' + (err or out)[-800:])
        return hexes
    with ThreadPoolExecutor(8) as ex:
        res = list(ex.map(run, paths))
    wires = [h for r in res for h in r]
    return txs, wires


def impl_ok(r):
    body = r['tx'][2 * r['body_start']:2 * r['body_end']]
    return r.get('decode') == 'ok' and r.get('body_reenc') == body and r.get('id') == r['expected_id']


def correspond(ctx, n=None):
    regen(ctx)
    n = n or ctx.n(500, 12000)
    cases = [{'mode': 'c03', 'seed': ctx.rng.getrandbits(32)} for _ in range(n)]
    seeds = ['0', '1', '2'] if ctx.quick else [str(i) for i in range(8)]
    matrix, ofail, mism = {}, [], set()
    base = None
    for be in ('py', 'c'):
        for hs in seeds:
            sub = cases if (be == 'py' and hs == '0') or not ctx.quick else cases[:200]
            res = C.run_impl('codec_driver', {'cases': sub, 'opaque': []}, backend=be, hashseed=hs)
            if be == 'py' and hs == '0':
                base = res
            good = bad = 0
            for c, r in zip(sub, res):
                if 'skip' in r:
                    continue
                if 'driver_error' in r:
                    ofail.append({'input': c, 'impl': r, 'config': [be, hs], 'region': 'driver'}); bad += 1; continue
                if 'cost_models' in r.get('flags', []):
                    continue                      # undecodable by the known C01 finding; not a C03 wire form
                if impl_ok(r):
                    good += 1
                else:
                    bad += 1
                    reg = KNOWN_C if be == 'c' and any(f in r['features'] for f in ('tagged-set', 'indefinite-list', 'indefinite-map')) else 'reencode'
                    rr = {k: v for k, v in r.items() if k not in ('tx', 'body_reenc')}
                    ofail.append({'input': c, 'impl': rr, 'config': [be, hs], 'tx': r['tx'], 'region': reg})
            matrix[f'{be}/seed{hs}'] = {'ok': good, 'failed': bad}
    # ---- second stream: wire bytes from the INDEPENDENT reference encoder (Ledger.ref_tx evaluated in Coq): blind spots of
    #      bytes produced by pycardano itself (a symmetric change of the encoder) do not apply here
    nref = ctx.n(100, 4000)
    rtx, wires = ref_wire(ctx, nref)
    rcases = [{'mode': 'c03raw', 'tx': w} for w in wires]
    ref_matrix = {}
    rbase = None
    for be, hs in ([('py', '0'), ('py', '1'), ('c', '0')] if ctx.quick else [(b, h) for b in ('py', 'c') for h in seeds]):
        sub = rcases if (be, hs) == ('py', '0') or not ctx.quick else rcases[:40]
        res = C.run_impl('codec_driver', {'cases': sub, 'opaque': []}, backend=be, hashseed=hs)
        if (be, hs) == ('py', '0'):
            rbase = res
        good_n = bad_n = 0
        for k, r in enumerate(res):
            if 'driver_error' in r:
                ofail.append({'input': {'content': rtx[k]}, 'impl': r, 'config': [be, hs], 'region': 'driver'}); bad_n += 1; continue
            if impl_ok(r):
                good_n += 1
            else:
                bad_n += 1
                # under the C extension a tagged set / indefinite list ANYWHERE in the transaction can make the whole decode fail
                fs = r['features'] if r.get('decode') == 'ok' else r.get('tx_features', r['features'])
                reg = KNOWN_C if be == 'c' and any(f in fs for f in ('tagged-set', 'indefinite-list', 'indefinite-map')) else 'reencode-reference-wire'
                rr = {k2: v for k2, v in r.items() if k2 not in ('tx', 'body_reenc')}
                ofail.append({'input': {'mode': 'c03raw', 'tx': r['tx']}, 'content': rtx[k]['content'], 'impl': rr, 'config': [be, hs],
                              'tx': r['tx'], 'region': reg})
        ref_matrix[f'{be}/seed{hs}'] = {'ok': good_n, 'failed': bad_n}
    # model correspondence on the pure-Python base configuration
    good = [(i, r) for i, r in enumerate(base) if 'tx' in r and 'cost_models' not in r.get('flags', []) and impl_ok(r)]
    good += [(len(base) + i, r) for i, r in enumerate(rbase) if impl_ok(r)]
    shards = [render(good[k:k + 60]) for k in range(0, len(good), 60)]
    for ok, lists, log in C.run_cases(PID, shards, HEADER):
        if not ok or len(lists) != 1:
            raise RuntimeError('cases file failed to compile: ' + log[-1200:])
        mism.update(lists[0])
    feats = {}
    for r in base:
        for f in r.get('features', []):
            feats[f] = feats.get(f, 0) + 1
    return dict(
        evaluations=sum(v['ok'] + v['failed'] for v in matrix.values()) + sum(v['ok'] + v['failed'] for v in ref_matrix.values()),
        distinct_nontrivial=len({r['tx'] for r in base if 'tx' in r and len(r['tx']) > 60}),
        rule='seeded random Transactions built through the public constructors (tagged and untagged sets, legacy and map-form '
             'outputs, datum hash / inline datum / reference scripts, certificates, governance, optional fields in random subsets, '
             '0..3 elements per collection), serialized, then decoded and re-encoded under each configuration; non-trivial = tx longer '
             'than 30 bytes; distinct by bytes',
        samples=[{'seed': cases[0]['seed'], 'tx': base[0].get('tx', '')[:200]}],
        configuration_matrix=matrix, wire_features=feats,
        reference_wire_matrix=ref_matrix, reference_wire_cases=len(wires),
        reference_wire='transactions whose bytes come from the independent reference encoder Ledger.ref_tx (evaluated in Coq, '
                       'printed as hex): tagged / bare sets, legacy / map outputs x datum x script, every body key, indefinite '
                       'lists inside inline datums; inline datums with byte strings above 64 bytes (chunked form) are outside the '
                       'supported wire forms',
        traces_validated_against_impl=len(good),
        compared='implementation: Transaction.from_cbor(b).transaction_body.to_cbor() == body slice of b (own CBOR walker) and .id == '
                 'blake2b-256(slice); model (py/seed0): from_cbor + to_cbor of the body inside Coq == slice; slice cross-checked by decode3',
        partial='C extension / hash seed: set iteration order is runtime behaviour the model cannot exhibit (direct oracle only)',
        mismatches=[{'input': cases[i] if i < len(base) else {'mode': 'c03raw', 'tx': rbase[i - len(base)]['tx']},
                     'impl': {'tx': (base[i] if i < len(base) else rbase[i - len(base)])['tx']}, 'region': 'model'} for i in sorted(mism)[:10]],
        oracle_fail=sorted(ofail, key=lambda f: (f['region'] == KNOWN_C, len(f.get('tx', ''))))[:60],
    )


def search(ctx, mism):
    ctx.rng.seed(f'search-{ctx.seed}')
    r = correspond(ctx, 3000 if ctx.quick else 30000)
    bad = [f for f in r['oracle_fail'] if f['region'] != KNOWN_C]
    return bad[0] if bad else None


def replay(ctx, rep):
    case = rep['case']['input']; be, hs = rep['case'].get('config', ['py', '0'])
    res = C.run_impl('codec_driver', {'cases': [case], 'opaque': []}, nshards=1, backend=be, hashseed=hs)
    r = res[0]
    print('input:', json.dumps(case), 'config:', be, hs)
    print('implementation:', json.dumps({k: v for k, v in r.items() if k != 'tx'})[:1500])
    ok = 'tx' in r and impl_ok(r)
    print('property holds on this input:', ok)
    return 0 if ok else 1
