"""C15 — addresses encode and decode bijectively per CIP-19 and CIP-5; corrupted strings are rejected."""
import ast, copy, hashlib, json, os
from lib import common as C

PID = 'C15'
TARGETS = ['props/C15.vo', 'theories/AddressOracle.vo']
LEVEL = 'proof'

MANIFEST = dict(
    text='Theorems (Coq, unbounded): base-128 pointer numbers round-trip and are minimal for every natural number; the binary '
         'form is the CIP-19 header byte (kind nibble*16 + network) followed by the credential bytes, and from_primitive(bytes(a)) '
         '= a with the same credential classes for every well-formed address; the text form is Bech32 (constant 1) of those bytes '
         'under addr/stake(+_test) and decodes back to a whenever it has at most 108 characters (always when the pointer numbers '
         'are below 2^63; refuted beyond: encode() returns None); convertbits 8->5->8 round trip; bech32_polymod = remainder '
         'modulo g(x) over GF(32) (BIP-173 written as polynomial arithmetic), created checksums verify; single-substitution '
         'guarantee for ALL valid strings (length <= 108) at ALL positions: the substituted string is rejected (or is a case-only '
         'change decoding to the same value) unless the substitution moves the separator; via XOR-linearity of polymod and two '
         'finite tables (120x31 single errors, 102x4x32x108 prefix double errors) that also exclude the Bech32<->Bech32m '
         'difference (the decoder accepts both constants). Constants re-extracted from the source by an AST translator on '
         'every run and proved equal to the ones in the proofs; model tied to the code by correspondence.',
    note='Trusted: Coq kernel+vm_compute; hand model Bech32.v/Address.v (AST shape fingerprints + constants regenerated per run + '
         'correspondence); generator; driver. No axioms. Excluded from the substitution theorems: writing the character "1" into '
         'the data part and overwriting the separator of a prefix that itself contains "1" (both move the separator; chance '
         '2^-30 per string), covered by the exhaustive sampled run only; truncations/insertions are tested, not proved.',
    technique='Coq proof (XOR-linearity + finite tables by vm_compute, bit-string invariant for convertbits, GF(32) Horner remainder) '
              '+ AST constant translator + model/implementation correspondence (theorem-accelerated, proved equal to plain)', ref='C15')
TRUSTED = [
    'Coq 8.16.1 kernel incl. vm_compute (no native_compute); no axioms (see Print Assumptions lines)',
    'hand model coq/theories/Bech32.v + Address.v of crypto/bech32.py, address.py, network.py; tied per run by (a) AST shape '
    'fingerprints of every modelled function (translator fails closed), (b) constants regenerated into coq/gen/AddressGen.v and '
    'proved equal to the model constants (C15_gen_constants), (c) exact correspondence on generated cases',
    'the oracle (AddressOracle.v) is an independent reference: CIP-19 nibble formulas, base-128 digits by division, '
    'GF(32) polynomial remainder, bit-string regrouping; it is applied to the implementation outputs',
    'tools/impl/address_driver.py, tools/props/c15.py (generator, Coq literal printer)',
]
ASSUMPTIONS = [
    'pointer components are natural numbers; hashes are built through VerificationKeyHash/ScriptHash (28 bytes enforced by assert)',
    'text round trip is claimed only when the text has at most 108 characters (bech32_decode limit); beyond it Address.encode() '
    'returns None (faithfully modelled, witness lemma C15_text_over_limit_refuted; region text-over-108)',
    'exception kinds are compared coarsely (accept / reject); exact kinds are reported as a histogram only',
    'str.lower()/upper() are modelled on code points 33..126 only (other code points are rejected before the case test)',
]

# ------------------------------------------------------------------------------------------------ translator
SOURCES = {
    'pycardano/crypto/bech32.py': ['Encoding', 'bech32_polymod', 'bech32_hrp_expand', 'bech32_verify_checksum',
                                   'bech32_create_checksum', 'bech32_encode', 'bech32_decode', 'convertbits', 'decode', 'encode'],
    'pycardano/address.py': ['AddressType', 'PointerAddress.__init__', 'PointerAddress.encode', 'PointerAddress.decode',
                             'PointerAddress.__eq__', 'Address.__init__', 'Address._infer_address_type',
                             'Address._compute_header_byte', 'Address._compute_hrp', 'Address.__bytes__', 'Address.encode',
                             'Address.decode', 'Address.to_primitive', 'Address.from_primitive', 'Address.__eq__'],
    'pycardano/network.py': ['Network'],
    'pycardano/hash.py': ['ConstrainedBytes.__init__', 'ConstrainedBytes.__eq__', 'VerificationKeyHash', 'ScriptHash'],
}
# shape fingerprints (AST with numeric/string literals abstracted, docstrings and annotations removed) of the
# functions the hand model was written from.  A different shape = the translator does not understand the source.
EXPECTED_SHAPE = {
    'Encoding': 'ba95681c462a1554', 'bech32_polymod': '2360b5d33fb301fd', 'bech32_hrp_expand': 'eb20c652606a58f5',
    'bech32_verify_checksum': '9074bf0bb8d3e83b', 'bech32_create_checksum': 'dc9665e74a806f63',
    'bech32_encode': '470d2aa7c6d3c279', 'bech32_decode': 'c75e76835115746f', 'convertbits': '86246466334036ba',
    'decode': '7bcab479233e0f75', 'encode': '286d0efe0808f125',
    'AddressType': None, 'PointerAddress.__init__': '7e0bec5187e09f1b', 'PointerAddress.encode': 'c0151396f00b08b8',
    'PointerAddress.decode': '3099456315624d29', 'PointerAddress.__eq__': '0beb503a25dd6215',
    'Address.__init__': '7046d71552af277a', 'Address._infer_address_type': 'f6ccfd820f687a94',
    'Address._compute_header_byte': '7b78f3536ce87f26', 'Address._compute_hrp': '398305a2d7fb1762',
    'Address.__bytes__': '7216b697ae570906', 'Address.encode': '0b6de5917a83acdf', 'Address.decode': '4e8b888b8ff0c3ab',
    'Address.to_primitive': 'e43efe659a5784db', 'Address.from_primitive': '22c6cc70f07b98cf',
    'Address.__eq__': '13b9f7bc805bf59d', 'Network': None,
    'ConstrainedBytes.__init__': '2070f14c1ab298c3', 'ConstrainedBytes.__eq__': 'e84ce45a28776d76',
    'VerificationKeyHash': '344a5930e611faf7', 'ScriptHash': 'ff374850ff2aff9c',
}


class _Abstract(ast.NodeTransformer):
    """Replace int/str literals by placeholders (collecting them in source order); drop docstrings/annotations."""

    def __init__(self):
        self.ints, self.strs = [], []

    def _body(self, node):
        node.body = [s for s in node.body
                     if not (isinstance(s, ast.Expr) and isinstance(s.value, ast.Constant) and isinstance(s.value.value, str))] \
                    or [ast.Pass()]

    def visit_FunctionDef(self, node):
        self._body(node)
        node.returns = None
        for a in node.args.args + node.args.kwonlyargs + node.args.posonlyargs:
            a.annotation = None
        self.generic_visit(node)
        return node

    def visit_ClassDef(self, node):
        self._body(node)
        self.generic_visit(node)
        return node

    def visit_JoinedStr(self, node):          # f-strings only occur in error messages
        return ast.Constant(value='<fstr>')

    def visit_Constant(self, node):
        v = node.value
        if type(v) is int:
            self.ints.append(v)
            return ast.Constant(value=0)
        if type(v) is str:
            self.strs.append(v)
            return ast.Constant(value='')
        return node


def _shape(node):
    t = _Abstract()
    n = t.visit(copy.deepcopy(node))
    return hashlib.sha256(ast.dump(n, annotate_fields=False).encode()).hexdigest()[:16], t.ints, t.strs


def _find(tree, path):
    cur = tree
    for name in path.split('.'):
        hits = [n for n in cur.body if isinstance(n, (ast.FunctionDef, ast.ClassDef)) and n.name == name]
        if len(hits) != 1:
            raise ValueError(f'expected exactly one definition of {path}, found {len(hits)}')
        cur = hits[0]
    return cur


def _enum_members(cls, what):
    out = []
    for s in cls.body:
        if isinstance(s, ast.Expr) and isinstance(s.value, ast.Constant) and isinstance(s.value.value, str):
            continue
        if isinstance(s, ast.Assign) and len(s.targets) == 1 and isinstance(s.targets[0], ast.Name) \
                and isinstance(s.value, ast.Constant) and type(s.value.value) is int and s.value.value >= 0:
            out.append((s.targets[0].id, s.value.value))
        elif isinstance(s, ast.FunctionDef):
            continue                            # methods of Network (to_primitive/from_primitive)
        else:
            raise ValueError(f'{what}: enum body statement not understood: {ast.dump(s)[:80]}')
    return out


def _module_const(tree, name, typ):
    hits = [s for s in tree.body if isinstance(s, ast.Assign) and any(isinstance(t, ast.Name) and t.id == name for t in s.targets)]
    if len(hits) != 1 or len(hits[0].targets) != 1 or not isinstance(hits[0].value, ast.Constant) or type(hits[0].value.value) is not typ:
        raise ValueError(f'module constant {name} not understood')
    return hits[0].value.value


def _coq_string(s):
    if not all(32 <= ord(c) < 127 for c in s):
        raise ValueError(f'non-printable string literal {s!r}')
    return '"' + s.replace('"', '""') + '"'


def extract(repo):
    """Read the CURRENT sources; returns (coq_text, info). Raises (fails closed) on any shape it does not know."""
    trees = {fn: ast.parse(open(os.path.join(repo, fn)).read()) for fn in SOURCES}
    lits, problems = {}, []
    for fn, paths in SOURCES.items():
        for p in paths:
            h, ints, strs = _shape(_find(trees[fn], p))
            lits[p] = (ints, strs)
            exp = EXPECTED_SHAPE[p]
            if exp is not None and h != exp:
                problems.append(f'{fn}:{p} has shape {h}, the model was written for {exp}')
    b32, adr, net, hsh = (trees[k] for k in SOURCES)
    # the names address.py uses must be the imported ones
    imports = {(s.module, a.name) for s in adr.body if isinstance(s, ast.ImportFrom) for a in s.names if a.asname is None}
    for need in [('pycardano.crypto.bech32', 'decode'), ('pycardano.crypto.bech32', 'encode'),
                 ('pycardano.hash', 'VERIFICATION_KEY_HASH_SIZE'), ('pycardano.hash', 'ScriptHash'),
                 ('pycardano.hash', 'VerificationKeyHash'), ('pycardano.network', 'Network')]:
        if need not in imports:
            problems.append(f'address.py no longer imports {need[1]} from {need[0]}')
    rebound = [s for s in adr.body if isinstance(s, (ast.FunctionDef, ast.Assign, ast.ClassDef)) and
               (getattr(s, 'name', None) in ('decode', 'encode', 'Network', 'VerificationKeyHash', 'ScriptHash') or
                any(isinstance(t, ast.Name) and t.id in ('decode', 'encode', 'VERIFICATION_KEY_HASH_SIZE')
                    for t in getattr(s, 'targets', [])))]
    if rebound:
        problems.append('address.py rebinds an imported name used by the model')
    if problems:
        raise ValueError('source shape not understood: ' + '; '.join(problems))
    types = _enum_members(_find(adr, 'AddressType'), 'AddressType')
    nets = _enum_members(_find(net, 'Network'), 'Network')
    out = ['(* GENERATED by tools/props/c15.py from the current pycardano sources — do not edit *)',
           'From Coq Require Import NArith String List.', 'Import ListNotations.', 'Open Scope N_scope.', 'Open Scope string_scope.', '']
    out.append(f'Definition CHARSET : string := {_coq_string(_module_const(b32, "CHARSET", str))}.')
    out.append(f'Definition BECH32M_CONST : N := {_module_const(b32, "BECH32M_CONST", int)}.')
    out.append(f'Definition VERIFICATION_KEY_HASH_SIZE : N := {_module_const(hsh, "VERIFICATION_KEY_HASH_SIZE", int)}.')
    out.append(f'Definition SCRIPT_HASH_SIZE : N := {_module_const(hsh, "SCRIPT_HASH_SIZE", int)}.')
    out.append('Definition address_types : list (string * N) := [' + '; '.join(f'({_coq_string(n)}, {v})' for n, v in types) + '].')
    out.append('Definition networks : list (string * N) := [' + '; '.join(f'({_coq_string(n)}, {v})' for n, v in nets) + '].')
    rows = []
    for p, (ints, strs) in lits.items():
        if p in ('AddressType', 'Network'):
            continue                                     # emitted as (name, value) tables above
        if any(i < 0 for i in ints):
            raise ValueError(f'negative literal in {p}')
        rows.append(f'  ({_coq_string(p)}, [' + '; '.join(str(i) for i in ints) + '], [' + '; '.join(_coq_string(x) for x in strs) + '])')
    out.append('(* numeric and string literals of every modelled definition, in source order *)')
    out.append('Definition literals : list (string * list N * list string) := [\n' + ';\n'.join(rows) + '].')
    return '\n'.join(out) + '\n', dict(types=types, nets=nets)


def regen(ctx):
    text, info = extract(C.REPO)
    C.write_gen('AddressGen', text)
    ctx.notes.append(f'AddressGen.v regenerated from {C.REPO}')


GEN_OBLIGATIONS = ['AST shape fingerprints of 30 definitions', 'constants in coq/gen/AddressGen.v']

# ------------------------------------------------------------------------------------------------ reference bech32 (harness side)
_CH = 'qpzry9x8gf2tvdw0s3jn54khce6mua7l'


def _polymod(vs):
    g = [0x3b6a57b2, 0x26508e6d, 0x1ea119fa, 0x3d4233dd, 0x2a1462b3]
    c = 1
    for v in vs:
        t = c >> 25
        c = ((c & 0x1ffffff) << 5) ^ v
        for i in range(5):
            if (t >> i) & 1:
                c ^= g[i]
    return c


def ref_bech32(hrp, payload, const=1):
    bits = ''.join(f'{b:08b}' for b in payload)
    bits += '0' * (-len(bits) % 5)
    d = [int(bits[i:i + 5], 2) for i in range(0, len(bits), 5)]
    e = [ord(c) >> 5 for c in hrp] + [0] + [ord(c) & 31 for c in hrp]
    pm = _polymod(e + d + [0] * 6) ^ const
    return hrp + '1' + ''.join(_CH[x] for x in d + [(pm >> 5 * (5 - i)) & 31 for i in range(6)])


def ref_varint(n):
    ds = [n & 127]
    n >>= 7
    while n:
        ds.append(128 | (n & 127)); n >>= 7
    return bytes(reversed(ds))


NIBBLE = {('vkh', 'vkh'): 0, ('sh', 'vkh'): 1, ('vkh', 'sh'): 2, ('sh', 'sh'): 3, ('vkh', 'ptr'): 4, ('sh', 'ptr'): 5,
          ('vkh', None): 6, ('sh', None): 7, (None, 'vkh'): 14, (None, 'sh'): 15}


def ref_bytes(c):
    kp, ks = (c['pay'][0] if c['pay'] else None), (c['stk'][0] if c['stk'] else None)
    if (kp, ks) not in NIBBLE:
        return None
    b = bytes([NIBBLE[(kp, ks)] * 16 + c['net']])
    b += bytes.fromhex(c['pay'][1]) if c['pay'] else b''
    if ks == 'ptr':
        b += b''.join(ref_varint(x) for x in c['stk'][1:])
    elif ks:
        b += bytes.fromhex(c['stk'][1])
    return b


def ref_hrp(c):
    return ('addr' if c['pay'] else 'stake') + ('' if c['net'] == 1 else '_test')


# ------------------------------------------------------------------------------------------------ generator
BOUNDARY = sorted({0, 1, 2 ** 63 - 1, 2 ** 63, 2 ** 64 - 1, 2 ** 64, 2 ** 70, 2 ** 128} |
                  {2 ** (7 * k) - 1 for k in range(1, 11)} | {2 ** (7 * k) for k in range(1, 11)})
KINDS = [('vkh', 'vkh'), ('sh', 'vkh'), ('vkh', 'sh'), ('sh', 'sh'), ('vkh', 'ptr'), ('sh', 'ptr'),
         ('vkh', None), ('sh', None), (None, 'vkh'), (None, 'sh')]
BAD_KINDS = [(None, None), (None, 'ptr')]
LOWER_EXTRA = 'bio1'
SUBST_CHARS = ([ord(c) for c in _CH + LOWER_EXTRA] + list(range(65, 91)) +
               [32, 33, 126, 127, 0xe9, 0x131, 0x17f, 0x212a])


def rand_hash(rng):
    r = rng.random()
    if r < 0.05:
        return '00' * 28
    if r < 0.1:
        return 'ff' * 28
    if r < 0.2:
        return printable_hash(rng).hex()
    return bytes(rng.randrange(256) for _ in range(28)).hex()


B32 = b'qpzry9x8gf2tvdw0s3jn54khce6mua7l'


def printable_hash(rng):
    """28 bytes that read as text: a credential is arbitrary bytes, and some byte strings spell the beginning of a Bech32
    address, a hex string or JSON when looked at as ASCII (header 0x61 is 'a', 0x73 is 's', 0x65 is 'e')"""
    head = rng.choice([b'ddr1', b'ddr_test1', b'take1', b'take_test1', b'ddr', b'', b'0123abcd', b'{"a":', b'DDR1'])
    body = bytes(rng.choice(B32) for _ in range(28))
    return (head + body)[:28]


def mk_addr(rng, kp, ks, net, ptr=None, same=False, h1=None):
    h1 = h1 or rand_hash(rng)
    h2 = h1 if same else rand_hash(rng)
    pay = [kp, h1] if kp else None
    if ks == 'ptr':
        stk = ['ptr'] + list(ptr if ptr else (rng.choice(BOUNDARY) for _ in range(3)))
    else:
        stk = [ks, h2] if ks else None
    return {'k': 'addr', 'pay': pay, 'stk': stk, 'net': net}


def small_ptr(rng):
    return [rng.choice([0, 1, 127, 128, 16383, 16384, rng.randrange(2 ** 32), rng.randrange(2 ** 40), 2 ** 63 - 1]),
            rng.choice([0, 1, 127, 128, rng.randrange(2 ** 16)]), rng.choice([0, 1, 127, 128, rng.randrange(2 ** 16)])]


def gen_addr_cases(ctx):
    rng, cases = ctx.rng, []
    reps = ctx.n(3, 40)
    for net in (0, 1):
        for kp, ks in KINDS:
            if ks == 'ptr':
                for pos in range(3):                      # every boundary in every component
                    for v in BOUNDARY:
                        for _ in range(ctx.n(1, 4)):
                            p = small_ptr(rng); p[pos] = v
                            cases.append(mk_addr(rng, kp, ks, net, p))
                for _ in range(ctx.n(30, 600)):           # arbitrary boundary triples (incl. over the 108 limit)
                    cases.append(mk_addr(rng, kp, ks, net))
                for _ in range(ctx.n(10, 200)):
                    cases.append(mk_addr(rng, kp, ks, net, [rng.randrange(2 ** rng.choice([7, 14, 21, 32, 63, 64, 65])) for _ in range(3)]))
            else:
                for _ in range(reps):
                    cases.append(mk_addr(rng, kp, ks, net))
                cases.append(mk_addr(rng, kp, ks, net, same=True))     # same bytes in both credentials
                for head in (b'ddr1', b'take1', b'ddr_test1'):          # binary forms that read as the start of a Bech32 address
                    cases.append(mk_addr(rng, kp, ks, net, h1=(head + printable_hash(rng))[:28].hex()))
        for kp, ks in BAD_KINDS:
            cases.append(mk_addr(rng, kp, ks, net))
    return cases


def sample_texts(ctx, n):
    """valid address strings (reference encoder) of all kinds, both networks"""
    rng, out = ctx.rng, []
    for i in range(n):
        kp, ks = KINDS[i % len(KINDS)]
        net = (i // len(KINDS)) % 2
        c = mk_addr(rng, kp, ks, net, small_ptr(rng) if ks == 'ptr' else None)
        out.append((c, ref_bech32(ref_hrp(c), ref_bytes(c))))
    return out


def gen_subst_cases(ctx):
    cases = []
    texts = sample_texts(ctx, ctx.n(24, 1200))
    for j, (c, t) in enumerate(texts):
        s = t
        if j % 12 == 10:
            s = t.upper()                                   # an all-upper-case valid string
        if j % 12 == 11:
            s = ref_bech32(ref_hrp(c), ref_bytes(c), 0x2bc830a3)    # Bech32m checksum: accepted by the decoder
        cases.append({'k': 'subst', 's': s, 'chars': SUBST_CHARS})
    return cases, texts


def cps(s):
    return [ord(c) for c in s]


def gen_text_cases(ctx, texts):
    rng, cases = ctx.rng, []
    def add(s, expect, why):
        cases.append({'k': 'text', 's': cps(s), 'expect': expect, 'why': why})
    for c, t in texts[:ctx.n(20, 400)]:
        for k in range(1, 9):
            add(t[:-k], 'reject', 'truncated')
        add(t[1:], 'reject', 'first character dropped')
        i = rng.randrange(len(t))
        add(t[:i] + t[i + 1:], 'reject', 'one character dropped')
        add(t[:i] + rng.choice(_CH) + t[i:], 'reject', 'one character inserted')
        i = rng.randrange(t.index('1') + 1, len(t) - 1)
        if t[i] != t[i + 1]:
            add(t[:i] + t[i + 1] + t[i] + t[i + 2:], 'reject', 'adjacent transposition')
        for k in (1, 2, 3, 4, 6):                           # checksum-only corruption
            tail = list(t[-6:])
            for p in rng.sample(range(6), k):
                tail[p] = rng.choice([x for x in _CH if x != tail[p]])
            add(t[:-6] + ''.join(tail), 'reject', f'{k} checksum characters changed')
        for k in (2, 3, 4):                                 # k data characters changed (<= 4 errors: guaranteed up to length 89)
            s = list(t)
            for p in rng.sample(range(t.index('1') + 1, len(t)), k):
                s[p] = rng.choice([x for x in _CH if x != s[p]])
            add(''.join(s), 'reject', f'{k} data characters changed')
        add(t.upper(), 'same', 'all upper case')
        add(t[:len(t) // 2].upper() + t[len(t) // 2:], 'reject', 'mixed case')
        b = ref_bytes(c)
        add(ref_bech32(ref_hrp(c), b, 0x2bc830a3), None, 'bech32m checksum (accepted by bech32_decode)')
        add(ref_bech32('stake' if c['pay'] else 'addr', b), None, 'other prefix, valid checksum (prefix is not checked)')
        add(ref_bech32(ref_hrp(c), b, 2), 'reject', 'checksum for constant 2')
        add(ref_bech32(ref_hrp(c), b + bytes(rng.randrange(256) for _ in range(40))), 'reject', 'longer than 108 characters')
        add(ref_bech32(ref_hrp(c), b[:1]), 'reject', 'one-byte payload')
        add(ref_bech32(ref_hrp(c), b[:rng.randrange(2, len(b))]), None, 'valid bech32, truncated payload')
        add(ref_bech32(ref_hrp(c), bytes([rng.randrange(256)]) + b[1:]), None, 'valid bech32, other header byte')
    for s in ['', '1', 'addr1', 'a1qqqqqq', 'A1LQFN3A', 'a12uel5l', 'A12UEL5L', 'abcdef1qpzry9x8gf2tvdw0s3jn54khce6mua7lmqqqxw',
              '?1ezyfcl', 'split1checkupstagehandshakeupstreamerranterredcaperred2y9e3w', '\x801eym55h', 'pzry9x0s0muk', '1pzry9x0s0muk',
              'x1b4n0q5v', 'li1dgmt3', 'de1lg7wt\xff', '10a06t8', '1qzzfhee', 'addr1' + 'q' * 110]:
        add(s, None, 'fixed vector')
    return cases


def gen_bytes_cases(ctx):
    rng, cases = ctx.rng, []
    def add(b, why):
        cases.append({'k': 'bytes', 'b': bytes(b).hex(), 'why': why})
    add(b'', 'empty')
    for h in range(256):
        for ln in ((0, 27, 28, 29, 56, 57) if ctx.quick else (0, 1, 27, 28, 29, 31, 55, 56, 57, 58)):
            add(bytes([h]) + bytes(rng.randrange(256) for _ in range(ln)), f'header {h:02x}, {ln} payload bytes')
    for h in (0x61, 0x60, 0x71, 0x73, 0x65, 0x41, 0x31, 0x01):       # 'a', '`', 'q', 's', 'e', 'A', '1': binary forms that are all ASCII
        for _ in range(ctx.n(3, 30)):
            add(bytes([h]) + printable_hash(rng), f'header {h:02x}, printable key hash')
            add(bytes([h]) + printable_hash(rng) + printable_hash(rng), f'header {h:02x}, two printable hashes')
    for h in (0x40, 0x41, 0x50, 0x51):
        hb = bytes([h]) + bytes(rng.randrange(256) for _ in range(28))
        for tail, why in [(b'', 'no pointer'), (b'\x01\x02', '2 numbers'), (b'\x01\x02\x03\x04', '4 numbers'),
                          (b'\x80\x01\x02\x03', 'leading 0x80 group (non-minimal)'), (b'\x01\x02\x03\x80', 'unterminated trailing group'),
                          (b'\x01\x02\x83', 'last number unterminated'), (b'\xff' * 12 + b'\x7f\x00\x00', 'large number'),
                          (b'\x80\x80\x80\x00\x00\x00', 'zero with leading groups')]:
            add(hb + tail, 'pointer payload: ' + why)
        for _ in range(ctx.n(20, 300)):
            add(hb + bytes(rng.randrange(256) for _ in range(rng.randrange(0, 14))), 'random pointer payload')
    return cases


# ------------------------------------------------------------------------------------------------ Coq rendering
HEADER = '''From Coq Require Import NArith List String.
From PyC Require Import Base Bech32 Address AddressOracle.
Import ListNotations.
Open Scope string_scope.
Open Scope N_scope.
'''
EK = {'IndexError': 'EIndex', 'ValueError': 'EValue', 'AssertionError': 'EAssert', 'DecodingException': 'EDecoding',
      'DeserializeException': 'EDeserialize', 'TypeError': 'EType', 'InvalidAddressInputException': 'EInvalidAddress'}


class Atoms:
    """28-byte hashes of one case are bound once (`let h0 := hx ".." in`) and reused: literals are what makes coqc slow"""

    def __init__(self):
        self.names = {}

    def add(self, hexs):
        if len(hexs) == 56 and hexs not in self.names:
            self.names[hexs] = f'h{len(self.names)}'

    def hx(self, hexs):
        parts, i, lit = [], 0, ''
        while i < len(hexs):
            hit = next((a for a in self.names if i % 2 == 0 and hexs.startswith(a, i)), None)
            if hit:
                if lit:
                    parts.append(f'hx "{lit}"'); lit = ''
                parts.append(self.names[hit]); i += 56
            else:
                lit += hexs[i]; i += 1
        if lit or not parts:
            parts.append(f'hx "{lit}"')
        return '(' + ' ++ '.join(parts) + ')' + ('%list' if len(parts) > 1 else '')

    def wrap(self, body):
        return '(' + ''.join(f'let {n} := hx "{h}" in ' for h, n in self.names.items()) + body + ')'


def collect_atoms(at, c, r):
    def part(p):
        if p and p[0] in ('vkh', 'sh'):
            at.add(p[1])
    def ires(x):
        if x and 'ok' in x:
            part(x['ok']['pay']); part(x['ok']['stk'])
    if c['k'] == 'addr':
        part(c['pay']); part(c['stk'])
        if 'bad' not in r:
            ires(r['fromb']); ires(r['fromt'])
    elif c['k'] == 'subst':
        ires(r['base'])
        for _, _, x in r['accepted']:
            ires(x)
    else:
        ires(r)


def r_cred(at, p):
    return f'({"VKH" if p[0] == "vkh" else "SH"} {at.hx(p[1])})'


def r_pay(at, p):
    return 'None' if p is None else f'(Some {r_cred(at, p)})'


def r_stk(at, p):
    if p is None:
        return 'None'
    if p[0] == 'ptr':
        return f'(Some (SPtr {C.cn(p[1])} {C.cn(p[2])} {C.cn(p[3])}))'
    return f'(Some (SCred {r_cred(at, p)}))'


def r_net(n):
    return 'MAINNET' if n == 1 else 'TESTNET'


def r_ires(at, r):
    if 'ok' in r:
        a = r['ok']
        if a['net'] not in (0, 1) or any(isinstance(x, int) and x < 0 for x in (a['stk'] or [])[1:]):
            raise ValueError('implementation result outside the model domain')
        return f'(IOk (mkAddr {r_pay(at, a["pay"])} {r_stk(at, a["stk"])} {r_net(a["net"])}))'
    return f'(IErr {EK.get(r["err"], "EFuel")})'


def r_str(cpl):
    if all(32 <= c < 127 for c in cpl):
        return f'(codes {C.cstr("".join(chr(c) for c in cpl))})'
    return C.clist([C.cn(c) for c in cpl])


def r_case(c, r):
    k = c['k']
    at = Atoms()
    collect_atoms(at, c, r)
    if k == 'addr':
        head = f'{r_pay(at, c["pay"])} {r_stk(at, c["stk"])} {r_net(c["net"])}'
        if 'bad' in r:
            return at.wrap(f'KAddrBad {head}')
        it = 'None' if r['text'] is None else f'(Some {C.cstr(r["text"])})'
        ift = 'None' if r['fromt'] is None else f'(Some {r_ires(at, r["fromt"])})'
        return at.wrap(f'KAddr {head} {at.hx(r["bytes"])} {it} {r_ires(at, r["fromb"])} {ift}')
    if k == 'subst':
        acc = C.clist([f'({i}%nat, {C.cn(ch)}, {r_ires(at, x)})' for i, ch, x in r['accepted']])
        return at.wrap(f'KSubst {C.cstr(c["s"])} {C.clist([C.cn(x) for x in c["chars"]])} {r_ires(at, r["base"])} {acc}')
    if k == 'text':
        return at.wrap(f'KText {r_str(c["s"])} {c["_expect"](at)} {r_ires(at, r)}')
    if k == 'bytes':
        return at.wrap(f'KBytes {at.hx(c["b"])} {r_ires(at, r)}')
    raise ValueError(k)


SHARD_CHARS = 40000


def evaluate(cases, results):
    """returns (mismatch_idx, oracle_idx, exact_kind_idx, errors)"""
    mism, ofail, exact, errs = set(), set(), set(), []
    rendered = []
    for i, (c, r) in enumerate(zip(cases, results)):
        if 'driver_error' in r:
            mism.add(i); ofail.add(i)
            continue
        if c['k'] == 'addr' and 'bad' not in r:
            # fields the Coq side does not see are checked here (same bytes through every accessor)
            if r['to_primitive'] != r['bytes'] or r['header'] != r['bytes'][:2] or r.get('decode_alias') is False:
                ofail.add(i)
        try:
            rendered.append((i, r_case(c, r), c['k'] == 'subst'))
        except ValueError as e:                              # a result the printer cannot express
            mism.add(i); ofail.add(i); errs.append(f'case {i}: {e}')
    shards, maps, cur, curw = [], [], [], 0
    def flush():
        nonlocal cur, curw
        if cur:
            items = [f'({j}%nat, {t})' for j, (_, t) in enumerate(cur)]
            body = 'Definition cases : list (nat * case) :=\n' + C.clist(items) + '.\n'
            body += 'Eval vm_compute in (map fst (filter (fun c => negb (c15_corr (snd c))) cases)).\n'
            body += 'Eval vm_compute in (map fst (filter (fun c => negb (c15_oracle (snd c))) cases)).\n'
            body += 'Eval vm_compute in (map fst (filter (fun c => negb (c15_corr_exact (snd c))) cases)).\n'
            shards.append(body); maps.append([i for i, _ in cur])
        cur, curw = [], 0
    for i, t, heavy in sorted(rendered, key=lambda x: not x[2]):     # the heavy substitution sweeps first
        if heavy:
            flush(); cur.append((i, t)); flush()
            continue
        cur.append((i, t)); curw += len(t)
        if curw >= SHARD_CHARS:
            flush()
    flush()
    real_errs = [e for e in errs]
    for (ok, lists, log), mp in zip(C.run_cases(PID, shards, HEADER), maps):
        if not ok or len(lists) != 3:
            real_errs.append(log[-1500:])
            continue
        mism.update(mp[j] for j in lists[0]); ofail.update(mp[j] for j in lists[1]); exact.update(mp[j] for j in lists[2])
    return mism, ofail, exact, [e for e in real_errs if not e.startswith('case ')]


def text_len(c):
    b = ref_bytes(c)
    return None if b is None else len(ref_hrp(c)) + 7 + (8 * len(b) + 4) // 5


def classify(case, res):
    if 'driver_error' in res:
        return 'driver-exception'
    if case['k'] == 'addr':
        n = text_len(case)
        if n is not None and n > 108 and 'bad' not in res and res.get('text') is None:
            return 'text-over-108'
        return 'address-forms'
    return {'subst': 'substitution-accepted', 'text': 'corrupted-text', 'bytes': 'bytes-decoding'}[case['k']]


def nontrivial(c):
    return c['k'] != 'addr' or ((c['pay'][0] if c['pay'] else None), (c['stk'][0] if c['stk'] else None)) in NIBBLE


def run(ctx, cases):
    results = C.run_impl('address_driver', {'cases': cases}, nshards=6)
    # 'same' expectation: the all-upper-case string must decode to what the lower-case string decodes to
    low = {}
    for c, r in zip(cases, results):
        if c['k'] == 'text' and c.get('expect') == 'same':
            low[''.join(chr(x) for x in c['s']).lower()] = None
    if low:
        keys = list(low)
        rs = C.run_impl('address_driver', {'cases': [{'k': 'text', 's': cps(k)} for k in keys]}, nshards=1)
        low = dict(zip(keys, rs))
    for c, r in zip(cases, results):
        if c['k'] == 'text':
            e = c.get('expect')
            if e is None:
                c['_expect'] = lambda at: 'None'
            elif e == 'reject':
                c['_expect'] = lambda at: '(Some (IErr EType))'
            else:
                base = low[''.join(chr(x) for x in c['s']).lower()]
                c['_expect'] = (lambda b: (lambda at: f'(Some {r_ires(at, b)})' if 'driver_error' not in b else '(Some (IErr EType))'))(base)
    return results


def correspond(ctx, cases=None):
    if cases is None:
        cases = gen_addr_cases(ctx)
        sub, texts = gen_subst_cases(ctx)
        cases += sub + gen_text_cases(ctx, texts) + gen_bytes_cases(ctx)
    results = run(ctx, cases)
    mism, ofail, exact, errs = evaluate(cases, results)
    if errs:
        raise RuntimeError('cases file failed to compile: ' + errs[0])
    known = {f['region'] for f in C.known_findings(PID)}
    hist, errkinds, regions = {}, {}, {}
    nsub = 0
    for i, (c, r) in enumerate(zip(cases, results)):
        key = c['k']
        if key == 'addr':
            key = 'addr:' + str(c['pay'][0] if c['pay'] else None) + '+' + str(c['stk'][0] if c['stk'] else None) + ':' + r_net(c['net'])
        hist[key] = hist.get(key, 0) + 1
        if c['k'] == 'subst' and 'tried' in r:
            nsub += r['tried']
        for rr in ([r] if c['k'] in ('text', 'bytes') else [r.get('fromb') or {}, r.get('fromt') or {}] if c['k'] == 'addr' else []):
            if 'err' in rr:
                errkinds[rr['err']] = errkinds.get(rr['err'], 0) + 1
        reg = classify(c, r)
        if reg == 'text-over-108':
            regions[reg] = regions.get(reg, 0) + 1
            if reg in known:
                ofail.add(i)             # acknowledged finding: reported as KNOWN-FINDING by check.py
    distinct = len({C.canon_hash({k: v for k, v in c.items() if not k.startswith('_')}) for c in cases if nontrivial(c)})

    def pack(i):
        c = {k: v for k, v in cases[i].items() if not k.startswith('_')}
        return {'input': c, 'impl': results[i], 'region': classify(cases[i], results[i])}
    first_sub = next((c for c in cases if c['k'] == 'subst'), None)
    return dict(
        evaluations=len(cases) + nsub, cases=len(cases), single_substitutions_tried=nsub,
        distinct_nontrivial=distinct,
        rule='address cases: all 10 CIP-19 kinds (+2 impossible combinations) x 2 networks, pointer kinds with every value of '
             '{0,1,2^(7k)-1,2^(7k) (k=1..10),2^63-1,2^63,2^64-1,2^64,2^70,2^128} in every component plus random triples, random '
             '28-byte hashes incl. 00.., ff.. and identical payment/staking bytes; substitution cases: every position x every one '
             f'of {len(SUBST_CHARS)} replacement characters (32 charset, b i o 1, A-Z, space ! ~ DEL, e-acute, dotless i, long s, '
             'Kelvin sign) on sampled valid strings (lower case, all upper case, Bech32m-checksummed); text cases: truncations, '
             'dropped/inserted/transposed characters, 1-6 checksum characters changed, 2-4 data characters changed, case variants, '
             'Bech32m, other prefix, >108 characters, BIP-173 vectors; bytes cases: all 256 header bytes x 10 payload lengths, '
             'malformed pointer payloads. non-trivial = everything except the impossible constructor combinations; distinct by hash',
        samples=[{k: v for k, v in cases[0].items() if not k.startswith('_')},
                 {'k': 'subst', 's': first_sub['s'], 'chars': '<%d code points>' % len(first_sub['chars'])} if first_sub else None],
        case_histogram=hist, implementation_error_kinds=errkinds,
        exact_exception_kind_disagreements=len(exact),
        premise_excluded_regions=regions,
        compared='bytes(a), a.to_primitive(), a.header_byte, a.encode(), Address.decode alias, from_primitive(bytes) and '
                 'from_primitive(text) as structure incl. credential classes (VerificationKeyHash/ScriptHash/PointerAddress); '
                 'accept/reject decision of every substituted / corrupted string; oracle = CIP-19/BIP-173 reference in Coq',
        mismatches=[pack(i) for i in sorted(mism)[:20]],
        oracle_fail=[pack(i) for i in sorted(ofail)[:50]],
    )


def search(ctx, mism):
    """Something no longer checks: look harder for an input on which the property itself fails on the implementation."""
    for extra in range(2):
        ctx.rng.seed(f'search-{ctx.seed}-{extra}')
        r = correspond(ctx)
        bad = [f for f in r['oracle_fail'] if f['region'] != 'text-over-108']
        if bad:
            return min(bad, key=lambda f: len(json.dumps(f, default=str)))
    return None


def replay(ctx, rep):
    case = rep['case']['input']
    results = run(ctx, [case])
    mism, ofail, exact, errs = evaluate([case], results)
    shown = dict(case)
    if case['k'] == 'subst':
        shown['chars'] = f'<{len(case["chars"])} code points>'
    print('input:', json.dumps({k: v for k, v in shown.items() if not k.startswith('_')}))
    print('implementation:', json.dumps(results[0])[:2000])
    if case['k'] == 'addr':
        b = ref_bytes(case)
        print('reference: bytes', b.hex() if b else None, ' text', ref_bech32(ref_hrp(case), b) if b else None)
    print('model agrees:', 0 not in mism, ' property oracle holds:', 0 not in ofail, errs[:1])
    return 1 if ofail else 0
