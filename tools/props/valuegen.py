"""Generators and Coq rendering for value programs (C04, C05)."""
from lib.common import cz, cnat, chx, clist, cpair, cbool

NAMES = [b'', b'\x00', b'a', b'b', b'\xff', b'aa', b'ab', b'b\x00', b'zz', b'a' * 23, b'b' * 24, b'\x00' * 31,
         b'a' * 32, b'\xff' * 32, b'tok', b'TOKEN', b'a' * 31 + b'b']
QTY = [0, 0, 1, 1, 2, 3, 5, 23, 24, 255, 256, 65535, 65536, 2**32 - 1, 2**32, 2**63 - 1, 2**63, 2**64 - 1, 2**64,
       2**64 + 1, 2**70, -1, -1, -2, -24, -25, -256, -257, -2**32, -2**63, -2**64, -2**64 - 1, -2**70]


def policies(rng, k):
    base = [bytes([i]) * 28 for i in (1, 2, 0xff)] + [b'\x00' * 27 + b'\x01', b'\x01' + b'\x00' * 27]
    out = base[:]
    while len(out) < k:
        out.append(bytes(rng.getrandbits(8) for _ in range(28)))
    rng.shuffle(out)
    return out[:k]


def rand_ma(rng, pols, names, maxp=3, maxn=3, qty=QTY):
    lit = []
    for p in rng.sample(pols, rng.randint(0, min(maxp, len(pols)))):
        ns = rng.sample(names, rng.randint(0 if rng.random() < 0.1 else 1, min(maxn, len(names))))
        lit.append([p.hex(), [[n.hex(), rng.choice(qty)] for n in ns]])
    return lit


def rand_crit(rng, pols):
    k = rng.choice(['pos', 'ge', 'policy', 'namelen'])
    if k == 'pos':
        return ['pos']
    if k == 'ge':
        return ['ge', rng.choice([-1, 0, 1, 2, 256, 2**64])]
    if k == 'policy':
        return ['policy', rng.choice(pols).hex()]
    return ['namelen', rng.choice([0, 1, 2, 32])]


def rand_program(rng, nops):
    pols = policies(rng, rng.randint(2, 4))
    names = rng.sample(NAMES, rng.randint(2, 5))
    qty = QTY if rng.random() < 0.6 else [0, 1, 2, 3, -1, -2, 5]
    coins = [0, 1, 5, 1000000, 2**32, 2**64, -3]
    ops = []
    nv = 0
    for _ in range(rng.randint(2, 3)):
        ops.append(['new', rng.choice(coins), rand_ma(rng, pols, names, qty=qty)]); nv += 1
    kinds = ['add', 'add', 'sub', 'sub', 'union', 'addint', 'iadd', 'iadd', 'maiadd', 'setitem', 'setitem', 'filter',
             'normalize', 'alias', 'share', 'new', 'eq', 'eq', 'le', 'le', 'lt', 'count', 'ge', 'ge', 'gt', 'male', 'mage',
             'ale', 'age', 'aiadd', 'aiadd']
    for _ in range(nops):
        k = rng.choice(kinds)
        a, b = rng.randrange(nv), rng.randrange(nv)
        if k == 'new':
            ops.append(['new', rng.choice(coins), rand_ma(rng, pols, names, qty=qty)]); nv += 1
        elif k in ('add', 'sub', 'union'):
            ops.append([k, a, b]); nv += 1
        elif k == 'addint':
            ops.append([k, a, rng.choice([0, 1, -1, 2**64])]); nv += 1
        elif k in ('iadd', 'maiadd', 'eq', 'le', 'lt', 'ge', 'gt', 'male', 'mage'):
            ops.append([k, a, b])
        elif k in ('ale', 'age', 'aiadd'):
            ops.append([k, a, rng.choice(pols).hex(), b])
        elif k == 'setitem':
            ops.append([k, a, rng.choice(pols).hex(), rng.choice(names).hex(), rng.choice(qty)])
        elif k == 'filter':
            ops.append([k, a, rand_crit(rng, pols)]); nv += 1
        elif k == 'count':
            ops.append([k, a, rand_crit(rng, pols)])
        elif k == 'normalize':
            ops.append([k, a])
        elif k == 'alias':
            ops.append([k, a]); nv += 1
        elif k == 'share':
            ops.append([k, a, rng.choice(coins)]); nv += 1
    return ops


def cancel_program(rng):
    """operands built to meet exactly: quantities that cancel to zero name by name (a burn applied to a holding), operands
    that are sub-bundles / incomparable / equal, so that in-place and pure forms, and every comparison, see zero crossings"""
    pols = policies(rng, rng.randint(1, 3))
    names = rng.sample(NAMES, rng.randint(2, 4))
    base = {}
    for p in pols:
        for n in rng.sample(names, rng.randint(1, len(names))):
            base[(p, n)] = rng.choice([1, 2, 5, 5, 24, 2**64, -3])
    other = {}
    for k, v in base.items():
        m = rng.random()
        if m < 0.45:
            other[k] = -v                              # cancels exactly
        elif m < 0.6:
            other[k] = v                               # equal
        elif m < 0.75:
            other[k] = v + rng.choice([1, -1])         # just above / below: incomparable mixes
    for _ in range(rng.randint(0, 2)):
        other.setdefault((rng.choice(pols), rng.choice(NAMES)), rng.choice([1, -1, 7]))

    def lit(d):
        order = list(d); rng.shuffle(order)
        out = {}
        for (p, n) in order:
            out.setdefault(p, []).append([n.hex(), d[(p, n)]])
        return [[p.hex(), v] for p, v in out.items()]
    ops = [['new', rng.choice([0, 5, 1000000]), lit(base)], ['new', rng.choice([0, 5, -5]), lit(other)]]
    nv = 2
    for _ in range(rng.randint(3, 9)):
        k = rng.choice(['aiadd', 'aiadd', 'aiadd', 'maiadd', 'iadd', 'add', 'sub', 'eq', 'le', 'ge', 'gt', 'lt', 'male', 'mage',
                        'ale', 'age', 'alias', 'share'])
        a, b = rng.randrange(nv), rng.randrange(nv)
        if k in ('aiadd', 'ale', 'age'):
            ops.append([k, a, rng.choice(pols).hex(), b])
        elif k in ('add', 'sub'):
            ops.append([k, a, b]); nv += 1
        elif k == 'alias':
            ops.append([k, a]); nv += 1
        elif k == 'share':
            ops.append([k, a, 7]); nv += 1
        else:
            ops.append([k, a, b])
    return ops


def shared_program(rng):
    """bundles in which two or three policies hold the SAME Asset object (the driver builds `a = Asset(..);
    MultiAsset({p1: a, p2: a})` for equal literals when the case carries share=True), combined by the operators that never
    edit an Asset of their operands in place (+, -, union, +=, filter, comparisons): each policy must behave as if it had its
    own copy.  (Item assignment / Asset += on such a bundle really edit both policies: not generated here.)"""
    pols = policies(rng, rng.randint(2, 4))
    names = rng.sample(NAMES, rng.randint(1, 3))
    qty = [1, 2, 3, 5, -1, -2, 2**64]

    def bundle():
        base = [[n.hex(), rng.choice(qty)] for n in rng.sample(names, rng.randint(1, len(names)))]
        lit = []
        for p in rng.sample(pols, rng.randint(2, len(pols))):
            lit.append([p.hex(), [list(x) for x in base] if rng.random() < 0.8 else
                        [[n.hex(), rng.choice(qty)] for n in rng.sample(names, rng.randint(1, len(names)))]])
        return lit
    ops = [['new', rng.choice([0, 5, 1000000]), bundle()] for _ in range(rng.randint(2, 3))]
    nv = len(ops)
    for _ in range(rng.randint(3, 9)):
        k = rng.choice(['add', 'add', 'add', 'sub', 'union', 'iadd', 'maiadd', 'eq', 'le', 'ge', 'lt', 'male', 'mage', 'filter', 'alias', 'share'])
        a, b = rng.randrange(nv), rng.randrange(nv)
        if k in ('add', 'sub', 'union'):
            ops.append([k, a, b]); nv += 1
        elif k == 'filter':
            ops.append([k, a, rand_crit(rng, pols)]); nv += 1
        elif k == 'alias':
            ops.append([k, a]); nv += 1
        elif k == 'share':
            ops.append([k, a, 7]); nv += 1
        else:
            ops.append([k, a, b])
    return ops


def history_program(rng):
    """Two or three different histories that reach the same target content (C04)."""
    pols = policies(rng, rng.randint(1, 6))
    names = rng.sample(NAMES, rng.randint(1, 6))
    qty = [q for q in QTY if q != 0]
    target = {}
    for p in pols:
        for n in rng.sample(names, rng.randint(1, len(names))):
            target[(p, n)] = rng.choice(qty)
    if rng.random() < 0.15:
        target = {}
    coin = rng.choice([0, 5, 23, 24, 2**32, 2**64])

    def lit(d, order):
        out = {}
        for (p, n) in order:
            out.setdefault(p, []).append([n.hex(), d[(p, n)]])
        return [[p.hex(), v] for p, v in out.items()]

    ops, nv = [], 0
    keys = list(target)
    # history A: direct construction in a random insertion order
    o = keys[:]; rng.shuffle(o)
    ops.append(['new', coin, lit(target, o)]); nv += 1
    # history B: split into two summands (+ a detour that cancels), different insertion order
    o2 = keys[:]; rng.shuffle(o2)
    d1, d2 = {}, {}
    for k in o2:
        s = rng.choice([0, 1, target[k], -7, 2**64])
        d1[k] = target[k] - s; d2[k] = s
    extra = {}
    for _ in range(rng.randint(0, 3)):
        k = (rng.choice(pols), rng.choice(NAMES))
        if k not in target:
            extra[k] = rng.choice(qty)
    d1x = dict(d1); d1x.update(extra)
    o3 = list(d1x); rng.shuffle(o3)
    ops.append(['new', coin - 3, lit(d1x, o3)]); b1 = nv; nv += 1
    o4 = list(d2); rng.shuffle(o4)
    ops.append(['new', 3, lit(d2, o4)]); b2 = nv; nv += 1
    ops.append(['add', b1, b2]); s = nv; nv += 1
    if extra:
        ox = list(extra); rng.shuffle(ox)
        ops.append(['new', 0, lit(extra, ox)]); e = nv; nv += 1
        ops.append(['sub', s, e]); s = nv; nv += 1
    # history C: in-place updates on a copy built in yet another order, zero entries left behind
    o5 = keys[:]; rng.shuffle(o5)
    ops.append(['new', coin, []]); c = nv; nv += 1
    for k in o5:
        if rng.random() < 0.3:
            ops.append(['setitem', c, k[0].hex(), k[1].hex(), 0])
        ops.append(['setitem', c, k[0].hex(), k[1].hex(), target[k]])
    for k in list(extra)[:2]:
        ops.append(['setitem', c, k[0].hex(), k[1].hex(), 0])
    if rng.random() < 0.5 and target:
        ops.append(['iadd', c, c]); ops.append(['new', coin, lit(target, o)]); t = nv; nv += 1
        ops.append(['sub', c, t]); nv += 1
    return ops


# ---------------------------------------------------------------- rendering
def r_asset(a):
    return clist([cpair(chx(bytes.fromhex(n)), cz(q)) for n, q in a])


def r_ma(m):
    return clist([cpair(chx(bytes.fromhex(p)), r_asset(a)) for p, a in m])


def r_crit(c):
    if c[0] == 'pos':
        return 'CPos'
    if c[0] == 'ge':
        return f'(CGe {cz(c[1])})'
    if c[0] == 'policy':
        return f'(CPolicy {chx(bytes.fromhex(c[1]))})'
    return f'(CNameLen {cnat(c[1])})'


def r_op(op):
    k = op[0]
    if k == 'new':
        return f'HNew {cz(op[1])} {r_ma(op[2])}'
    if k == 'alias':
        return f'HAlias {cnat(op[1])}'
    if k == 'share':
        return f'HShare {cnat(op[1])} {cz(op[2])}'
    if k in ('add', 'sub', 'union', 'iadd', 'eq', 'le', 'lt'):
        name = {'add': 'HAdd', 'sub': 'HSub', 'union': 'HUnion', 'iadd': 'HIAdd', 'eq': 'HEq', 'le': 'HLe', 'lt': 'HLt'}[k]
        return f'{name} {cnat(op[1])} {cnat(op[2])}'
    if k == 'maiadd':
        return f'HMaIAdd {cnat(op[1])} {cnat(op[2])}'
    if k in ('ge', 'gt', 'male', 'mage'):
        return f'{dict(ge="HGe", gt="HGt", male="HMaLe", mage="HMaGe")[k]} {cnat(op[1])} {cnat(op[2])}'
    if k in ('ale', 'age', 'aiadd'):
        return f'{dict(ale="HALe", age="HAGe", aiadd="HAIAdd")[k]} {cnat(op[1])} {chx(bytes.fromhex(op[2]))} {cnat(op[3])}'
    if k == 'addint':
        return f'HAddInt {cnat(op[1])} {cz(op[2])}'
    if k == 'setitem':
        return f'HSetItem {cnat(op[1])} {chx(bytes.fromhex(op[2]))} {chx(bytes.fromhex(op[3]))} {cz(op[4])}'
    if k == 'filter':
        return f'HFilter {cnat(op[1])} {r_crit(op[2])}'
    if k == 'count':
        return f'HCount {cnat(op[1])} {r_crit(op[2])}'
    if k == 'normalize':
        return f'HNormalize {cnat(op[1])}'
    raise ValueError(k)


def r_ops(ops):
    return clist([r_op(o) for o in ops])


def r_snap(snap):
    return clist([cpair(cz(c), r_ma(m)) for c, m in snap])


def r_obs(obs):
    out = []
    for o in obs:
        if o[0] == 'n':
            out.append('ONone')
        elif o[0] == 'b':
            out.append(f'(OBool {cbool(o[1])})')
        else:
            out.append(f'(OInt {cz(o[1])})')
    return clist(out)


HEADER = '''From Coq Require Import ZArith NArith List String.
From PyC Require Import Base Cbor Dict Value ValueHeap ValueOracle.
Import ListNotations.
Open Scope string_scope.
'''
