"""Translator: the three formula functions of /repo/pycardano/utils.py  ->  Gallina (coq/gen/FeeGen.v).

Target: the dynamically typed Python value domain of coq/theories/Fee.v (`pyval`, `py_mul`, `py_ceil`, ...;
control combinators `py_let`, `py_cond`, `py_block`, `blk_*`; `while` -> a fuelled `Fixpoint`).
Fail closed: any AST node outside the subset below raises `Untranslatable`.

Subset: a module-level `def` whose first parameter is `context: ChainContext`, other parameters plain
names (constant int defaults allowed); statements `return e`, `raise Exc(...)`, `x = e`, `x += e`, `x -= e`, `x *= e`,
`if c: ...` (an `if` whose body always exits, or one without any exit; `else` likewise), `while c: ...`
(no exit, no break/continue inside); expressions: int/float/None constants, names, `context.protocol_param.<field>`,
`e["key"]`, `* + -`, `>`, `is None`, `is not None`, `or`, `and`, `not`, `math.ceil(e)`, `int(e)`, `min(a, b)`,
calls of other translated functions with positional arguments.
"""
import ast

FIELDS = ['min_fee_constant', 'min_fee_coefficient', 'max_tx_size', 'price_mem', 'price_step', 'max_tx_ex_mem',
          'max_tx_ex_steps', 'maximum_reference_scripts_size', 'min_fee_reference_scripts']
EXC = {'ValueError': 'EValue', 'TypeError': 'EType', 'OverflowError': 'EOverflow', 'KeyError': 'EKey'}
BINOP = {ast.Mult: 'py_mul', ast.Add: 'py_add', ast.Sub: 'py_sub'}


class Untranslatable(Exception):
    pass


def bad(node, why=''):
    raise Untranslatable(f'line {getattr(node, "lineno", "?")}: {type(node).__name__} {why}: '
                         f'{ast.unparse(node)[:80] if isinstance(node, ast.AST) else node}')


def hexfloat(x):
    h = float(x).hex()                      # e.g. 0x1.3333333333333p+0, -0x0.0p+0, inf, nan
    if 'x' not in h:
        raise Untranslatable('non-finite float literal')
    return f'({h})' if h.startswith('-') else h


class Fn:
    """Translation of one function."""

    def __init__(self, node, known):
        self.node, self.known = node, known       # known: name -> (n_value_params, defaults)
        self.name = node.name
        self.loops = []                           # lifted Fixpoints (text)
        self.uses_fuel = False
        a = node.args
        if a.vararg or a.kwarg or a.kwonlyargs or a.posonlyargs:
            bad(node, 'unsupported parameter kind')
        if not a.args or a.args[0].arg != 'context':
            bad(node, 'first parameter must be `context`')
        self.params = [x.arg for x in a.args[1:]]
        self.defaults = {}
        for x, d in zip(reversed(a.args), reversed(a.defaults)):
            if not (isinstance(d, ast.Constant) and type(d.value) is int):
                bad(d, 'default must be an int constant')
            self.defaults[x.arg] = d.value

    # ---------------------------------------------------------------- expressions
    def E(self, e, env):
        if isinstance(e, ast.Constant):
            if e.value is None:
                return 'VNone'
            if type(e.value) is bool:
                return f'(VBool {"true" if e.value else "false"})'
            if type(e.value) is int:
                return f'(VInt ({e.value}))'
            if type(e.value) is float:
                return f'(VFloat {hexfloat(e.value)})'
            bad(e, 'constant')
        if isinstance(e, ast.Name):
            if e.id not in env:
                bad(e, 'possibly unbound variable')
            return f'v_{e.id}'
        if isinstance(e, ast.Attribute):
            v = e.value
            if (isinstance(v, ast.Attribute) and v.attr == 'protocol_param' and isinstance(v.value, ast.Name)
                    and v.value.id == 'context' and e.attr in FIELDS):
                return f'({e.attr} (protocol_param v_context))'
            bad(e, 'attribute')
        if isinstance(e, ast.Subscript):
            if isinstance(e.slice, ast.Constant) and type(e.slice.value) is str and e.slice.value.isidentifier():
                return f'(py_getitem {self.E(e.value, env)} "{e.slice.value}")'
            bad(e, 'subscript')
        if isinstance(e, ast.BinOp):
            if type(e.op) not in BINOP:
                bad(e, 'operator')
            return f'({BINOP[type(e.op)]} {self.E(e.left, env)} {self.E(e.right, env)})'
        if isinstance(e, ast.UnaryOp) and isinstance(e.op, ast.Not):
            return f'(py_not {self.E(e.operand, env)})'
        if isinstance(e, ast.Compare):
            if len(e.ops) != 1:
                bad(e, 'chained comparison')
            op, r = e.ops[0], e.comparators[0]
            if isinstance(op, ast.Gt):
                return f'(py_gt {self.E(e.left, env)} {self.E(r, env)})'
            if isinstance(op, ast.Lt):
                return f'(py_gt {self.E(r, env)} {self.E(e.left, env)})' if self.pure(e.left) and self.pure(r) else bad(e, 'order')
            if isinstance(op, ast.Is) and isinstance(r, ast.Constant) and r.value is None:
                return f'(py_is_none {self.E(e.left, env)})'
            if isinstance(op, ast.IsNot) and isinstance(r, ast.Constant) and r.value is None:
                return f'(py_not (py_is_none {self.E(e.left, env)}))'
            bad(e, 'comparison')
        if isinstance(e, ast.BoolOp):
            f = 'py_or' if isinstance(e.op, ast.Or) else 'py_and'
            out = self.E(e.values[-1], env)
            for v in reversed(e.values[:-1]):
                out = f'({f} {self.E(v, env)} {out})'
            return out
        if isinstance(e, ast.Call):
            if e.keywords:
                bad(e, 'keyword arguments')
            fn = e.func
            if (isinstance(fn, ast.Attribute) and isinstance(fn.value, ast.Name) and fn.value.id == 'math'
                    and fn.attr == 'ceil' and len(e.args) == 1):
                return f'(py_ceil {self.E(e.args[0], env)})'
            if isinstance(fn, ast.Name) and fn.id == 'int' and len(e.args) == 1:
                return f'(py_int {self.E(e.args[0], env)})'
            if isinstance(fn, ast.Name) and fn.id == 'min' and len(e.args) == 2:
                return f'(py_min {self.E(e.args[0], env)} {self.E(e.args[1], env)})'
            if isinstance(fn, ast.Name) and fn.id in self.known:
                callee = self.known[fn.id]
                if not (e.args and isinstance(e.args[0], ast.Name) and e.args[0].id == 'context'):
                    bad(e, 'first argument must be `context`')
                args = [self.E(x, env) for x in e.args[1:]]
                for p in callee.params[len(args):]:
                    if p not in callee.defaults:
                        bad(e, 'missing argument')
                    args.append(f'(VInt ({callee.defaults[p]}))')
                if len(args) != len(callee.params):
                    bad(e, 'arity')
                self.uses_fuel = True
                names = [f'a{i + 1}' for i in range(len(args))]
                out = f'g_{fn.id} fuel v_context ' + ' '.join(names)
                for n, a in reversed(list(zip(names, args))):      # arguments are evaluated left to right, strictly
                    out = f'py_let {a} (fun {n} => {out})'
                return f'({out})'
            bad(e, 'call')
        bad(e, 'expression')

    @staticmethod
    def pure(e):
        return isinstance(e, (ast.Name, ast.Constant))

    # ---------------------------------------------------------------- statements
    def exits(self, stmts):
        """True when every path through stmts ends in return/raise; False when none contains one; else fail."""
        def has_exit(ss):
            return any(isinstance(n, (ast.Return, ast.Raise)) for s in ss for n in ast.walk(s))
        if not has_exit(stmts):
            return False
        last = stmts[-1]
        if isinstance(last, (ast.Return, ast.Raise)):
            for s in stmts[:-1]:
                if isinstance(s, ast.While) and has_exit([s]):
                    bad(s, 'exit inside a loop')
            return True
        bad(stmts[-1], 'block with an exit on some paths only')

    def assigned(self, stmts):
        out = []
        for s in stmts:
            for n in ast.walk(s):
                if isinstance(n, (ast.Assign, ast.AugAssign)):
                    tg = n.targets[0] if isinstance(n, ast.Assign) else n.target
                    if not isinstance(tg, ast.Name) or (isinstance(n, ast.Assign) and len(n.targets) != 1):
                        bad(n, 'assignment target')
                    if tg.id not in out:
                        out.append(tg.id)
        return out

    @staticmethod
    def tup(vs):
        return '(' + ', '.join(f'v_{v}' for v in vs) + ')' if len(vs) != 1 else f'v_{vs[0]}'

    @staticmethod
    def pat(vs):
        return "'" + Fn.tup(vs) if len(vs) != 1 else f'v_{vs[0]}'

    def assign(self, s, env):
        """(variable, Coq expression) of a simple statement"""
        if isinstance(s, ast.Assign):
            if len(s.targets) != 1 or not isinstance(s.targets[0], ast.Name):
                bad(s, 'assignment target')
            return s.targets[0].id, self.E(s.value, env)
        if isinstance(s, ast.AugAssign):
            if not isinstance(s.target, ast.Name) or type(s.op) not in BINOP:
                bad(s, 'augmented assignment')
            if s.target.id not in env:
                bad(s, 'possibly unbound variable')
            return s.target.id, f'({BINOP[type(s.op)]} v_{s.target.id} {self.E(s.value, env)})'
        return None

    def T(self, stmts, env):
        """Function level: a pyval term. Every path must end in return/raise."""
        if not stmts:
            raise Untranslatable(f'{self.name}: a path falls off the end of the function')
        s, rest = stmts[0], stmts[1:]
        if isinstance(s, ast.Expr) and isinstance(s.value, ast.Constant) and isinstance(s.value.value, str):
            return self.T(rest, env)                                         # docstring
        if isinstance(s, ast.Return):
            if s.value is None:
                bad(s, 'bare return')
            return self.E(s.value, env)
        if isinstance(s, ast.Raise):
            return self.raise_(s)
        a = self.assign(s, env)
        if a:
            return f'py_let {a[1]} (fun v_{a[0]} =>\n {self.T(rest, env | {a[0]})})'
        if isinstance(s, ast.If):
            body_exits = self.exits(s.body)
            else_exits = self.exits(s.orelse) if s.orelse else False
            if body_exits and not s.orelse:
                return f'py_cond {self.E(s.test, env)}\n ({self.T(s.body, env)})\n ({self.T(rest, env)})'
            if body_exits and else_exits:
                return f'py_cond {self.E(s.test, env)}\n ({self.T(s.body, env)})\n ({self.T(s.orelse, env)})'
            if body_exits or else_exits:
                bad(s, 'if with an exit in one branch and an else')
        if isinstance(s, (ast.If, ast.While)):
            vs = [v for v in self.assigned([s]) if v in env]
            if not vs:
                bad(s, 'compound statement without effect on defined variables')
            blk = self.B([s], env, vs)
            return f'py_block ({blk})\n (fun {self.pat(vs)} => {self.T(rest, env)})'
        bad(s, 'statement')

    def raise_(self, s):
        x = s.exc
        if isinstance(x, ast.Call) and isinstance(x.func, ast.Name) and x.func.id in EXC:
            return f'(VErr {EXC[x.func.id]})'
        bad(s, 'raise')

    def B(self, stmts, env, out):
        """Block without exits: a term of type res (tuple of `out`)."""
        if not stmts:
            for v in out:
                if v not in env:
                    raise Untranslatable(f'{self.name}: {v} possibly unbound')
            return f'Ok {self.tup(out)}'
        s, rest = stmts[0], stmts[1:]
        a = self.assign(s, env)
        if a:
            return f'blk_let {a[1]} (fun v_{a[0]} =>\n {self.B(rest, env | {a[0]}, out)})'
        if isinstance(s, ast.If):
            if self.exits(s.body) or (s.orelse and self.exits(s.orelse)):
                bad(s, 'exit inside a block')
            vs = [v for v in self.assigned([s]) if v in env]
            if not vs:
                bad(s, 'if without effect on defined variables')
            els = self.B(s.orelse, env, vs) if s.orelse else f'Ok {self.tup(vs)}'
            inner = f'blk_cond {self.E(s.test, env)}\n ({self.B(s.body, env, vs)})\n ({els})'
            return f'blk_bind ({inner}) (fun {self.pat(vs)} =>\n {self.B(rest, env, out)})'
        if isinstance(s, ast.While):
            if s.orelse or any(isinstance(n, (ast.Break, ast.Continue, ast.Return, ast.Raise))
                               for x in s.body for n in ast.walk(x)):
                bad(s, 'while with else/break/continue/exit')
            vs = self.assigned(s.body)
            for v in vs:
                if v not in env:
                    bad(s, f'loop variable {v} not defined before the loop')
            used = {n.id for x in [s.test] + s.body for n in ast.walk(x) if isinstance(n, ast.Name)}
            free = [v for v in sorted(env) if v in used and v not in vs and v != 'context']
            uses_ctx = 'context' in used
            lname = f'g_{self.name}_loop{len(self.loops) + 1}'
            fparams = ('(v_context : context) ' if uses_ctx else '') + (f'({" ".join("v_" + v for v in free)} : pyval) ' if free else '')
            fargs = ('v_context ' if uses_ctx else '') + ''.join(f'v_{v} ' for v in free)
            sty = ' * '.join(['pyval'] * len(vs))
            body = self.B(s.body, env, vs)
            self.loops.append(
                f'Fixpoint {lname} (fuel : nat) {fparams}(st : {sty}) {{struct fuel}} : res ({sty}) :=\n'
                f' match fuel with\n | O => Err EFuel\n | S fuel\' =>\n'
                f'  let {self.pat(vs)} := st in\n'
                f'  blk_cond {self.E(s.test, env)}\n'
                f'   (blk_bind ({body})\n    (fun st\' => {lname} fuel\' {fargs}st\'))\n   (Ok st)\n end.\n')
            self.uses_fuel = True
            return f'blk_bind ({lname} fuel {fargs}{self.tup(vs)}) (fun {self.pat(vs)} =>\n {self.B(rest, env, out)})'
        bad(s, 'statement inside a block')

    def render(self):
        env = frozenset(['context'] + self.params)
        body = self.T(self.node.body, env)
        ps = ' '.join(f'v_{p}' for p in self.params)
        head = f'Definition g_{self.name} (fuel : nat) (v_context : context) ({ps} : pyval) : pyval :=\n '
        return ''.join(self.loops) + head + body + '.\n'


HEADER = '''(* GENERATED by tools/props/c07_translate.py from pycardano/utils.py — do not edit. *)
From Coq Require Import ZArith QArith String List Bool.
From Coq Require Import PrimFloat.
From PyC Require Import Fee.
Import ListNotations.
Open Scope string_scope.
'''


def translate(source, names=('tiered_reference_script_fee', 'fee', 'max_tx_fee')):
    tree = ast.parse(source)
    defs = {n.name: n for n in tree.body if isinstance(n, ast.FunctionDef)}
    known, out = {}, [HEADER]
    for nm in names:
        if nm not in defs:
            raise Untranslatable(f'function {nm} not found in utils.py')
        f = Fn(defs[nm], known)
        known[nm] = f                      # (a function may call the ones translated before it, and not itself)
        text = f.render()
        out.append(f'\n(* def {nm} — utils.py line {defs[nm].lineno} *)\n' + text)
    return ''.join(out)


if __name__ == '__main__':
    import sys
    print(translate(open(sys.argv[1]).read()))
