"""C06 — built transactions conserve value."""
import json, os
from lib import common as C
from props import alike as A
from lib.common import cz, cn, cbool, clist, cpair, copt

PID = 'C06'
TARGETS = ['props/C06.vo', 'theories/BalanceOracle.vo', 'theories/BalanceSelProofs.vo']
LEVEL = 'proof'
DRIVER = 'balance_driver'

# regions of genuine defects reported to the coordinator and not yet decided: kept out of oracle_fail
# (none at present: `pack-break-tiny-max-val-size` was fixed in /repo by d736adf)
KNOWN_REGIONS = []

MANIFEST = dict(
    text='Theorems (Coq, unbounded): _get_total_key_deposit = ledger deposits - refunds for every certificate list; whenever '
         '_calc_change returns, the change outputs add up to provided - requested exactly in ADA, and in every asset iff the '
         'packing covers the change bundle; _pack_tokens_for_change (modelled over an ARBITRARY size test) returns a partition '
         'of the change bundle whenever it returns; the body left by the two-pass _add_change_and_fee (any fee estimator, any '
         'min-ADA function, merge_change on/off) with its inputs resolved through the UTxO map satisfies the Conway balance '
         'equation; the selection step of build() (pool offered to the selectors = candidates not explicit / seen / excluded; '
         'self.inputs = explicit once + the answer): for EVERY selector answer within the contract "members of the offered pool, '
         'none twice" the distinctness premise holds and the body is balanced (C06_balanced_selected), and the contract is needed '
         '(C06_selection_contract_needed); liveness: what the selection must hand over for build() not to refuse (C06_live_after_selection), '
         'refuted at full strength by a concrete wallet (C06_live_selection_request_refuted = known finding '
         'C06-liveness-fee-of-selected-inputs) and decided on the implementation for ADA-only wallets with a clear margin. Model tied to the code by exact slice '
         'correspondence (incl. the offered pool and the contract evaluated on the real selectors\' answers, random state seeded per scenario); '
         'the ledger balance oracle is evaluated in Coq on the CBOR of the body that build() returned.',
    note='Trusted: Coq kernel+vm_compute; hand model Balance.v validated by differential runs; ledger rule as written in '
         'Balance.v (Balanced); body reader BalanceOracle.view_body; generator; driver. No axioms.',
    technique='Coq proof (fold invariants over Value.v content sums) + slice correspondence + end-to-end oracle on body bytes',
    ref='C06')
TRUSTED = [
    'Coq 8.16.1 kernel incl. vm_compute (no native_compute); no axioms (see Print Assumptions lines)',
    'the ledger rule as transcribed in coq/theories/Balance.v (cert, deposits, refunds, Balanced) and the body reader '
    'BalanceOracle.view_body (CBOR bytes -> inputs, outputs, fee, certificates, withdrawals, mint, proposals, donation)',
    'hand model coq/theories/Balance.v of txbuilder.py (_get_total_key_deposit, _get_total_proposal_deposit, _calc_change, '
    '_pack_tokens_for_change, _add_change_and_fee/_merge_changes, accounting of build() before selection), on top of Value.v; '
    'tied by correspondence: exact change outputs (order, raw bundles), exception kinds, deposits, selector request, packing, '
    'min-ADA and serialized value sizes',
    'hand model coq/theories/BalanceSel.v of the selection step of build() (additional_utxo_pool, seen / excluded filtering, '
    'appending the answer to self.inputs); tied by correspondence: the pool recorded at the selectors\' entry (same UTxOs, same order)',
    'fee estimates (_estimate_fee) and the selectors\' answers enter the model as data recorded from the implementation; the answers '
    'are checked against the contract selection_ok on every run (that the selector algorithms keep it for all random streams is C14)',
    'tools/impl/balance_driver.py (ChainContext serving the scenario UTxO map, recording wrappers that call the real methods), '
    'tools/props/c06.py (generator, Coq literal printer)',
]
ASSUMPTIONS = [
    'the chain context reports each transaction input with one output (UTxO map is a function); amounts of UTxOs are non-negative',
    'initial_stake_pool_registration tells the truth about the chain: true = none of the registered pools exists yet, false = all do; '
    'legacy deregistration refunds the current key_deposit',
    'script-free transactions (native minting scripts only): Plutus collateral / execution units are outside this property',
    'dict keys are unique (Python dict); typeguard / constructor validation outside the model (well-typed operands only)',
]

ADA = 1000000
ADDRS = ['60' + '11' * 28, '60' + 'a2' * 28, '00' + '33' * 28 + '44' * 28, '60' + '05' * 28, '70' + '5c' * 28]
REWARD = ['e0' + '55' * 28, 'e0' + '56' * 28, 'f0' + '57' * 28]
NAMES = ['', '00', '61', '62', 'ff', '6161', '746f6b656e', '61' * 23, '62' * 24, '00' * 31, '61' * 32, 'ff' * 32, '544f4b454e']
PPS = [dict(a=44, b=155381, cpb=4310, mvs=5000, kd=2000000, pd=500000000),
       dict(a=44, b=155381, cpb=4310, mvs=5000, kd=2000000, pd=500000000),
       dict(a=44, b=155381, cpb=4310, mvs=200, kd=2000000, pd=500000000),
       dict(a=44, b=155381, cpb=4310, mvs=120, kd=400000, pd=0),
       dict(a=1, b=100, cpb=1000, mvs=5000, kd=0, pd=500000000),            # fee < 2^16
       dict(a=0, b=0, cpb=4310, mvs=300, kd=2000000, pd=1000000),            # fee 0
       dict(a=1000, b=10000000, cpb=34482, mvs=1000, kd=2000000, pd=500000000),   # fee ~ 1e7, min ADA ~ 8
       dict(a=20000000, b=1, cpb=4310, mvs=5000, kd=2000000, pd=500000000),   # fee > 2^32
       dict(a=220, b=0, cpb=100000, mvs=100, kd=1, pd=1)]                    # fee around 2^16
_POL = {}


def policies():
    if 'p' not in _POL:
        r = C.run_impl(DRIVER, {'cases': [{'kind': 'prep', 'n': 6}]}, nshards=1)[0]
        _POL['p'] = r['policies']
    return _POL['p']


# ---------------------------------------------------------------- generator
def rand_ma(rng, pols, maxp=3, maxn=3, big=False):
    lit = []
    for p in rng.sample(pols, rng.randint(1, min(maxp, len(pols)))):
        ns = rng.sample(NAMES, rng.randint(1, maxn))
        qs = [1, 2, 5, 100, 1000000, 2 ** 32, 2 ** 63 - 1] if big else [1, 2, 3, 5, 7, 100, 1000000]
        lit.append([p, [[n, rng.choice(qs)] for n in ns]])
    return lit


def ma_total(mas):
    t = {}
    for m in mas:
        for p, a in m:
            for n, q in a:
                t[(p, n)] = t.get((p, n), 0) + q
    return t


def to_ma(t):
    out = {}
    for (p, n), q in t.items():
        out.setdefault(p, []).append([n, q])
    return [[p, a] for p, a in out.items()]


def rand_cred(rng):
    return [1 if rng.random() < 0.2 else 0, '%02x' % rng.randrange(0x60, 0x80) * 28]


def rand_cert(rng, pp):
    kd = pp['kd']
    coin = rng.choice([kd, kd, 2000000, 1, 0, 500000000])
    k = rng.choice(['reg', 'dereg', 'deleg', 'poolreg', 'poolret', 'reg7', 'reg7', 'unreg8', 'vote9', 'svd10', 'reg11',
                    'reg12', 'reg13', 'auth14', 'resign15', 'drepreg16', 'drepunreg17', 'drepupd18'])
    pool = '%02x' % rng.randrange(0x90, 0x94) * 28
    dr = rng.choice([None, rand_cred(rng)])
    if k in ('reg', 'dereg'):
        return [k, rand_cred(rng)]
    if k == 'deleg':
        return [k, rand_cred(rng), pool]
    if k == 'poolreg':
        return [k, pool, ['%02x' % rng.randrange(0x94, 0x98) * 28]]
    if k == 'poolret':
        return [k, pool, rng.randrange(500, 600)]
    if k in ('reg7', 'unreg8'):
        return [k, rand_cred(rng), coin]
    if k == 'vote9':
        return [k, rand_cred(rng), dr]
    if k == 'svd10':
        return [k, rand_cred(rng), pool, dr]
    if k == 'reg11':
        return [k, rand_cred(rng), pool, coin]
    if k == 'reg12':
        return [k, rand_cred(rng), dr, coin]
    if k == 'reg13':
        return [k, rand_cred(rng), pool, dr, coin]
    if k == 'auth14':
        return [k, rand_cred(rng), rand_cred(rng)]
    if k == 'resign15':
        return [k, rand_cred(rng), rng.choice([None, 3])]
    if k == 'drepreg16':
        return [k, rand_cred(rng), rng.choice([500000000, coin]), rng.choice([None, 4])]
    if k == 'drepunreg17':
        return [k, rand_cred(rng), rng.choice([500000000, coin])]
    return [k, rand_cred(rng), rng.choice([None, 5])]


def cert_net(c, pp, initial, seen):
    """net ADA the certificate costs (generator-side estimate, only used to fund the wallet)"""
    k = c[0]
    if k == 'reg':
        return pp['kd']
    if k == 'dereg':
        return -pp['kd']
    if k in ('reg7', 'reg11', 'reg12', 'reg13'):
        return c[-1]
    if k == 'drepreg16':
        return c[2]
    if k in ('unreg8', 'drepunreg17'):
        return -c[2]
    if k == 'poolreg' and initial and c[1] not in seen:
        seen.add(c[1])
        return pp['pd']
    return 0


def gen_e2e(rng, force=None):
    force = force or {}
    pp = dict(force.get('pp') or rng.choice(PPS))
    pol_mint = policies()
    pols = pol_mint[:3] + ['aa' * 28, '00' * 27 + '01', 'ff' * 28]
    wallet = rng.choice(ADDRS[:3])
    change = wallet if rng.random() < 0.8 else rng.choice(ADDRS[:4])
    flavour = force.get('flavour') or rng.choice(['ada', 'ada', 'multi', 'multi', 'heavy'])
    n = rng.randint(1, 12)
    big_fee = pp['a'] >= 1000
    utxos = []
    seen_in = set()
    txids = ['%064x' % rng.getrandbits(256) for _ in range(max(1, n // 2 + 1))]
    for k in range(n):
        while True:
            t, i = rng.choice(txids), rng.randrange(0, 4)
            if (t, i) not in seen_in:
                seen_in.add((t, i)); break
        coin = rng.choice([1200000, 2 * ADA, 5 * ADA, 5 * ADA, 10 * ADA, 37 * ADA + 123, 100 * ADA, 1500 * ADA])
        if big_fee:
            coin *= rng.choice([50, 5000])
        if flavour == 'ada' or (flavour == 'multi' and rng.random() < 0.5):
            m = []
        else:
            m = rand_ma(rng, pols, maxp=3 if flavour == 'multi' else 5, maxn=3 if flavour == 'multi' else 6,
                        big=rng.random() < 0.2)
            coin = max(coin, 3 * ADA)
        a = wallet if rng.random() < 0.85 else rng.choice(ADDRS[:3])
        utxos.append(dict(t=t, i=i, a=a, c=coin, m=m))
    mode = rng.choice(['explicit', 'address', 'address', 'mixed', 'mixed'])
    explicit, addr_inputs, potential = [], [], []
    idx = list(range(n))
    if mode == 'explicit':
        explicit = rng.sample(idx, rng.randint(1, n))
    elif mode == 'address':
        addr_inputs = [wallet]
    else:
        explicit = rng.sample(idx, rng.randint(1, max(1, n // 2)))
        addr_inputs = [wallet] if rng.random() < 0.8 else [wallet, wallet]
        if rng.random() < 0.3:
            potential = rng.sample(idx, rng.randint(1, n))
    if explicit and rng.random() < 0.15:
        explicit.append(rng.choice(explicit))           # the same UTxO registered twice
    # requested outputs
    merge = rng.random() < 0.4
    outs = []
    have = ma_total([utxos[k]['m'] for k in (explicit or idx)])
    for _ in range(rng.randint(0, 4)):
        a = change if (merge and rng.random() < 0.5) else rng.choice(ADDRS)
        coin = rng.choice([0 if a == change else 2 * ADA, 1500000, 2 * ADA, 3 * ADA, 10 * ADA])
        if big_fee:
            coin *= 20
        m = []
        if have and rng.random() < 0.4:
            ks = rng.sample(sorted(have), rng.randint(1, min(2, len(have))))
            t = {}
            for key in ks:
                q = rng.randint(1, max(1, min(have[key], 5)))
                t[key] = q
                have[key] -= q
                if have[key] <= 0:
                    del have[key]
            m = to_ma(t)
            coin = max(coin, 2 * ADA)
        outs.append(dict(a=a, c=coin, m=m))
    # mint / burn
    mint, scripts = None, []
    r = rng.random()
    if r < 0.35:
        t = {}
        for _ in range(rng.randint(1, 3)):
            key = (rng.choice(pol_mint[:3]), rng.choice(NAMES))
            if rng.random() < 0.6 or not have:
                t[key] = rng.choice([1, 5, 1000, 2 ** 40])
            else:
                hk = [k for k in sorted(have) if k[0] in pol_mint[:3]]
                if hk:
                    key = rng.choice(hk)
                    t[key] = -rng.randint(1, have[key]) if rng.random() < 0.8 else -(have[key] + 1)
                else:
                    t[key] = 3
        mint = to_ma(t)
        if rng.random() < 0.7:
            scripts = sorted({pol_mint.index(p) for p, _ in mint})
        if rng.random() < 0.3 and outs:
            # send a freshly minted token to a requested output
            (p, a0) = mint[0]
            if a0[0][1] > 0:
                outs[0]['m'] = outs[0]['m'] + [[p, [[a0[0][0], 1]]]] if all(x[0] != p for x in outs[0]['m']) else outs[0]['m']
                outs[0]['c'] = max(outs[0]['c'], 2 * ADA)
    wdrl = None
    if rng.random() < 0.35:
        wdrl = [[ra, rng.choice([0, 1, 777, 5 * ADA, 50 * ADA])] for ra in rng.sample(REWARD, rng.randint(1, 2))]
    certs = None
    initial = rng.random() < 0.6
    if rng.random() < 0.5:
        certs = [rand_cert(rng, pp) for _ in range(rng.randint(1, 4))]
        if rng.random() < 0.25:
            certs.append(list(certs[0]))                   # e.g. two registrations with equal coin
        if rng.random() < 0.2:
            certs.append(['reg7', rand_cred(rng), 2000000]); certs.append(['reg7', rand_cred(rng), 2000000])
    props = []
    if rng.random() < 0.25:
        for k in range(rng.randint(1, 2)):
            props.append([rng.choice([1000000, 100000 * ADA, 5 * ADA]), rng.choice(REWARD), k])
        if rng.random() < 0.2:
            props.append(list(props[0]))                    # the same proposal twice: an ordered set keeps one
    donation = rng.choice([1, 1234567, 10 * ADA]) if rng.random() < 0.25 else None
    case = dict(kind='e2e', pp=pp, utxos=utxos, explicit=explicit, addr_inputs=addr_inputs, potential=potential,
                outs=outs, mint=mint, scripts=scripts, wdrl=wdrl, certs=certs, pool_initial=initial, props=props,
                donation=donation, change=change, merge=merge,
                fee_buffer=rng.choice([None, None, None, 0, 1000, 70000]),
                treasury=rng.choice([None, 10 ** 15]),
                order=rng.sample(range(11), 11) if rng.random() < 0.6 else None, rseed=rng.getrandbits(32))
    # fund the wallet so that most scenarios build: one more UTxO covering deposits, donation, outputs
    seen = set()
    need = sum(cert_net(c, pp, initial, seen) for c in (certs or [])) + sum(p[0] for p in props) + (donation or 0) \
        + sum(o['c'] for o in outs)
    if rng.random() < 0.85 and need > 0:
        coin = need + rng.choice([3, 10, 200]) * ADA * (50 if big_fee else 1)
        t = '%064x' % rng.getrandbits(256)
        utxos.append(dict(t=t, i=0, a=wallet, c=coin, m=[]))
        if mode == 'explicit' or (mode == 'mixed' and rng.random() < 0.5):
            case['explicit'].append(len(utxos) - 1)
    return case


def gen_sel(rng):
    """selection-rich scenario: the inputs are left (mostly) to the default selectors, and the wallet gives them a real
    choice — a few large ADA-only UTxOs and several small UTxOs carrying a little of a few fungible assets; the request has
    ADA and 0..4 native assets (sent to outputs and / or burned), so that RandomImproveMultiAsset runs its random-select and
    improve phases once per requested asset kind.  The state of `random` (rseed) is part of the scenario."""
    pp = dict(rng.choice(PPS + PPS[:2]))
    pol_mint = policies()
    pols = pol_mint[:3] + ['aa' * 28, 'ff' * 28]
    U = max(ADA, pp['a'] * 500 + pp['b'])                 # about one fee
    wallet = rng.choice(ADDRS[:3])
    change = wallet if rng.random() < 0.8 else rng.choice(ADDRS[:4])
    kinds = [(rng.choice(pols), rng.choice(NAMES)) for _ in range(rng.randint(1, 4))]
    kinds = dedup(kinds)
    n_big = rng.randint(1, 4)
    n_small = rng.randint(min(4, 12 - n_big), 12 - n_big)
    txids = ['%064x' % rng.getrandbits(256) for _ in range(rng.randint(1, 6))]
    seen_in, utxos = set(), []

    def fresh():
        while True:
            t, i = rng.choice(txids), rng.randrange(0, 16)
            if (t, i) not in seen_in:
                seen_in.add((t, i))
                return t, i
    for k in range(n_big + n_small):
        t, i = fresh()
        if k < n_big:
            coin, m = rng.randint(8, 30) * U + rng.randrange(0, 1000), []
        else:
            coin = rng.randint(12, 30) * U // 10
            t_ = {}
            for key in rng.sample(kinds, rng.randint(1, min(2, len(kinds)))):
                t_[key] = rng.choice([1, 1, 1, 2, 2, 3, 5, 10])
            m = to_ma(t_) if rng.random() < 0.9 else []
        a = wallet if rng.random() < 0.95 else rng.choice(ADDRS[:3])
        utxos.append(dict(t=t, i=i, a=a, c=coin, m=m))
    rng.shuffle(utxos)
    n = len(utxos)
    idx = list(range(n))
    mode = rng.choice(['address', 'address', 'mixed'])
    explicit, potential, excluded = [], [], []
    addr_inputs = [wallet] if rng.random() < 0.9 else [wallet, rng.choice(ADDRS[:3])]
    if mode == 'mixed':
        explicit = rng.sample(idx, rng.randint(1, 2))
        if rng.random() < 0.4:
            potential = rng.sample(idx, rng.randint(1, n))
    if rng.random() < 0.15:
        excluded = [k for k in rng.sample(idx, rng.randint(1, 2)) if k not in explicit]
    have = ma_total([u['m'] for k, u in enumerate(utxos) if k not in excluded and u['a'] == wallet])
    total_big = sum(u['c'] for u in utxos if not u['m'] and u['a'] == wallet)
    want_ada = int(total_big * rng.choice([0.15, 0.3, 0.5, 0.7, 0.7, 0.85]))
    merge = rng.random() < 0.2
    outs = []
    nout = rng.randint(1, 3)
    for k in range(nout):
        a = change if (merge and k == 0) else rng.choice(ADDRS)
        outs.append(dict(a=a, c=max(want_ada // nout, 2 * U), m=[]))
    asked = rng.sample(sorted(have), rng.randint(0 if rng.random() < 0.2 else 1, min(4, len(have)))) if have else []
    burn = {}
    for key in asked:
        q = rng.randint(1, max(1, have[key] // rng.choice([2, 3, 3, 4])))
        if key[0] in pol_mint[:3] and rng.random() < 0.3:
            burn[key] = -q
        else:
            o = rng.choice(outs)
            t_ = ma_total([o['m']]); t_[key] = t_.get(key, 0) + q
            o['m'] = to_ma(t_)
    mint, scripts = None, []
    if burn or rng.random() < 0.1:
        t_ = dict(burn)
        if rng.random() < 0.3:
            t_[(rng.choice(pol_mint[:3]), rng.choice(NAMES))] = rng.choice([1, 5, 1000])
        t_ = {k: v for k, v in t_.items() if v}
        if t_:
            mint = to_ma(t_)
            scripts = sorted({pol_mint.index(p) for p, _ in mint})
    wdrl = [[rng.choice(REWARD), rng.choice([777, 5 * ADA])]] if rng.random() < 0.15 else None
    certs = [rand_cert(rng, pp) for _ in range(rng.randint(1, 2))] if rng.random() < 0.15 else None
    donation = rng.choice([1, 1234567]) if rng.random() < 0.1 else None
    return dict(kind='e2e', pp=pp, utxos=utxos, explicit=explicit, addr_inputs=addr_inputs, potential=potential,
                excluded=excluded, outs=outs, mint=mint, scripts=scripts, wdrl=wdrl, certs=certs,
                pool_initial=rng.random() < 0.6, props=[], donation=donation, change=change, merge=merge,
                fee_buffer=rng.choice([None, None, None, 1000]), treasury=None,
                order=rng.sample(range(11), 11) if rng.random() < 0.5 else None, rseed=rng.getrandbits(32), sel=True)


def gen_calc(rng):
    """slice scenario: every listed UTxO is an input of _calc_change"""
    c = gen_e2e(rng, force={'flavour': rng.choice(['multi', 'heavy', 'heavy', 'ada'])})
    c['kind'] = 'calc'
    c['ins'] = list(range(len(c['utxos'])))
    if rng.random() < 0.5:
        c['pp']['mvs'] = rng.choice([100, 110, 130, 160, 200, 300, 600])
    pp = c['pp']
    c['fee'] = rng.choice([0, 1, 155381, 170000, 200000, 2 ** 16, 2 ** 32, 3 * ADA]) * (1 if pp['a'] < 1000 else 100)
    c['respect'] = rng.random() < 0.7
    c['explicit'] = []; c['addr_inputs'] = []; c['potential'] = []
    return c


def gen_pack(rng):
    pp = dict(rng.choice(PPS))
    pp['mvs'] = rng.choice([30, 60, 80, 85, 90, 100, 110, 120, 140, 170, 200, 260, 400, 5000])
    pols = policies()[:2] + ['aa' * 28, '00' * 27 + '01', 'ff' * 28, 'ab' * 28]
    ma = rand_ma(rng, pols, maxp=5, maxn=6, big=rng.random() < 0.4)
    coin = rng.choice([0, 1, 1000000, 5 * ADA, 2 ** 32, 2 ** 63])
    probes = [[coin, ma], [0, ma[:1]], [rng.choice([0, 23, 24, 2 ** 16, 2 ** 32, 2 ** 64 - 1]), []]]
    return dict(kind='pack', pp=pp, utxos=[], change=rng.choice(ADDRS[:3]), val=[coin, ma], probes=probes)


def corpus_cases():
    p = os.path.join(C.VERIF, 'corpus', 'C06.json')
    return json.load(open(p))['cases'] if os.path.exists(p) else []


# ---------------------------------------------------------------- rendering
_INTERN = {}


def chx(b):
    """byte-string literal; long ones are bound once per cases file (elaborating literals dominates coqc time)"""
    h = bytes(b).hex()
    if len(h) < 12:
        return C.chx(b)
    if h not in _INTERN:
        _INTERN[h] = f'h{len(_INTERN)}'
    return _INTERN[h]


def r_asset(a):
    return clist([cpair(chx(bytes.fromhex(n)), cz(q)) for n, q in a])


def r_ma(m):
    return clist([cpair(chx(bytes.fromhex(p)), r_asset(a)) for p, a in (m or [])])


def r_val(v):
    return f'(mkValue {cz(v[0])} {r_ma(v[1])})'


def r_utxo(u):
    return f'(mkU {chx(bytes.fromhex(u["t"]))} {cn(u["i"])} {chx(bytes.fromhex(u["a"]))} {r_val([u["c"], u["m"]])})'


CERT = {'reg': 'StakeReg', 'dereg': 'StakeDereg', 'deleg': 'StakeDeleg', 'poolret': 'PoolRetire', 'vote9': 'VoteDeleg',
        'svd10': 'StakeVoteDeleg', 'auth14': 'AuthHot', 'resign15': 'ResignCold', 'drepupd18': 'UpdateDRep'}


def r_cert(c):
    k = c[0]
    if k in CERT:
        return CERT[k]
    if k == 'poolreg':
        return f'(PoolReg {chx(bytes.fromhex(c[1]))})'
    if k in ('reg7', 'reg11', 'reg12', 'reg13'):
        return f'({ {"reg7": "RegConway", "reg11": "RegDeleg", "reg12": "RegVoteDeleg", "reg13": "RegDelegVoteDeleg"}[k]} {cz(c[-1])})'
    if k == 'unreg8':
        return f'(UnregConway {cz(c[2])})'
    if k == 'drepreg16':
        return f'(RegDRep {cz(c[2])})'
    if k == 'drepunreg17':
        return f'(UnregDRep {cz(c[2])})'
    raise ValueError(k)


def dedup(l):
    out = []
    for x in l:
        if x not in out:
            out.append(x)
    return out


def r_state(c):
    props = [p[0] for p in dedup([tuple(p) for p in c.get('props') or []])]      # an ordered set of proposals
    return (f'(mkB {r_ma(c.get("mint"))} {clist([cz(w[1]) for w in c.get("wdrl") or []])} '
            f'{clist([r_cert(x) for x in c.get("certs") or []])} {cbool(c.get("pool_initial", False))} '
            f'{clist([cz(p) for p in props])} {cz(c.get("donation") or 0)} {cz(c["pp"]["kd"])} {cz(c["pp"]["pd"])})')


def r_sctx(c):
    return f'(mkS {cz(c["pp"]["cpb"])} {cz(c["pp"]["mvs"])} {chx(bytes.fromhex(c["change"]))})'


ERRK = {'InvalidTransactionException': 1, 'InsufficientUTxOBalanceException': 2}


def r_ires(res, payload):
    if res[0] == 'ok':
        return f'(IOk {payload(res[1])})'
    return f'(IErr {cn(ERRK.get(res[1], 0))})'


def r_txin(ti):
    return cpair(chx(bytes.fromhex(ti[0])), cn(ti[1]))


def render_case(c, r, j):
    """-> (definitions, list of correspondence bools, oracle bool) as Coq text; big literals are bound to names once"""
    defs = [f'Definition st{j} : bstate := {r_state(c)}.', f'Definition sx{j} : sctx := {r_sctx(c)}.']
    st, s = f'st{j}', f'sx{j}'
    k = c['kind']
    if k == 'pack':
        defs.append(f'Definition v{j} : value := {r_val(c["val"])}.')
        defs.append(f'Definition im{j} : ires (list masset) := {r_ires(r["res"], lambda l: clist([r_ma(m) for m in l]))}.')
        corr = [f'corr_pack {s} v{j} im{j}']
        for pv, pr in zip(c['probes'], r['probes']):
            corr.append(f'corr_probe {s} {r_val(pv)} {cz(pr[0])} {cz(pr[1])}' if pr[0] != 'err' else 'false')
        return defs, corr, f'pack_oracle v{j} im{j}'
    defs.append(f'Definition um{j} : list utxo := {clist([r_utxo(u) for u in c["utxos"]])}.')
    defs.append(f'Definition ov{j} : list (bytes * value) := '
                f'{clist([cpair(chx(bytes.fromhex(o["a"])), r_val([o["c"], o["m"]])) for o in c["outs"]])}.')
    pick = lambda idx: f'(pick um{j} {clist([C.cnat(i) for i in idx])})'
    if k == 'calc':
        defs.append(f'Definition im{j} : ires (list value) := {r_ires(r["res"], lambda l: clist([r_val(v) for v in l]))}.')
        ins = f'(map u_val {pick(c["ins"])})'
        corr = [f'corr_deposits {st} {cz(r["kd"])} {cz(r["pd"])}' if r.get('kd') is not None and r.get('pd') is not None else 'false',
                f'corr_calc {s} {st} {cbool(c["respect"])} {cz(c["fee"])} {ins} (map snd ov{j}) im{j}',
                cbool(r.get('addr_ok', True))]
        return defs, corr, f'calc_oracle {st} {cz(c["fee"])} {ins} (map snd ov{j}) im{j}'
    # e2e
    pos = {(u['t'], u['i']): n for n, u in enumerate(c['utxos'])}
    corr = [f'corr_deposits {st} {cz(r["kd"])} {cz(r["pd"])}' if 'kd' in r else 'false']
    log = r['log']
    fees = log['fees']
    explicit = pick(c['explicit'])
    can_merge = bool(c['merge']) and any(o['a'] == c['change'] for o in c['outs'])
    if fees:
        req = copt(r_val(log['sel'][0]['req'][0])) if log['sel'] else 'None'
        corr.append(f'corr_presel {s} {st} {explicit} (map snd ov{j}) {cz(fees[0])} {cbool(not can_merge)} {req}')
    else:
        corr.append('true')
    # the selection step: the pool the selectors were offered, their answer against the contract (BalanceSel.v)
    excl, pot = pick(c.get('excluded') or []), pick(c.get('potential') or [])
    addrs = clist([chx(bytes.fromhex(a)) for a in c.get('addr_inputs') or []])
    selargs = f'um{j} {explicit} {excl} {pot} {addrs}'
    sel_ok = [x for x in log['sel'] if x.get('res', ['err'])[0] == 'ok']
    selected = clist([r_txin(t) for t in (sel_ok[-1]['res'][1] if sel_ok else [])])
    if log['sel']:
        pool = log['sel'][0]['pool']
        corr.append(f'corr_pool {selargs} {clist([r_txin(t) for t in pool])}' if all(x['pool'] == pool for x in log['sel'])
                    else 'false')
        corr.append(f'corr_selok {selargs} {selected}')
    else:
        corr += ['true', 'true']
    binputs = r.get('binputs')
    if binputs is not None and len(fees) >= 2 and all(tuple(t) in pos for t in binputs):
        defs.append(f'Definition in{j} : list utxo := {pick([pos[tuple(t)] for t in binputs])}.')
        corr.append(f'corr_sel_model {selargs} {selected} in{j}')
        if r['body'] is not None:
            defs.append(f'Definition bd{j} : bytes := {chx(bytes.fromhex(r["body"]))}.')
            impl = f'(IOk ({clist([cpair(chx(bytes.fromhex(o[0])), r_val(o[1])) for o in r["outs"]])}, {cz(r["fee"])}))'
            corr.append(f'corr_acf {s} {st} {cbool(c["merge"])} (map u_val in{j}) ov{j} {cz(fees[1])} {cz(fees[2])} {impl}')
            corr.append(f'corr_body {st} in{j} bd{j}')
        elif len(fees) == 2:
            corr.append(f'corr_acf1 {s} {st} {cbool(c["merge"])} (map u_val in{j}) ov{j} {cz(fees[1])} {cn(ERRK.get(r["err"], 0))}')
        else:
            corr.append(f'corr_acf {s} {st} {cbool(c["merge"])} (map u_val in{j}) ov{j} {cz(fees[1])} {cz(fees[2])} '
                        f'(IErr {cn(ERRK.get(r["err"], 0))})')
    elif r['body'] is not None:
        defs.append(f'Definition bd{j} : bytes := {chx(bytes.fromhex(r["body"]))}.')
        corr.append('false')                     # a body without the recorded trace: the harness lost track
    corr.append(cbool(bool(r.get('pool_untouched', True))))
    if r['body'] is not None:
        orc = f'c06_oracle {cz(c["pp"]["kd"])} {cz(c["pp"]["pd"])} {cbool(c.get("pool_initial", False))} um{j} bd{j}'
    else:
        orc = 'true'
    return defs, corr, orc


HEADER = '''From Coq Require Import ZArith NArith List String Bool.
From PyC Require Import Base Cbor Dict Value Balance BalanceOracle.
Import ListNotations.
Open Scope string_scope.
'''


def render(part):
    items, body = [], ''
    _INTERN.clear()
    for j, (c, r) in enumerate(part):
        defs, corr, orc = render_case(c, r, j)
        body += '\n'.join(defs) + f'\nDefinition k{j} : list bool * bool := ({clist(corr)}, {orc}).\n'
        items.append(f'({j}%nat, k{j})')
    body = ''.join(f'Definition {n} : bytes := hx "{h}".\n' for h, n in _INTERN.items()) + body
    body += 'Definition cases : list (nat * (list bool * bool)) :=\n' + clist(items) + '.\n'
    body += 'Definition res := Eval vm_compute in (map (fun c => (fst c, (first_false (fst (snd c)), snd (snd c)))) cases).\n'
    body += 'Eval vm_compute in (map fst (filter (fun c => negb (Nat.eqb (fst (snd c)) 0)) res)).\n'
    body += 'Eval vm_compute in (map fst (filter (fun c => negb (snd (snd c))) res)).\n'
    body += 'Eval vm_compute in (map (fun c => fst (snd c)) res).\n'
    return body


def evaluate(cases, results, shard=60):
    """-> (mismatch {idx: failing component}, oracle_fail set, compile errors)"""
    mism, ofail, errs = {}, set(), []
    good = []
    for i, (c, r) in enumerate(zip(cases, results)):
        if 'driver_error' in r:
            mism[i] = -1; ofail.add(i)
        else:
            good.append((i, c, r))
            if c.get('live') and r.get('body') is None:
                ofail.add(i)                      # liveness: funds exceed the request by the clear margin, yet no transaction
    shards, maps = [], []
    for k in range(0, len(good), shard):
        part = good[k:k + shard]
        shards.append(render([(c, r) for _, c, r in part]))
        maps.append([i for i, _, _ in part])
    for (ok, lists, log), mp in zip(C.run_cases(PID, shards, HEADER), maps):
        if not ok or len(lists) != 3:
            errs.append(log[-2500:])
            continue
        for j in lists[0]:
            mism[mp[j]] = lists[2][j]
        ofail.update(mp[j] for j in lists[1])
    return mism, ofail, errs


# ---------------------------------------------------------------- classification
def gen_live(rng):
    """LIVENESS scenario: an ADA-only wallet at one address (enterprise or base) whose funds exceed the request by a clear
    margin (LIVE_MARGIN: several times the largest fee plus the minimum ADA of a change output); nothing minted, no
    certificates.  The request is aimed at the boundaries of the selection: the sum of the j largest UTxOs minus about one
    fee and one minimum change, +- a few ten thousand lovelace — where what a selector returned for the request it was
    given (fee estimated BEFORE the selected inputs were added) just about leaves the change its minimum ADA.
    The property demands a transaction; a refusal is a violation."""
    pp = dict(rng.choice([PPS[0], PPS[0], PPS[0], PPS[4]]))
    wallet = rng.choice([ADDRS[0], ADDRS[2], ADDRS[2]])
    n = rng.randint(3, 12)
    unit = rng.choice([3, 5, 10, 10, 25]) * ADA
    txids = ['%064x' % rng.getrandbits(256) for _ in range(rng.randint(1, 4))]
    utxos, seen = [], set()
    for k in range(n):
        while True:
            t, i = rng.choice(txids), rng.randrange(0, 40)
            if (t, i) not in seen:
                seen.add((t, i)); break
        coin = unit if rng.random() < 0.6 else rng.choice([unit // 2, unit + 1234567, 2 * unit, unit - 1000])
        utxos.append(dict(t=t, i=i, a=wallet, c=coin, m=[]))
    coins = sorted((u['c'] for u in utxos), reverse=True)
    total = sum(coins)
    margin = live_margin(pp)
    js = [j for j in range(1, n) if total - sum(coins[:j]) >= margin]
    if not js:
        return gen_live(rng)
    j = rng.choice(js)
    fee_guess = pp['a'] * rng.choice([250, 300, 330, 400]) + pp['b']
    minchg_guess = (160 + rng.choice([65, 94])) * pp['cpb']
    want = sum(coins[:j]) - fee_guess - minchg_guess + rng.randrange(-40000, 40001, 50)
    if rng.random() < 0.25:
        want = rng.randint(2 * ADA, max(2 * ADA, total - margin))
    want = max(want, 2 * ADA)
    if total - want < margin:
        return gen_live(rng)
    nout = rng.choice([1, 1, 2])
    outs = [dict(a=rng.choice(ADDRS[:4]), c=want // nout if k else want - (want // nout) * (nout - 1), m=[]) for k in range(nout)]
    if any(o['c'] < 1500000 for o in outs):
        outs = [dict(a=ADDRS[1], c=want, m=[])]
    return dict(kind='e2e', pp=pp, utxos=utxos, explicit=[], addr_inputs=[wallet], potential=[], excluded=[], outs=outs,
                mint=None, scripts=[], wdrl=None, certs=None, pool_initial=False, props=[], donation=None, change=wallet,
                merge=False, fee_buffer=None, treasury=None, order=None, rseed=rng.getrandbits(32), sel=True, live=True,
                selectors=rng.choice([None, None, 'lf', 'lf', 'ri']))


def live_margin(pp):
    """the 'clear margin' of the liveness clause: 3 x (largest fee a transaction can need + minimum ADA of a change output)"""
    maxfee = pp['a'] * pp.get('mts', 16384) + pp['b'] + 807800 + 721000
    return 3 * (maxfee + (160 + 100) * pp['cpb'])


def features(c):
    f = []
    if c['kind'] != 'e2e':
        return [c['kind']]
    if c.get('mint'):
        qs = [q for _, a in c['mint'] for _, q in a]
        f.append('mint' if any(q > 0 for q in qs) else '')
        f.append('burn' if any(q < 0 for q in qs) else '')
    for key in ('wdrl', 'certs', 'props', 'donation', 'merge', 'potential', 'excluded', 'scripts'):
        if c.get(key):
            f.append(key)
    if c.get('explicit') and len(set(c['explicit'])) < len(c['explicit']):
        f.append('dup-input')
    if any(u['m'] for u in c['utxos']):
        f.append('multi-asset')
    if c.get('live'):
        f.append('liveness')
    if c.get('sel'):
        f.append('selection-rich')
    f.append('explicit' if c.get('explicit') and not c.get('addr_inputs') else
             'address' if not c.get('explicit') else 'mixed')
    return [x for x in f if x]


def classify(c, r):
    if 'driver_error' in r:
        return 'exception'
    if c.get('live') and r.get('body') is None:
        sel = (r.get('log') or {}).get('sel', [])
        ok = [x for x in sel if x.get('res', ['err'])[0] == 'ok']
        if ok and r.get('err') == 'InsufficientUTxOBalanceException' and len(ok[-1]['res'][1]) < len(ok[-1]['pool']):
            # a selector answered (within its contract, for the request it was given) and left UTxOs in the pool; build()
            # then refused in _add_change_and_fee: the fee of the inputs just added was not part of the request
            return 'liveness-refused-after-selection'
        return 'liveness-refused'
    if c['kind'] == 'pack':
        return 'pack-not-a-partition'
    if c['kind'] == 'calc':
        return 'calc-change-sum'
    if c['pp']['mvs'] < 100 and any(u['m'] for u in c['utxos']):
        return 'pack-break-tiny-max-val-size'
    for x in (r.get('log') or {}).get('sel', []):
        if x.get('res', ['err'])[0] == 'ok':
            ans, pool = [tuple(t) for t in x['res'][1]], {tuple(t) for t in x['pool']}
            if len(set(ans)) < len(ans) or not set(ans) <= pool:
                return 'unbalanced-selector-answer-outside-contract'
    fs = features(c)
    for key in ('donation', 'props', 'certs', 'wdrl', 'burn', 'mint', 'dup-input', 'merge', 'multi-asset'):
        if key in fs:
            return 'unbalanced-' + key
    return 'unbalanced'


def nontrivial(c, r):
    if c['kind'] == 'e2e':
        return r.get('body') is not None
    if c['kind'] == 'calc':
        return r['res'][0] == 'ok'
    return r['res'][0] == 'ok' and len(r['res'][1]) >= 1


def share_assets(rng, c):
    """equivalent construction: some bundles of the wallet hold ONE Asset object under two policies (the driver shares the
    object for equal literals when the case carries share=True) — value arithmetic must treat each policy as its own copy"""
    if c['kind'] != 'e2e' or rng.random() >= 0.15:
        return c
    extra = ['ab' * 28, 'cd' * 28]
    hit = False
    for u in c['utxos']:
        if u['m'] and rng.random() < 0.6:
            have = {p for p, _ in u['m']}
            for p in extra:
                if p not in have and rng.random() < 0.7:
                    u['m'] = u['m'] + [[p, [list(x) for x in u['m'][0][1]]]]
                    hit = True
    if hit:
        c['share'] = True
    return c


def gen_cases(ctx, n_e2e, n_sel, n_calc, n_pack):
    cases = [dict(c) for c in corpus_cases()]
    ncorpus = len(cases)
    cases += [A.lookalike_ids(ctx.rng, share_assets(ctx.rng, gen_e2e(ctx.rng))) for _ in range(n_e2e)]
    cases += [A.lookalike_ids(ctx.rng, share_assets(ctx.rng, gen_sel(ctx.rng))) for _ in range(n_sel)]
    cases += [A.lookalike_ids(ctx.rng, gen_live(ctx.rng)) for _ in range(max(40, n_sel // 2))]
    cases += [gen_calc(ctx.rng) for _ in range(n_calc)]
    cases += [gen_pack(ctx.rng) for _ in range(n_pack)]
    return cases, ncorpus


def run(ctx, cases):
    results = C.run_impl(DRIVER, {'cases': cases}, nshards=C.NPROC)
    mism, ofail, errs = evaluate(cases, results)
    if errs:
        raise RuntimeError('cases file failed to compile: ' + errs[0])
    return results, mism, ofail


COMPONENTS = {'e2e': ['deposits', 'pre-selection request', 'pool offered to the selectors',
                      'selector answer within its contract (members of the pool, none twice)',
                      'self.inputs = explicit + selected', 'change/fee phase',
                      'body content = scenario', 'pool untouched'],
              'calc': ['deposits', '_calc_change', 'change address'], 'pack': ['_pack_tokens_for_change', 'probe', 'probe', 'probe']}


def correspond(ctx, sizes=None):
    n_e2e, n_sel, n_calc, n_pack = sizes or (ctx.n(280, 10000), ctx.n(120, 4000), ctx.n(180, 6000), ctx.n(140, 4000))
    policies()
    cases, ncorpus = gen_cases(ctx, n_e2e, n_sel, n_calc, n_pack)
    results, mism, ofail = run(ctx, cases)
    hist, errk, outcome, known_hits = {}, {}, {'body': 0, 'refused': 0}, {}
    for c, r in zip(cases, results):
        for f in features(c):
            hist[f] = hist.get(f, 0) + 1
        if c['kind'] == 'e2e' and 'driver_error' not in r:
            outcome['body' if r['body'] is not None else 'refused'] += 1
            if r['err']:
                errk[r['err']] = errk.get(r['err'], 0) + 1
    corpus_refused = [i for i in range(ncorpus) if results[i].get('body') is None and 'driver_error' not in results[i]]

    def pack(i, comp=None):
        d = {'input': cases[i], 'impl': {k: v for k, v in results[i].items() if k not in ('log',)},
             'region': classify(cases[i], results[i])}
        if comp is not None:
            names = COMPONENTS[cases[i]['kind']]
            d['component'] = names[min(comp, len(names)) - 1] if comp > 0 else 'driver'
        return d
    fails = []
    for i in sorted(ofail):
        reg = classify(cases[i], results[i])
        if reg in KNOWN_REGIONS:
            known_hits[reg] = known_hits.get(reg, 0) + 1
        else:
            fails.append(pack(i))
    distinct = len({C.canon_hash(c) for c, r in zip(cases, results) if 'driver_error' not in r and nontrivial(c, r)})
    return dict(
        evaluations=len(cases), distinct_nontrivial=distinct,
        rule='corpus (witnesses of the former C06 defects) first; full scenarios: pool 1..12 UTxOs (ADA-only / multi-asset / token '
             'heavy, shared transaction ids), explicit / address-selected / mixed / potential inputs incl. the same UTxO twice, '
             '0..4 requested outputs (with tokens, at the change address, zero lovelace), mint and burn (with and without native '
             'scripts), 0..2 withdrawals, 0..6 certificates of every kind incl. equal-coin registrations, deregistrations, DRep '
             'reg/unreg, pool registration initial/not and repeated, 0..3 proposals incl. a repeated one, donation, merge_change '
             'on/off, fee_buffer, random order of the builder calls, state of the `random` module seeded per scenario (rseed); '
             'selection-rich scenarios (gen_sel): 1..4 large ADA-only + 4..11 small UTxOs carrying 1..2 of 1..4 fungible assets, '
             'inputs left to the default selectors (address / mixed with 1..2 explicit, potential and excluded inputs, a second input '
             'address), request = 15..85 % of the large ADA over 1..3 outputs + 0..4 asset kinds sent to outputs or burned, so that '
             'RandomImproveMultiAsset runs its random-select and improve phases per asset kind; 9 protocol-parameter sets (fee 0 .. > 2^32, max_val_size 100..5000, coins_per_utxo_byte 1000..100000, '
             'deposits 0..5e8); slice scenarios for _calc_change (all UTxOs as inputs, random fee, respect_min_utxo on/off) and '
             '_pack_tokens_for_change (max_val_size 30..5000); non-trivial = build returned a body / _calc_change returned '
             'outputs / packing returned; distinct by hash',
        samples=[cases[ncorpus] if len(cases) > ncorpus else cases[0], cases[-1]],
        feature_histogram=hist, build_outcomes=outcome, error_kinds=errk,
        corpus=dict(cases=ncorpus, refused=corpus_refused),
        known_region_hits=known_hits,
        compared='per scenario: _get_total_key_deposit/_get_total_proposal_deposit; the request handed to the selectors; the pool '
                 'handed to the selectors = BalanceSel.offered_pool (order included); the selectors\' answer against selection_ok '
                 '(members of the pool, none twice); self.inputs = explicit (once) + selected; outputs and fee of the returned body (or the exception kind) against '
                 'acf_with on the recorded fee estimates with the modelled min-ADA and packing; certificates/withdrawals/mint/'
                 'proposals/donation/inputs read back from the body bytes; oracle = Balance.balanced on the body bytes with '
                 'inputs resolved through the scenario UTxO map',
        mismatches=[pack(i, comp) for i, comp in sorted(mism.items())[:20]],
        oracle_fail=fails[:50],
    )


def search(ctx, mism):
    """Something no longer checks: look for an input on which the property itself fails on the implementation."""
    ctx.rng.seed(f'search-{ctx.seed}')
    r = correspond(ctx, sizes=(900, 900, 500, 300) if ctx.quick else (16000, 10000, 8000, 4000))
    if r['oracle_fail']:
        return min(r['oracle_fail'], key=lambda f: len(json.dumps(f, default=str)))
    return None


def replay(ctx, rep):
    case = rep['case']['input']
    res = C.run_impl(DRIVER, {'cases': [case]}, nshards=1)
    mism, ofail, errs = evaluate([case], res)
    print('input:', json.dumps(case))
    print('implementation:', json.dumps({k: v for k, v in res[0].items() if k != 'log'}))
    if errs:
        print('cases file failed to compile:', errs[0])
        return 1
    print('model agrees:', 0 not in mism, ' property oracle holds:', 0 not in ofail)
    return 1 if ofail else 0
